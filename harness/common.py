"""Shared machinery of the lena verification checks (see /verif/DESIGN.md, sections 1 and 4).

A property module (harness/props/cXX.py) provides

    PID, TITLE
    THEOREMS        : list of fully qualified Lean theorem names = the proof obligations
    LEAN_MODULES    : Lean modules that hold them (built with `lake build`)
    LEAN_SOURCES    : files scanned for sorry/axiom/native_decide ... (relative to lean/)
    DRIVER          : `drivers/Cxx.lean` (model driver, line protocol) or None
    TRUSTED, ASSUMPTIONS : lists of strings for the evidence file
    RULE            : how cases are generated and what counts as non-trivial
    gen_cases(ctx)  : iterable of cases (JSON-able dicts); ctx.tier, ctx.rng, ctx.seed
    run_impl(case)  : executes the REAL lena code, returns a canonical JSON-able result
    model_requests(case) : list of JSON objects sent to the model driver (may be empty)
    compare(case, impl_result, model_replies) : None if the model predicts the impl, else a string
    oracle(case, impl_result) : None if the property's own statement holds on this case,
                      else a string describing the failure (this is the failing-input detector)
    nontrivial(case, impl_result) : bool
    signature(case, failure) : string used to match known_findings.json (optional)
    shrink(case)    : iterable of smaller candidate cases (optional)
    search_cases(ctx) : extra cases for the failing-input search (optional; default: thorough cases)
    classify(case, impl_result) : label(s) for the input-distribution histogram (optional)

Verdict logic: DESIGN.md section 1.
"""
from __future__ import annotations

import argparse
import collections
import fcntl
import hashlib
import importlib
import json
import multiprocessing
import os
import random
import re
import signal
import subprocess
import sys
import time
import traceback
from pathlib import Path

VERIF = Path(__file__).resolve().parent.parent
LEAN_DIR = VERIF / "lean"
REPO = Path(os.environ.get("LENA_REPO", "/repo"))
# evidence is only ever written from runs against /repo itself; a run against another tree (LENA_REPO, used for
# the seeded changes) writes its evidence where it cannot be mistaken for it
EVIDENCE_DIR = VERIF / "evidence" if REPO == Path("/repo") else VERIF / "out" / "evidence_other_tree"
REPLAY_DIR = VERIF / "replays"
CORPUS_DIR = VERIF / "corpus"
KNOWN_FILE = VERIF / "known_findings.json"
DEDUP_FAILING_BY_SIGNATURE = True
ALLOWED_AXIOMS = {"propext", "Classical.choice", "Quot.sound"}
FORBIDDEN = re.compile(
    r"\b(sorry|admit|native_decide|bv_decide|implemented_by|unsafe|extern)\b|^\s*axiom\s|maxHeartbeats\s+0\b",
    re.M,
)

# the real code under test: /repo's working tree, imported in this process
if str(REPO) not in sys.path:
    sys.path.insert(0, str(REPO))


# ----------------------------------------------------------------------------------------
# canonicalisation helpers

def exc_name(e: BaseException) -> str:
    """Map an exception to the small enum used on both sides of the protocol."""
    n = type(e).__name__
    known = {"LenaTypeError", "LenaValueError", "LenaKeyError", "LenaStopFill", "LenaIndexError",
             "LenaAttributeError", "LenaRuntimeError", "LenaZeroDivisionError", "LenaEnvironmentError",
             "LenaNotImplementedError"}
    return n if n in known else "Other:" + n


class CaseTimeout(BaseException):
    pass


def _alarm(signum, frame):
    raise CaseTimeout()


def with_timeout(fn, seconds, *a, **kw):
    """Run fn with a wall-clock watchdog (SIGALRM); raises CaseTimeout."""
    old = signal.signal(signal.SIGALRM, _alarm)
    signal.setitimer(signal.ITIMER_REAL, seconds)
    try:
        return fn(*a, **kw)
    finally:
        signal.setitimer(signal.ITIMER_REAL, 0)
        signal.signal(signal.SIGALRM, old)


def canon(o):
    """JSON-able canonical form (dict keys sorted by json.dumps(sort_keys=True) later)."""
    if isinstance(o, dict):
        return {str(k): canon(v) for k, v in o.items()}
    if isinstance(o, (list, tuple)):
        return [canon(v) for v in o]
    if isinstance(o, (str, int, bool)) or o is None:
        return o
    if isinstance(o, float):
        return {"float": repr(o)}
    return {"obj": type(o).__name__}


def jdump(o) -> str:
    return json.dumps(o, sort_keys=True, separators=(",", ":"))


# ----------------------------------------------------------------------------------------
# Lean side

def lean_env():
    env = dict(os.environ)
    env["LEAN_PATH"] = str(LEAN_DIR / ".lake/build/lib/lean")
    return env


def lake_build(modules, timeout=1500):
    """Build the given Lean modules (serialised by a file lock). Returns (ok, log)."""
    (LEAN_DIR / ".lake").mkdir(exist_ok=True)
    lock = open(LEAN_DIR / ".lake" / "verif.lock", "w")
    fcntl.flock(lock, fcntl.LOCK_EX)
    try:
        p = subprocess.run(["lake", "build"] + list(modules), cwd=LEAN_DIR, capture_output=True,
                           text=True, timeout=timeout)
        return p.returncode == 0, (p.stdout + p.stderr)[-6000:]
    except subprocess.TimeoutExpired:
        return False, "lake build timed out"
    finally:
        fcntl.flock(lock, fcntl.LOCK_UN)
        lock.close()


def strip_lean_comments(src: str) -> str:
    """Remove `--` line comments and (nested) `/- -/` block comments, and string literals."""
    out, i, n, depth = [], 0, len(src), 0
    while i < n:
        if src.startswith("/-", i):
            depth += 1
            i += 2
        elif depth and src.startswith("-/", i):
            depth -= 1
            i += 2
        elif depth:
            if src[i] == "\n":
                out.append("\n")
            i += 1
        elif src.startswith("--", i):
            while i < n and src[i] != "\n":
                i += 1
        elif src[i] == '"':
            i += 1
            while i < n and src[i] != '"':
                i += 2 if src[i] == "\\" else 1
            i += 1
            out.append('""')
        else:
            out.append(src[i])
            i += 1
    return "".join(out)


def scan_sources(files):
    """Return a list of (file, line, token) for forbidden constructs outside comments."""
    hits = []
    for f in files:
        p = LEAN_DIR / f
        if not p.exists():
            hits.append((f, 0, "missing-file"))
            continue
        code = strip_lean_comments(p.read_text())
        for m in FORBIDDEN.finditer(code):
            line = code.count("\n", 0, m.start()) + 1
            hits.append((f, line, m.group(0).strip()))
    return hits


def audit_axioms(pid, modules, theorems, timeout=900):
    """`#print axioms` on every obligation. Returns dict theorem -> list of axioms | None (missing)."""
    d = LEAN_DIR / ".lake" / "audit"
    d.mkdir(parents=True, exist_ok=True)
    f = d / f"Audit_{pid}.lean"
    lines = [f"import {m}" for m in modules]
    for t in theorems:
        lines.append(f"#print axioms {t}")
    f.write_text("\n".join(lines) + "\n")
    p = subprocess.run(["lean", str(f)], cwd=LEAN_DIR, env=lean_env(), capture_output=True, text=True,
                       timeout=timeout)
    out = p.stdout + p.stderr
    res = {t: None for t in theorems}
    # outputs: "'X' depends on axioms: [a, b]" (possibly over several lines) or "'X' does not depend on any axioms"
    for m in re.finditer(r"'([^']+)' depends on axioms: \[([^\]]*)\]", out, re.S):
        res[m.group(1)] = [a.strip() for a in m.group(2).replace("\n", " ").split(",") if a.strip()]
    for m in re.finditer(r"'([^']+)' does not depend on any axioms", out):
        res[m.group(1)] = []
    return res, out[-4000:]


class ModelDriver:
    """Batch access to a model driver: send request lines, get reply lines (same order)."""

    def __init__(self, driver):
        self.driver = driver

    def ask(self, requests, timeout=3600):
        if not requests:
            return []
        data = "\n".join(jdump(r) for r in requests) + "\n"
        p = subprocess.run(["lean", "--run", self.driver], cwd=LEAN_DIR, env=lean_env(), input=data,
                           capture_output=True, text=True, timeout=timeout)
        lines = [l for l in p.stdout.split("\n") if l.strip()]
        if p.returncode != 0 or len(lines) != len(requests):
            raise RuntimeError(f"model driver {self.driver} failed: rc={p.returncode} "
                               f"{len(lines)} replies for {len(requests)} requests; stderr={p.stderr[-2000:]}")
        return [json.loads(l) for l in lines]


# ----------------------------------------------------------------------------------------
# line coverage of the anchored source files of the property (how much of the modelled code the generated cases reach)

_COV_HITS = set()
_COV_FILES = set()
_COV_ON = False


def anchored_files(pid):
    """repo-relative paths of the files the property is anchored in (properties.jsonl, anchors.files)"""
    try:
        for l in (VERIF / "properties.jsonl").read_text().splitlines():
            if l.strip():
                d = json.loads(l)
                if d.get("id") == pid:
                    return [f for f in d.get("anchors", {}).get("files", []) if f.endswith(".py")]
    except Exception:
        pass
    return []


def _cov_start(pid):
    """sys.monitoring LINE events (CPython >= 3.12), every location reported once: negligible overhead"""
    global _COV_ON
    if _COV_ON or os.environ.get("VERIF_NO_COVERAGE") or not hasattr(sys, "monitoring"):
        return
    files = {str((REPO / f).resolve()) for f in anchored_files(pid)}
    if not files:
        return
    mon = sys.monitoring
    try:
        mon.use_tool_id(mon.COVERAGE_ID, "verif")
    except Exception:
        return
    _COV_FILES.update(files)

    def on_line(code, line):
        if code.co_filename in _COV_FILES:
            _COV_HITS.add((code.co_filename, line))
        return mon.DISABLE

    mon.register_callback(mon.COVERAGE_ID, mon.events.LINE, on_line)
    mon.set_events(mon.COVERAGE_ID, mon.events.LINE)
    _COV_ON = True


def coverage_report(pid, hits):
    """per anchored file: executable lines hit / total, and per function the lines never reached"""
    import ast
    rep = {}
    for rel in anchored_files(pid):
        path = (REPO / rel).resolve()
        try:
            src = path.read_text()
            tree = ast.parse(src)
            code = compile(src, str(path), "exec")
        except Exception as e:
            rep[rel] = {"error": repr(e)}
            continue
        lines = set()

        def walk(co):
            for _, _, ln in co.co_lines():
                if ln:
                    lines.add(ln)
            for c in co.co_consts:
                if hasattr(c, "co_lines"):
                    walk(c)
        walk(code)
        funcs = []   # (qualname, first, last)

        def visit(node, prefix):
            for ch in ast.iter_child_nodes(node):
                if isinstance(ch, (ast.FunctionDef, ast.AsyncFunctionDef, ast.ClassDef)):
                    q = prefix + ch.name
                    if not isinstance(ch, ast.ClassDef):
                        funcs.append((q, ch.lineno, ch.end_lineno))
                    visit(ch, q + ".")
        visit(tree, "")
        hit = {ln for (f, ln) in hits if f == str(path)}
        # docstring-only / def lines are executed at import time (before monitoring started): count body lines only
        body = set()
        partial, not_entered, full = {}, [], 0
        for q, a, b in funcs:
            fl = {ln for ln in lines if a < ln <= b}
            inner = set()
            for q2, a2, b2 in funcs:
                if q2 != q and a < a2 and b2 <= b:
                    inner |= {ln for ln in lines if a2 <= ln <= b2}
            fl -= inner
            if not fl:
                continue
            body |= fl
            h = fl & hit
            if not h:
                not_entered.append(q)
            elif h == fl:
                full += 1
            else:
                partial[q] = sorted(fl - h)[:25]
        rep[rel] = {"function_body_lines": len(body), "hit": len(body & hit), "functions_fully_covered": full,
                    "functions_partially_covered": partial, "functions_not_entered": not_entered[:60]}
    return rep


# ----------------------------------------------------------------------------------------
# fingerprints of the anchored source: has the code the model transcribes changed since the model was validated?

ANCHOR_DIR = VERIF / "anchors"


def source_fingerprints(pid):
    """{file: {qualname: sha1 of the AST of the function/class body}} for the files the property is anchored in"""
    import ast
    out = {}
    for rel in anchored_files(pid):
        path = REPO / rel
        try:
            tree = ast.parse(path.read_text())
        except Exception as e:
            out[rel] = {"<unreadable>": repr(e)}
            continue
        d = {}

        def visit(node, prefix):
            for ch in ast.iter_child_nodes(node):
                if isinstance(ch, (ast.FunctionDef, ast.AsyncFunctionDef)):
                    body = [b for b in ch.body if not (isinstance(b, ast.Expr) and isinstance(getattr(b, "value", None), ast.Constant)
                                                       and isinstance(b.value.value, str))]   # ignore docstrings
                    d[prefix + ch.name] = hashlib.sha1("".join(ast.dump(b) for b in body).encode()
                                                       + ast.dump(ch.args).encode()).hexdigest()[:16]
                    visit(ch, prefix + ch.name + ".")
                elif isinstance(ch, ast.ClassDef):
                    visit(ch, prefix + ch.name + ".")
        visit(tree, "")
        # module level statements other than defs/classes/docstrings
        top = [b for b in tree.body if not isinstance(b, (ast.FunctionDef, ast.AsyncFunctionDef, ast.ClassDef))
               and not (isinstance(b, ast.Expr) and isinstance(getattr(b, "value", None), ast.Constant))]
        d["<module>"] = hashlib.sha1("".join(ast.dump(b) for b in top).encode()).hexdigest()[:16]
        out[rel] = d
    return out


def changed_anchors(pid):
    """qualified names whose code differs from the committed baseline anchors/<pid>.json (None: no baseline)"""
    f = ANCHOR_DIR / f"{pid}.json"
    if not f.exists():
        return None
    base = json.loads(f.read_text())
    cur = source_fingerprints(pid)
    ch = []
    for rel in sorted(set(base) | set(cur)):
        b, c = base.get(rel, {}), cur.get(rel, {})
        for q in sorted(set(b) | set(c)):
            if b.get(q) != c.get(q):
                ch.append(f"{rel}:{q}")
    return ch


# ----------------------------------------------------------------------------------------
# check context

class Ctx:
    def __init__(self, pid, tier, seed):
        self.pid, self.tier, self.seed = pid, tier, seed
        self.rng = random.Random(f"{pid}:{tier}:{seed}")

    def sub(self, tier=None, seed=None):
        return Ctx(self.pid, tier or self.tier, self.seed if seed is None else seed)


def load_known():
    if KNOWN_FILE.exists():
        return json.loads(KNOWN_FILE.read_text())
    return {"known": [], "fixed": []}


def write_replay(pid, kind, payload):
    REPLAY_DIR.mkdir(exist_ok=True)
    body = {"property": pid, "kind": kind}
    body.update(payload)
    h = hashlib.sha1(jdump(body).encode()).hexdigest()[:12]
    path = REPLAY_DIR / f"{pid}-{kind}-{h}.json"
    path.write_text(json.dumps(body, indent=1, sort_keys=True))
    return path


def _eval_chunk(args):
    """Worker: run impl + oracle on a chunk of cases. Returns list of (idx, impl_result, oracle_msg, nontrivial, labels)."""
    modname, chunk, case_timeout = args
    mod = importlib.import_module(modname)
    _cov_start(getattr(mod, "PID", ""))
    out = []
    confirmed_timeouts = 0
    for idx, case in chunk:
        try:
            res = with_timeout(mod.run_impl, case_timeout, case)
        except CaseTimeout:
            # a loaded machine can stall a worker for seconds: a timeout counts only if the case, re-run
            # alone with a ten times larger budget, still does not return (at most 3 such retries per chunk)
            res = {"__timeout__": True}
            if confirmed_timeouts < 3:
                try:
                    res = with_timeout(mod.run_impl, case_timeout * 10, case)
                except CaseTimeout:
                    confirmed_timeouts += 1
        except Exception as e:  # harness-level failure in run_impl is a harness error
            res = {"__harness_error__": "".join(traceback.format_exception_only(type(e), e)).strip(),
                   "__tb__": traceback.format_exc()[-1500:]}
        try:
            if isinstance(res, dict) and res.get("__timeout__"):
                orc = f"no result within {case_timeout * 10}s (watchdog)"
            elif isinstance(res, dict) and "__harness_error__" in res:
                orc = None
            else:
                orc = mod.oracle(case, res)
        except Exception as e:
            orc = None
            res = {"__harness_error__": "oracle: " + repr(e), "__tb__": traceback.format_exc()[-1500:]}
        try:
            nt = bool(mod.nontrivial(case, res)) if not (isinstance(res, dict) and "__harness_error__" in res) else False
        except Exception:
            nt = False
        labels = []
        if hasattr(mod, "classify"):
            try:
                l = mod.classify(case, res)
                labels = [l] if isinstance(l, str) else list(l or [])
            except Exception:
                labels = ["classify-error"]
        out.append((idx, res, orc, nt, labels))
    return out, set(_COV_HITS)


def _limit_worker_memory():
    """A mutated implementation can allocate without bound (seen: 60 GB); cap each worker's address space so that
    it fails with MemoryError (reported as an exception of the case) instead of taking the machine down."""
    try:
        import resource
        cap = int(os.environ.get("VERIF_WORKER_MEM_GB", "10")) << 30
        soft, hard = resource.getrlimit(resource.RLIMIT_AS)
        if hard == resource.RLIM_INFINITY or cap < hard:
            resource.setrlimit(resource.RLIMIT_AS, (cap, hard))
    except Exception:
        pass


COVERAGE_HITS = set()


def evaluate(modname, cases, jobs, case_timeout):
    """Run impl+oracle over all cases (in parallel for big runs)."""
    indexed = list(enumerate(cases))
    if jobs <= 1 or len(indexed) < 2000:
        out, hits = _eval_chunk((modname, indexed, case_timeout))
        COVERAGE_HITS.update(hits)
        return out
    n = jobs * 4
    chunks = [indexed[i::n] for i in range(n)]
    # ProcessPoolExecutor raises BrokenProcessPool when a worker is killed (e.g. by the OOM killer); Pool.map would wait for ever
    from concurrent.futures import ProcessPoolExecutor
    with ProcessPoolExecutor(jobs, mp_context=multiprocessing.get_context("fork"), initializer=_limit_worker_memory) as pool:
        parts = list(pool.map(_eval_chunk, [(modname, c, case_timeout) for c in chunks if c]))
    out = [r for part, hits in parts for r in part]
    for part, hits in parts:
        COVERAGE_HITS.update(hits)
    out.sort(key=lambda r: r[0])
    return out


def ask_model_parallel(driver, reqs, jobs):
    if not reqs:
        return []
    if jobs <= 1 or len(reqs) < 20000:
        return ModelDriver(driver).ask(reqs)
    n = jobs
    size = (len(reqs) + n - 1) // n
    parts = [reqs[i:i + size] for i in range(0, len(reqs), size)]
    from concurrent.futures import ProcessPoolExecutor
    with ProcessPoolExecutor(len(parts), mp_context=multiprocessing.get_context("fork")) as pool:
        res = list(pool.map(ModelDriver(driver).ask, parts))
    return [r for part in res for r in part]


def shrink_case(mod, case, still_fails, budget=400, wall_s=None):
    """Greedy shrinking with a step budget and a wall-clock budget (VERIF_SHRINK_S, default 180 s per failure): a
    hanging implementation costs a watchdog period per candidate that still hangs, so the time is bounded."""
    if not hasattr(mod, "shrink"):
        return case
    cur, steps = case, 0
    improved = True
    t0 = time.time()
    wall_s = float(os.environ.get("VERIF_SHRINK_S", "180")) if wall_s is None else wall_s
    while improved and steps < budget and time.time() - t0 < wall_s:
        improved = False
        for cand in mod.shrink(cur):
            steps += 1
            if steps > budget or time.time() - t0 >= wall_s:
                break
            try:
                if still_fails(cand):
                    cur, improved = cand, True
                    break
            except Exception:
                continue
    return cur


def oracle_fails(mod, case, case_timeout, confirm=True):
    """The oracle's message for the case ('' / None if it holds).  A watchdog timeout is confirmed by a solitary
    re-run with ten times the budget; with confirm=False (used while shrinking a failure that IS a hang: the final
    shrunk case is confirmed afterwards) the re-run has twice the budget only."""
    try:
        res = with_timeout(mod.run_impl, case_timeout, case)
    except CaseTimeout:
        factor = 10 if confirm else 2
        try:
            res = with_timeout(mod.run_impl, case_timeout * factor, case)
        except CaseTimeout:
            return f"no result within {case_timeout * 10}s (watchdog)"
    return mod.oracle(case, res)


# ----------------------------------------------------------------------------------------

def run_check(modname, argv=None):
    ap = argparse.ArgumentParser()
    ap.add_argument("--tier", default=os.environ.get("VERIF_TIER", "quick"), choices=["quick", "thorough"])
    ap.add_argument("--replay", default=None)
    ap.add_argument("--jobs", type=int, default=int(os.environ.get("VERIF_JOBS", "0")))
    ap.add_argument("--no-lean", action="store_true", help="(debug) skip the Lean build and audit")
    args = ap.parse_args(argv)
    mod = importlib.import_module(modname)
    pid = mod.PID
    seed = int(os.environ.get("VERIF_SEED", "0") or 0)
    tier = args.tier
    jobs = args.jobs or (multiprocessing.cpu_count() if tier == "thorough" else min(8, multiprocessing.cpu_count()))
    case_timeout = getattr(mod, "CASE_TIMEOUT", 10)
    t0 = time.time()
    ctx = Ctx(pid, tier, seed)

    if args.replay:
        return do_replay(mod, args.replay, case_timeout)

    violations = []      # (kind, replay_path, text)
    known_lines = []
    notes = []

    # ---- 1. Lean: build, source scan, axiom audit -------------------------------------------------
    theorems = list(getattr(mod, "THEOREMS", []))
    # auxiliary theorems (definitional unfoldings, encoding lemmas, model-internal glue): audited like the others,
    # but not counted as proof obligations of the property (coverage.auxiliary_theorems)
    aux_theorems = [t for t in getattr(mod, "AUX_THEOREMS", []) if t not in theorems]
    lean_modules = list(getattr(mod, "LEAN_MODULES", []))
    lean_sources = list(getattr(mod, "LEAN_SOURCES", []))
    # bridge theorems (agreement of the independent transcriptions of the same Python code in different property
    # models, LenaModel/Bridge/*.lean) are audited with the properties whose models they relate: harness/bridges.json
    bfile = VERIF / "harness" / "bridges.json"
    if bfile.exists() and not getattr(mod, "EVIDENCE_NAME", None):
        b = json.loads(bfile.read_text()).get(pid, {})
        theorems += [t for t in b.get("theorems", []) if t not in theorems]
        lean_modules += [m for m in b.get("modules", []) if m not in lean_modules]
        lean_sources += [f for f in b.get("sources", []) if f not in lean_sources]
    proof_ok, proof_problems, axioms = True, [], {}
    build_ok = True
    if hasattr(mod, "pre_build"):
        # translators regenerate model data from /repo here (C20)
        mod.pre_build(ctx)
    if not args.no_lean:
        build_ok, build_log = lake_build(lean_modules)
        if not build_ok:
            proof_ok = False
            proof_problems.append({"what": "lake build failed", "modules": lean_modules, "log": build_log[-3000:]})
        hits = scan_sources(lean_sources)
        if hits:
            proof_ok = False
            proof_problems.append({"what": "forbidden construct in Lean sources", "hits": hits})
        if build_ok:
            axioms, audit_log = audit_axioms(getattr(mod, "EVIDENCE_NAME", pid), lean_modules, theorems + aux_theorems)
            for t in theorems + aux_theorems:
                ax = axioms.get(t)
                if ax is None:
                    proof_ok = False
                    proof_problems.append({"what": "theorem missing or not checked", "theorem": t, "log": audit_log[-1500:]})
                elif not set(ax) <= ALLOWED_AXIOMS:
                    proof_ok = False
                    proof_problems.append({"what": "theorem depends on a forbidden axiom", "theorem": t, "axioms": ax})
    discharged = sum(1 for t in theorems if axioms.get(t) is not None and set(axioms[t]) <= ALLOWED_AXIOMS) if build_ok else 0
    # thorough tier: independent re-check of the compiled proofs with leanchecker (replays every declaration
    # of the property's modules through the kernel)
    leanchecker = None
    if tier == "thorough" and build_ok and not args.no_lean and lean_modules:
        try:
            p = subprocess.run(["leanchecker"] + lean_modules, cwd=LEAN_DIR, env=lean_env(), capture_output=True,
                               text=True, timeout=1800)
            leanchecker = "ok" if p.returncode == 0 else "failed"
            if p.returncode != 0:
                proof_ok = False
                proof_problems.append({"what": "leanchecker rejected the compiled modules", "modules": lean_modules,
                                       "log": (p.stdout + p.stderr)[-3000:]})
        except FileNotFoundError:
            leanchecker = "not installed"
        except subprocess.TimeoutExpired:
            leanchecker = "timed out (not counted)"

    # ---- 2. cases: corpus first, then generated -----------------------------------------------
    cases = []
    cdir = CORPUS_DIR / pid
    if cdir.exists():
        for f in sorted(cdir.glob("*.json")):
            c = json.loads(f.read_text())
            cases.extend(c if isinstance(c, list) else [c])
    n_corpus = len(cases)
    exhaustive_flag = False
    gen = mod.gen_cases(ctx)
    cases.extend(gen)
    exhaustive_flag = bool(getattr(ctx, "exhaustive", False))
    # the code the model transcribes differs from what the model was validated against: the hand-written model may
    # be stale, so the quick tier widens its correspondence/oracle run with a sample of the thorough generator
    changed = changed_anchors(pid)
    n_escalated = 0
    if changed and tier == "quick" and not os.environ.get("VERIF_NO_ESCALATION"):
        import itertools
        t_gen = time.time()
        extra = []
        for c in mod.gen_cases(Ctx(pid, "thorough", seed)):
            extra.append(c)
            if len(extra) >= 150000 or time.time() - t_gen > 60:
                break
        k = int(os.environ.get("VERIF_ESCALATION_CASES", "30000"))
        if len(extra) > k:
            extra = random.Random(f"{pid}:escalate:{seed}").sample(extra, k)
        n_escalated = len(extra)
        cases.extend(extra)
        notes.append(f"anchored source changed since the model was validated ({len(changed)} definitions, e.g. {changed[:4]}): "
                     f"{n_escalated} cases of the thorough generator added to this quick run")

    results = evaluate(modname, cases, jobs, case_timeout)

    harness_errors = [(i, r) for (i, r, o, nt, l) in results if isinstance(r, dict) and "__harness_error__" in r]
    crashed = {}
    if harness_errors:
        i, r = harness_errors[0]
        if not changed:
            # unchanged anchored source: a crash of run_impl/oracle is a defect of the harness, never a verdict
            print(f"HARNESS-ERROR property={pid} case={jdump(cases[i])[:400]} error={r['__harness_error__']}\n{r.get('__tb__','')}")
            return 2
        # the anchored source differs from what the harness was validated against and the harness cannot even
        # evaluate these cases on it: the correspondence no longer checks (reported below, after the search for a
        # failing input, as a correspondence break)
        crashed = {i: r for i, r in harness_errors}
        notes.append(f"{len(crashed)} cases could not be evaluated on the changed implementation, e.g. {r['__harness_error__'][:200]}")

    # ---- 3. correspondence with the model ------------------------------------------------------
    disagreements = []
    n_model = 0
    model_ok = True
    if getattr(mod, "DRIVER", None) and build_ok and not args.no_lean:
        reqs, spans = [], []
        for c in cases:
            r = mod.model_requests(c)
            spans.append((len(reqs), len(reqs) + len(r)))
            reqs.extend(r)
        try:
            replies = ask_model_parallel(mod.DRIVER, reqs, jobs)
        except Exception as e:
            model_ok = False
            proof_ok = False
            proof_problems.append({"what": "model driver failed", "error": str(e)[-2000:]})
            replies = None
        if replies is not None:
            n_model = len(replies)
            for (idx, res, orc, nt, labels), (a, b) in zip(results, spans):
                if a == b or idx in crashed:
                    continue
                msg = mod.compare(cases[idx], res, replies[a:b])
                if msg:
                    disagreements.append((idx, msg, replies[a:b]))

    for idx, r in list(crashed.items())[:5]:
        disagreements.append((idx, "the harness cannot evaluate this case on the changed implementation: "
                              + r["__harness_error__"][:300], []))
    # ---- 4. oracle failures on the implementation -------------------------------------------------
    known = load_known()
    failing = [(idx, res, orc) for (idx, res, orc, nt, labels) in results if orc]
    reported_sigs = set()

    def report_failure(case, msg, origin):
        sig = mod.signature(case, msg) if hasattr(mod, "signature") else jdump(case)
        if sig in reported_sigs:
            return
        reported_sigs.add(sig)
        for k in known.get("known", []):
            if k.get("property") == pid and k.get("signature") == sig:
                known_lines.append(f"KNOWN-FINDING: property={pid} {k.get('what', sig)}")
                return
        is_hang = "(watchdog)" in str(msg)
        small = shrink_case(mod, case, lambda c: bool(oracle_fails(mod, c, case_timeout, confirm=not is_hang)))
        try:
            small_msg = oracle_fails(mod, small, case_timeout)
            if not small_msg:       # (a hang accepted with the short budget did not confirm) keep the original case
                small, small_msg = case, msg
        except Exception:
            small, small_msg = case, msg
        path = write_replay(pid, "failing-input", {"seed": seed, "tier": tier, "case": small, "original_case": case,
                                                   "failure": small_msg, "found_by": origin, "signature": sig})
        violations.append(("failing-input", path, small_msg))

    # failures are de-duplicated by signature BEFORE the cut, so that many failures of one (possibly known) class
    # cannot hide a different failure that comes later in the case list; at most 50 distinct signatures are handled
    for idx, res, orc in failing:
        report_failure(cases[idx], orc, "generated cases")
        if len(reported_sigs) >= 50:
            break

    # ---- 5. broken proof / correspondence: search for a failing input ----------------------------
    searched = 0
    if (disagreements or not proof_ok) and not violations:
        # enlarge the search on the real code: the thorough generator with further seeds
        found = False
        t_search = time.time()
        budget_s = 120 if tier == "quick" else 900
        for extra in range(1, 6):
            sctx = Ctx(pid, "thorough", seed * 1000 + extra)
            gen2 = (mod.search_cases(sctx) if hasattr(mod, "search_cases") else mod.gen_cases(sctx))
            scases = list(gen2)
            sres = evaluate(modname, scases, jobs, case_timeout)
            searched += len(scases)
            for (i, r, o, nt, l) in sres:
                if o:
                    report_failure(scases[i], o, "failing-input search after broken proof/correspondence")
                    found = found or bool(violations)
            if found or time.time() - t_search > budget_s or getattr(sctx, "exhaustive", False):
                break
        if not violations:
            for idx, msg, rep in disagreements[:5]:
                path = write_replay(pid, "correspondence", {
                    "seed": seed, "tier": tier, "case": cases[idx], "disagreement": msg,
                    "model_replies": rep, "impl_result": results[idx][1],
                    "model_driver": getattr(mod, "DRIVER", None),
                    "note": "model and implementation differ on this case; no property-failing input found "
                            f"among {len(cases) + searched} cases"})
                violations.append(("correspondence", path, msg + " no-failing-input-found"))
                break
            if not proof_ok and not violations:
                path = write_replay(pid, "proof-obligation", {
                    "seed": seed, "tier": tier, "problems": proof_problems,
                    "note": f"theorem(s) no longer check; no property-failing input found among {len(cases) + searched} cases"})
                violations.append(("proof-obligation", path, "proof obligation broken no-failing-input-found"))

    # ---- 6. evidence ---------------------------------------------------------------------------
    nontriv_keys = set()
    hist = collections.Counter()
    for (idx, res, orc, nt, labels) in results:
        if nt:
            nontriv_keys.add(jdump(cases[idx]))
        for l in labels:
            hist[l] += 1
    samples = []
    step = max(1, len(cases) // 5)
    for idx in list(range(0, len(cases), step))[:6]:
        samples.append({"case": cases[idx], "impl": results[idx][1]})
    ev = {
        "property_id": pid,
        "tier": tier,
        "seed": seed,
        "level": "proof",
        "coverage": {
            "obligations": len(theorems),
            "discharged": discharged,
            "theorems": {t: axioms.get(t) for t in theorems},
            "auxiliary_theorems": {t: axioms.get(t) for t in aux_theorems},
            "checker_cmd": "lake build " + " ".join(lean_modules) + " && lean <generated #print axioms file> (harness/common.py: audit_axioms)",
            "trusted_base": list(getattr(mod, "TRUSTED", [])),
            "evaluations": len(cases),
            "distinct_nontrivial": len(nontriv_keys),
            "rule": getattr(mod, "RULE", ""),
            "samples": samples,
            "exhaustive": exhaustive_flag,
            "corpus_cases": n_corpus,
            "model_replies_compared": n_model,
            "correspondence_disagreements": len(disagreements),
            "oracle_failures": len(failing),
            "search_cases_after_break": searched,
            "input_distribution": dict(hist.most_common(60)),
            "proof_problems": proof_problems,
            "leanchecker": leanchecker,
            "impl_line_coverage": coverage_report(pid, COVERAGE_HITS),
            "anchored_source_changed": changed,
            "escalated_cases": n_escalated,
            "notes": notes + list(getattr(ctx, "notes", [])),
        },
        "assumptions": list(getattr(mod, "ASSUMPTIONS", [])),
        "wall_s": round(time.time() - t0, 2),
        "violations": len(violations),
    }
    EVIDENCE_DIR.mkdir(parents=True, exist_ok=True)
    (EVIDENCE_DIR / f"{getattr(mod, 'EVIDENCE_NAME', pid)}.json").write_text(json.dumps(ev, indent=1, sort_keys=True, default=str))

    for l in known_lines:
        print(l)
    for kind, path, text in violations:
        tail = " no-failing-input-found" if text.endswith("no-failing-input-found") else ""
        print(f"# {pid} {kind}: {text[:600]}")
        print(f"VIOLATION property={pid} replay={path}{tail}")
    print(f"{pid} {tier} seed={seed}: theorems {discharged}/{len(theorems)} discharged, {len(cases)} cases "
          f"({len(nontriv_keys)} distinct non-trivial), {n_model} model replies, {len(disagreements)} disagreements, "
          f"{len(failing)} oracle failures, {len(known_lines)} known, {time.time() - t0:.1f}s")
    return 1 if violations else 0


def do_replay(mod, path, case_timeout):
    body = json.loads(Path(path).read_text())
    pid = mod.PID
    if body.get("kind") == "proof-obligation":
        print(f"replay of a proof-obligation failure: re-run ./check {pid}; problems were:")
        print(json.dumps(body.get("problems"), indent=1)[:3000])
        return 0
    case = body["case"]
    try:
        res = with_timeout(mod.run_impl, case_timeout * 10, case)
    except CaseTimeout:
        res = {"__timeout__": True}
    msg = f"no result within {case_timeout * 10}s" if isinstance(res, dict) and res.get("__timeout__") else mod.oracle(case, res)
    print("case:", jdump(case)[:2000])
    print("impl:", jdump(canon(res))[:2000])
    if getattr(mod, "DRIVER", None) and body.get("kind") == "correspondence":
        ok, log = lake_build(getattr(mod, "LEAN_MODULES", []))
        if ok:
            rep = ModelDriver(mod.DRIVER).ask(mod.model_requests(case))
            print("model:", jdump(rep)[:2000])
            print("compare:", mod.compare(case, res, rep))
    if msg:
        print(f"property {pid} FAILS on this case: {msg}")
        print(f"VIOLATION property={pid} replay={path}")
        return 1
    print(f"property {pid} holds on this case")
    return 0
