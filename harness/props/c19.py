"""C19 — output files always match the current data and nothing unchanged is redone.

Real code: lena.output.{ToCSV, MakeFilename, Write, RenderLaTeX, LaTeXToPDF, PDFToPNG},
lena.flow.{group_plots, MapGroup}.  Only the public interface of lena is used (constructors, run, __call__, the
public attributes Write.output_directory and LaTeXToPDF.processes, Sequence + SetContext for static contexts): no
attribute or function of lena whose name starts with an underscore is read, called or replaced.
Model: lean/LenaModel/Model/C19.lean, theorems lean/LenaModel/Props/C19.lean.

Cases
-----
* stage cases exercise one element (or one function) on an arbitrary incoming context and file-system
  state: "mf" (MakeFilename.__call__), "wmf" (the file name Write.run gives an object that writes itself), "winit" (the mode
  of a Write, observed on an existing file), "write", "latex", "png",
  "gp" (group_plots), "uwg" (MapGroup.run: the group's context updated with its members' new contexts);
  after the adversary round (notes/adversary_C19.md) also ONE element object on a flow of several values: "mfseq"
  (MakeFilename with a static context), "renderflow" (RenderLaTeX, every value selects its template; several runs with
  edits of the template files), "tocsv" (ToCSV with the options that travel in the value's context), "latexrun" with
  arbitrary return codes (1, 127, -9, -15), "wmf" with absolute file names; after seed round K existing names that are
  EMPTY strings in "mf"/"mfseq" and "mfw" (a value with existing names through Sequence(MakeFilename, Write), two runs);
* "hist" cases are *histories*: a list of steps executed in one fresh temporary directory, each step
  first deletes a set of files and then runs a newly built pipeline

      separate:  ToCSV, MakeFilename, Write, RenderLaTeX, Write, LaTeXToPDF, PDFToPNG      (one value per plot)
      group:     group_plots(plots) -> MapGroup(ToCSV, MakeFilename, Write), MakeFilename("combined"),
                 RenderLaTeX, Write, LaTeXToPDF, PDFToPNG                                   (one combined plot)

  with the step's data ids, template id and option settings (modes of the two Writes, overwrite of the
  two converters).  A history may run with a RELATIVE output directory ("relative": the process works in the
  temporary directory), its Sequence may carry a static context ("static": SetContext("name", ...); plots may have no
  name of their own), and a plot's data id 1x means: histogram data x with context.output.duplicate_last_bin = False.

Converters are stubs that record their invocation and embed what they read: in-process (a stand-in for
`subprocess` inside the two lena modules; default) or real `sh` scripts reached through `create_command`
and `PATH` ("stub": "proc").  Modification times are put on a logical clock between runs (files of
earlier runs are older than everything a run writes; inside a run csv < tex < pdf < png), so the mtime
comparison of LaTeXToPDF does not depend on the granularity of the file system clock.

File contents are canonicalised to tokens: {"csv": d}, {"tex": t, "deps": [paths]}, {"pdf": [tex, [deps]]},
{"png": pdf}, {"raw": text}; paths are relative to the temporary directory.
"""
import contextlib
import copy
import itertools
import os
import re
import shutil
import subprocess as _real_subprocess
import sys
import tempfile
import warnings

from harness import common
from harness.common import exc_name, jdump

PID = "C19"
TITLE = "Output files always match the current data and nothing unchanged is redone"
LEAN_MODULES = ["LenaModel.Props.C19", "LenaModel.Props.C19Ext"]
LEAN_SOURCES = ["LenaModel/Model/C19.lean", "LenaModel/Model/C19Spec.lean", "LenaModel/Model/C19Ext.lean",
                "LenaModel/Lemmas/C19.lean", "LenaModel/Props/C19.lean", "LenaModel/Props/C19Ext.lean"]
DRIVER = "drivers/C19.lean"
THEOREMS = [
    "Lena.C19.run_fresh_partial",
    "Lena.C19.history_fresh_partial",
    "Lena.C19.history_fresh_full_fails",
    "Lena.C19.run_fresh_full_fails",
    "Lena.C19.sepCore_fresh",
    "Lena.C19.downCore_spec",
    "Lena.C19.runPlots_fresh",
    "Lena.C19.grpCore_fresh",
    "Lena.C19.group_fresh_partial",
    "Lena.C19.group_history_fresh_partial",
    "Lena.C19.idle_run_is_noop",
    "Lena.C19.settled_run_is_noop",
    "Lena.C19.group_settled_run_is_noop",
    "Lena.C19.group_idle_run_is_noop",
    "Lena.C19.stale_when_csv_missing",
    "Lena.C19.stale_when_tex_missing",
    "Lena.C19.grp_stale_when_nothing_rewritten",
    "Lena.C19.pdf_kept_when_sources_settled",
    "Lena.C19.fresh_when_all_sources_missing",
    "Lena.C19.fresh_when_latex_overwrites",
    "Lena.C19.changed_sticky_plot",
    "Lena.C19.overwrite_rewrites_and_relaunches",
    "Lena.C19.writeCore_changed_content",
    "Lena.C19.group_changed_sticky",
    "Lena.C19.group_changed_after_mapgroup",
    "Lena.C19.makefilename_keeps_existing",
    "Lena.C19.makefilename_prefix_suffix_once",
    "Lena.C19.makefilename_second_has_no_prefix",
    "Lena.C19.makefilename_prefix_accumulates",
    "Lena.C19.write_path_rule",
    "Lena.C19.write_file_at_path",
    "Lena.C19.write_writer_changed",
    "Lena.C19.write_not_writable_passes",
    "Lena.C19.latexHandle_failed",
    "Lena.C19.latexRun_yields_iff_ok",
    "Lena.C19.getTemplate_current",
    "Lena.C19.run_independent_of_previous_runs",
    "Lena.C19.object_history_eq_fresh",
    # Props/C19Ext.lean (adversary round): one element object on several values, inputs that travel with a value
    "Lena.C19.mfObjRun_eq_map",
    "Lena.C19.mfObjRun_independent",
    "Lena.C19.runSpecStatic_named",
    "Lena.C19.renderRun_current",
    "Lena.C19.toCsv_context_dup_precedence",
    "Lena.C19.hist1dRows_length",
    "Lena.C19.hist1dRows_dup",
    "Lena.C19.latexHandle_rc_nonzero",
    "Lena.C19.latexRun_yields_iff_rc_zero",
    "Lena.C19.write_path_below_outdir",
    "Lena.C19.mfWritePath_existing",
    "Lena.C19.mfWritePath_reads_existing",
]
# true by unfolding, refinements between two Lean definitions, Boolean/Prop glue, helper lemmas: audited, not counted
# as proof obligations of the property
AUX_THEOREMS = [
    "Lena.C19.runPlot_eq_sepCore",
    "Lena.C19.tailStage_eq_downCore",
    "Lena.C19.runGroup_refines",
    "Lena.C19.specSeparate_refines",
    "Lena.C19.specRun_refines",
    "Lena.C19.runScalarPlot_eq_runPlot",
    "Lena.C19.runScalarPlots_eq_runPlots",
    "Lena.C19.sourceClosedB_iff",
    "Lena.C19.unitFreshB_iff",
    "Lena.C19.popReturned_perm",
    "Lena.C19.mapGroupGuard_ok",
    "Lena.C19.write_empty_filename",
    "Lena.C19.writeCore_created_leaves_changed",
    "Lena.C19.makefilename_init_rules",
    "Lena.C19.groupPlotsChanged_iff",
    "Lena.C19.combineChanged_spec",
    "Lena.C19.changed_sticky",
    "Lena.C19.writeCore_sticky",
    "Lena.C19.membersCore_quiet",
    "Lena.C19.membersCore_noop",
    "Lena.C19.latexCore_false_world",
    "Lena.C19.mfCall_filename_noop",
    "Lena.C19.runSpecStatic_none",
    "Lena.C19.getTemplateN_current",
    "Lena.C19.toCsv_element_dup",
    "Lena.C19.toCsvRun_pointwise",
    "Lena.C19.schedOfRc_ok_iff",
    "Lena.C19.normPath_rel",
    "Lena.C19.pjoin_rel",
]
CASE_TIMEOUT = 20

# notes/C19_defect_2.md (fixed in /repo by 7f5ee11): a directory or file name that contains ".tex" / ".pdf" made
# LaTeXToPDF / PDFToPNG name files that do not exist.  Regression cases: histories with such names (below) and
# corpus/C19/inner_extension.json.
INNER_EXTENSION_CASES = True

KNOWN_SIG = "stale-pdf:run-starts-with-missing-source-while-pdf-exists"
KNOWN_TAG = "known-class stale artefact"

OUT = "out"
KINDS = ("csv", "tex", "pdf", "png")
RANK = {"csv": 0, "tex": 1, "pdf": 2, "png": 3}
STD_MF = {"filename": [None], "dirname": None, "fileext": None, "prefix": None, "suffix": None, "overwrite": False}
STD_GMF = {"filename": ["combined"], "dirname": None, "fileext": None, "prefix": None, "suffix": None,
           "overwrite": False}

# ----------------------------------------------------------------------------------------
# the real code, with stub converters


class _State:
    proc = False     # True: real subprocesses (sh stubs); False: in-process stand-in
    log = []         # in-process invocation log of the current run
    interrupt = 0    # > 0: the next `communicate()` of a stand-in process raises KeyboardInterrupt (Ctrl-C)
    sched = {}       # tex path -> (rc, fin): the return code of the LaTeX command (0: it succeeds; True/False stand for
                     # 0/1), after how many polls it is seen terminated


def _stub_latex(tex, out):
    """What the stub LaTeX command does: the text of the .tex file and the contents of the files it names."""
    with open(tex) as f:
        text = f.read()
    parts = ["PDF-OF:" + text]
    for p in re.findall(r"CSV:(\S+)", text):
        try:
            with open(p) as f:
                parts.append("\n--%s\n%s" % (p, f.read()))
        except OSError:
            parts.append("\n--%s\nMISSING" % p)
    with open(out, "w") as f:
        f.write("".join(parts))


class _FakePopen(object):
    """In-process stand-in for subprocess.Popen: the command runs to completion at launch — in the working
    directory it is given (`cwd`, as a real process would: relative paths of the command line are resolved there;
    a working directory that does not exist makes Popen itself raise)."""

    def __init__(self, command, **kw):
        self.stdout = b""
        self.stderr = b""
        self.is_latex = command[0] in ("fakelatex", "pdflatex")
        tex = command[1] if command[0] == "fakelatex" else command[-1]
        rc, fin = _State.sched.get(tex, (0, 0)) if self.is_latex else (0, 0)
        rc = {True: 0, False: 1}.get(rc, rc) if isinstance(rc, bool) else rc
        self.polls_left = fin
        cwd = kw.get("cwd")
        old = os.getcwd() if cwd else None
        if cwd:
            os.chdir(cwd)
        try:
            if rc == 0:
                self._rc = self._run(list(command))
            else:
                # launched; the command fails (error exit, command not found, killed by a signal: negative code)
                # and writes nothing
                _State.log.append(["latex", tex])
                self._rc = rc
        finally:
            if old is not None:
                os.chdir(old)
        self.returncode = self._rc if fin == 0 else None

    def _run(self, c):
        try:
            if c[0] == "fakelatex":
                _State.log.append(["latex", c[1]])
                _stub_latex(c[1], c[2])
                return 0
            if c[0] == "pdflatex":
                # the default command of LaTeXToPDF: pdflatex ... -output-directory <dir> <tex> writes <dir>/<job>.pdf
                tex, outdir = c[-1], c[c.index("-output-directory") + 1]
                job = os.path.basename(tex)
                job = job[:-4] if job.endswith(".tex") else job
                _State.log.append(["latex", tex])
                _stub_latex(tex, os.path.join(outdir, job + ".pdf"))
                return 0
            if c[0] == "pdftoppm":
                _State.log.append(["topng", c[1]])
                with open(c[1]) as f:
                    text = f.read()
                with open(c[2] + "." + c[3].lstrip("-"), "w") as f:
                    f.write("PNG-OF:" + text)
                return 0
        except OSError:
            return 1
        return 127

    def poll(self):
        if self.returncode is None:
            if self.polls_left > 0:
                self.polls_left -= 1
                return None
            self.returncode = self._rc
        return self.returncode

    def communicate(self, *a, **k):
        if _State.interrupt > 0 and self.is_latex:
            _State.interrupt -= 1
            raise KeyboardInterrupt()
        self.returncode = self._rc
        return (b"", b"")

    def terminate(self):
        if self.returncode is None:
            self.returncode = -15
            self._rc = -15


class _Subprocess(object):
    """What the two lena modules see as `subprocess`."""
    PIPE = _real_subprocess.PIPE

    @staticmethod
    def Popen(command, **kw):
        if _State.proc:
            return _real_subprocess.Popen(command, **kw)
        return _FakePopen(command, **kw)


_LENA = {}


def _lena():
    if not _LENA:
        warnings.simplefilter("ignore")
        import lena.core
        import lena.flow
        import lena.output
        import lena.structures
        import lena.meta
        l2p = sys.modules["lena.output.latex_to_pdf"]
        p2p = sys.modules["lena.output.pdf_to_png"]
        l2p.subprocess = _Subprocess
        p2p.subprocess = _Subprocess
        _LENA.update(core=lena.core, flow=lena.flow, output=lena.output, structures=lena.structures, meta=lena.meta)
    return _LENA


_SH_LATEX = """#!/bin/sh
echo "latex $1" >> "$STUBLOG"
[ -f "$1" ] || exit 1
{ printf 'PDF-OF:'; cat "$1"; for f in $(grep -o 'CSV:[^ ]*' "$1" | sed 's/CSV://'); do printf '\\n--%s\\n' "$f"; if [ -f "$f" ]; then cat "$f"; else printf 'MISSING'; fi; done; } > "$2"
"""
_SH_PDFLATEX = """#!/bin/sh
# pdflatex -halt-on-error -interaction errorstopmode -output-directory DIR TEX
for a in "$@"; do tex="$a"; done
dir="$5"
job=$(basename "$tex" .tex)
exec fakelatex "$tex" "$dir/$job.pdf"
"""
_SH_PNG = """#!/bin/sh
echo "topng $1" >> "$STUBLOG"
[ -f "$1" ] || exit 1
fmt=$(echo "$3" | sed 's/^-//')
{ printf 'PNG-OF:'; cat "$1"; } > "$2.$fmt"
"""


def _tmp_base():
    return "/dev/shm" if os.path.isdir("/dev/shm") and os.access("/dev/shm", os.W_OK) else None


class _Env(object):
    """One temporary directory: <base>/out (output), <base>/tpl (templates), <base>/bin (sh stubs)."""

    def __init__(self, proc=False, relative=False):
        self.base = tempfile.mkdtemp(prefix="C19-h-", dir=_tmp_base())
        self.proc = proc
        # relative: the process works IN the temporary directory and every path given to lena (output directory,
        # template directory) is relative, as in the usual `Write("output")`
        self.relative = relative
        self.old_cwd = None
        if relative:
            self.old_cwd = os.getcwd()
            os.chdir(self.base)
        self.tick = 0
        self.tpl_now = None      # (layout, template id) of the template file on disk
        self.tpl_edits = 0       # number of edits so far = its logical modification time
        os.mkdir(os.path.join(self.base, "tpl"))
        self.old_path = None
        if proc:
            b = os.path.join(self.base, "bin")
            os.mkdir(b)
            for name, text in (("fakelatex", _SH_LATEX), ("pdftoppm", _SH_PNG), ("pdflatex", _SH_PDFLATEX)):
                p = os.path.join(b, name)
                with open(p, "w") as f:
                    f.write(text)
                os.chmod(p, 0o755)
            self.stublog = os.path.join(self.base, "stub.log")
            self.old_path = os.environ.get("PATH", "")
            self.old_log = os.environ.get("STUBLOG")
            os.environ["PATH"] = b + os.pathsep + self.old_path
            os.environ["STUBLOG"] = self.stublog

    def close(self):
        if self.old_path is not None:
            os.environ["PATH"] = self.old_path
            if self.old_log is None:
                os.environ.pop("STUBLOG", None)
            else:
                os.environ["STUBLOG"] = self.old_log
        _State.proc = False
        if self.old_cwd is not None:
            os.chdir(self.old_cwd)
        shutil.rmtree(self.base, ignore_errors=True)

    # -- paths ---------------------------------------------------------------------------
    def abs(self, rel):
        """the path given to lena for the file `rel` of the temporary directory"""
        return rel if self.relative else os.path.join(self.base, rel)

    def rel(self, path):
        pre = self.base + os.sep
        return path[len(pre):] if isinstance(path, str) and path.startswith(pre) else path

    # -- contents ------------------------------------------------------------------------
    def enc(self, tok):
        """the text that stands for a content token"""
        if "csv" in tok:
            return csv_text(tok["csv"])
        if "tex" in tok:
            return "TPL%d%s end" % (tok["tex"], "".join(" CSV:" + self.abs(p) for p in tok["deps"]))
        if "raw" in tok:
            return tok["raw"]
        if "png" in tok:
            return "PNG-OF:" + self.enc(tok["png"])
        tex, deps = tok["pdf"]
        paths = tex.get("deps", []) if isinstance(tex, dict) else []
        return "PDF-OF:" + self.enc(tex) + "".join(
            "\n--%s\n%s" % (self.abs(p), "MISSING" if d is None else self.enc(d)) for p, d in zip(paths, deps))

    def dec(self, text):
        """content token of a text (inverse of enc; anything else is raw)"""
        tok = self._dec(text)
        return tok if tok is not None and self.enc(tok) == text else {"raw": text.replace(self.base + os.sep, "")}

    def _dec(self, text):
        m = re.fullmatch(r"0\.000000,(\d+)\.000000\n1\.000000,7\.000000\n2\.000000,7\.000000", text)
        if m:
            return {"csv": int(m.group(1))}
        m = re.fullmatch(r"0\.000000,(\d+)\.000000\n1\.000000,7\.000000", text)
        if m:
            return {"csv": int(m.group(1)) + 10}     # written without the duplicated last bin (data ids 11, 12)
        m = re.fullmatch(r"TPL(\d+)((?: CSV:\S+)*) end", text)
        if m:
            return {"tex": int(m.group(1)), "deps": [self.rel(p) for p in re.findall(r"CSV:(\S+)", m.group(2))]}
        if text.startswith("PNG-OF:"):
            inner = self._dec(text[len("PNG-OF:"):])
            return None if inner is None else {"png": inner}
        if text.startswith("PDF-OF:"):
            body = text[len("PDF-OF:"):]
            m = re.match(r"TPL\d+(?: CSV:\S+)* end", body)
            if not m:
                return None
            tex = self._dec(m.group(0))
            rest = body[m.end():]
            deps = []
            for p in tex["deps"]:
                head = "\n--%s\n" % self.abs(p)
                if not rest.startswith(head):
                    return None
                rest = rest[len(head):]
                nxt = rest.find("\n--")
                chunk, rest = (rest, "") if nxt < 0 else (rest[:nxt], rest[nxt:])
                deps.append(None if chunk == "MISSING" else self.dec(chunk))
            return None if rest else {"pdf": [tex, deps]}
        return None

    # -- file system ---------------------------------------------------------------------
    def files(self):
        """{rel path: (text, mtime_ns)} of everything below <base>/out"""
        res = {}
        root = self.abs(OUT)
        for d, _, names in os.walk(root):
            for n in names:
                p = os.path.join(d, n)
                with open(p) as f:
                    text = f.read()
                res[self.rel(p)] = (text, os.stat(p).st_mtime_ns)
        return res

    def put(self, rel, tok, mtime):
        p = self.abs(rel)
        os.makedirs(os.path.dirname(p), exist_ok=True)
        with open(p, "w") as f:
            f.write(self.enc(tok))
        os.utime(p, ns=(mtime * 10 ** 9, mtime * 10 ** 9))

    def age(self):
        """Put all files on the logical clock (order kept; ties of the real clock broken by the stage rank),
        so that everything written later is newer.  Returns {rel: mtime_ns}."""
        fs = self.files()
        order = sorted(fs, key=lambda r: (fs[r][1], RANK.get(r.rsplit(".", 1)[-1], 9), r))
        stamps = {}
        for r in order:
            self.tick += 1
            t = (10 ** 9 + self.tick) * 10 ** 9
            os.utime(self.abs(r), ns=(t, t))
            stamps[r] = t
        return stamps

    def set_template(self, layout, tpl, mtime=None):
        """Edit the template file tpl/t.tex (same path, same size) if its content has to change, and give it a new
        modification time explicitly (as a real edit would; the harness is faster than the clock of the file
        system).  An unchanged template is not touched.  `mtime` forces a given logical time (stage cases)."""
        if mtime is None and self.tpl_now == (layout, tpl):
            return
        if layout == "group":
            text = "TPL%d\\BLOCK{for item in group} CSV:\\VAR{item.output.filepath}\\BLOCK{endfor} end" % tpl
        else:
            text = "TPL%d CSV:\\VAR{output.filepath} end" % tpl
        path = os.path.join(self.base, "tpl", "t.tex")
        with open(path, "w") as f:
            f.write(text)
        if mtime is None:
            self.tpl_edits += 1
            mtime = self.tpl_edits
        t = (1500000000 + mtime) * 10 ** 9
        os.utime(path, ns=(t, t))
        self.tpl_now = (layout, tpl)

    def take_log(self):
        if self.proc:
            log = []
            if os.path.exists(self.stublog):
                with open(self.stublog) as f:
                    log = [l.split(" ", 1) for l in f.read().split("\n") if l]
                os.remove(self.stublog)
        else:
            log = _State.log
        _State.log = []
        return sorted([k, self.rel(p)] for k, p in log)


def csv_text(d):
    """CSV text of the plot with data id d as documented for ToCSV: histogram([0, 1, 2], bins=[d % 10, 7]); ids 1x
    carry context.output.duplicate_last_bin = False ("takes precedence over this element's value"): the last bin
    is not written twice"""
    if d >= 10:
        return "0.000000,%d.000000\n1.000000,7.000000" % (d % 10)
    return "0.000000,%d.000000\n1.000000,7.000000\n2.000000,7.000000" % d


def _tpl_str(t):
    return None if t is None else "".join("{{name}}" if p is None else p for p in t)


def _mf(L, a):
    return L["output"].MakeFilename(filename=_tpl_str(a["filename"]), dirname=_tpl_str(a["dirname"]),
                                    fileext=_tpl_str(a["fileext"]), prefix=_tpl_str(a["prefix"]),
                                    suffix=_tpl_str(a["suffix"]), overwrite=a["overwrite"])


def _write(L, outdir, mode, verbose=False):
    return L["output"].Write(outdir, verbose=verbose, existing_unchanged=(mode == "eu"), overwrite=(mode == "ow"))


OUT_KEYS = ("filename", "dirname", "fileext", "filetype", "prefix", "suffix", "filepath", "changed")


def _out_of_ctx(env, ctx):
    o = ctx.get("output", {}) if isinstance(ctx, dict) else {}
    res = {}
    for k in OUT_KEYS:
        v = o.get(k)
        if k == "filepath":
            v = env.rel(v)
        elif k == "changed" and v is not None:
            v = v if isinstance(v, bool) else {"notbool": repr(v)}
        res[k] = v
    extra = sorted(set(o) - set(OUT_KEYS))
    if extra:
        res["extra"] = extra
    return res


def _ctx_of_out(env, out):
    o = {}
    for k in OUT_KEYS:
        v = (out or {}).get(k)
        if v is not None:
            o[k] = env.abs(v) if k == "filepath" else v
    return {"output": o} if o else {}


def _val(env, v):
    if isinstance(v, tuple) and len(v) == 2 and isinstance(v[1], dict):
        data, ctx = v
    else:
        data, ctx = v, {}
    if isinstance(data, str):
        d = {"path": env.rel(data)}
    elif isinstance(data, list):
        d = {"many": [env.rel(x) for x in data]}
    else:
        d = {"obj": type(data).__name__}
    grp = ctx.get("group")
    return {"data": d, "out": _out_of_ctx(env, ctx),
            "group": None if grp is None else [_out_of_ctx(env, g) for g in grp]}


def _snapshot(env, before):
    """{rel: {"c": token, "w": written since `before` (the stamps of env.age())}}"""
    res = {}
    for r, (text, mt) in env.files().items():
        res[r] = {"c": env.dec(text), "w": before.get(r) != mt}
    return res


def _pipeline(L, env, cfg, layout, verbose=False, default_cmd=False):
    out = env.abs(cfg["outdir"])
    o = L["output"]
    v = bool(verbose)

    def cc(tex, outname, outdir, ctx):
        return ["fakelatex", tex, outname]
    tail = [o.RenderLaTeX("t.tex", template_dir=env.abs("tpl"), verbose=2 if v else 0),
            _write(L, out, cfg["w2"], v),
            o.LaTeXToPDF(overwrite=cfg["lo"], verbose=2 if v else 0, create_command=cc if default_cmd is False else None),
            o.PDFToPNG(overwrite=cfg["po"], verbose=v)]
    # the second result: the element objects built here (the harness keeps its own references; it does not look
    # into the Sequence)
    if layout in ("group", "scalars"):
        return L["core"].Sequence(L["flow"].MapGroup(o.ToCSV(), _mf(L, cfg["mf"]), _write(L, out, cfg["w1"], v)),
                                  _mf(L, cfg["gmf"]), *tail), tail
    head = []
    if cfg.get("static") is not None:
        # the Sequence carries a static context: MakeFilename formats with it where a value has no name of its own
        head = [L["meta"].SetContext("name", cfg["static"])]
    return L["core"].Sequence(*(head + [o.ToCSV(), _mf(L, cfg["mf"]), _write(L, out, cfg["w1"], v)] + tail)), tail


def _names(rs):
    """the names MakeFilename formats with: the plot's own, else the one of the static context"""
    return [pl["name"] if pl["name"] is not None else rs.get("static") for pl in rs["plots"]]


def _flow(L, layout, plots):
    vals = []
    for p in plots:
        ctx = {} if p["name"] is None else {"name": p["name"]}
        if p["data"] >= 10:
            # data ids 1x: the plot's context asks for a CSV text without the duplicated last bin
            ctx["output"] = {"duplicate_last_bin": False}
        vals.append((L["structures"].histogram([0, 1, 2], bins=[p["data"] % 10, 7]), ctx))
    if layout == "group":
        return [L["flow"].group_plots(vals)]
    return vals          # separate plots; "scalars": plain values through the group pipeline


def _run_hist(case):
    L = _lena()
    runs = []
    seq, els = None, []
    env = None
    try:
        env = _Env(proc=(case.get("stub") == "proc"), relative=bool(case.get("relative")))
        for st in case["steps"]:
            for r in st.get("del", []):
                try:
                    os.remove(env.abs(r))
                except OSError:
                    pass
            if st.get("rmdir"):
                # the output directory itself is removed (the step's "del" lists every file below it)
                shutil.rmtree(env.abs(OUT), ignore_errors=True)
            if "run" not in st:
                continue
            rs = st["run"]
            stamps = env.age()
            env.set_template(rs["layout"], rs["tpl"])
            _State.proc = env.proc
            _State.log = []
            try:
                if seq is None or not case.get("reuse"):
                    # "reuse": ONE pipeline object (Sequence and all its elements) serves every run of the history
                    seq, els = _pipeline(L, env, rs, rs["layout"], verbose=bool(case.get("verbose")),
                                         default_cmd=bool(case.get("pdflatex")))
            except Exception as e:
                runs.append({"e": exc_name(e), "phase": "init"})
                break
            res, interrupted = [], None
            _State.interrupt = 1 if (st.get("interrupt") and not env.proc) else 0
            _State.sched = {}
            if st.get("interrupt") and not env.proc:
                # commands that have not terminated when Ctrl-C arrives ("late"): seen terminated only after many polls
                names = _names(rs)
                texs = [_ref_group_base(rs, names) + ".tex"] if rs["layout"] == "group" else \
                    [_ref_base(rs, x) + ".tex" for x in names]
                for t, late in zip(texs, st.get("late") or []):
                    if late:
                        _State.sched[env.abs(t)] = (True, 99)
            try:
                for v in seq.run(iter(_flow(L, rs["layout"], rs["plots"]))):
                    res.append(v)
            except (Exception, KeyboardInterrupt) as e:
                if st.get("interrupt") and isinstance(e, RuntimeError):
                    # Ctrl-C while LaTeXToPDF waits: it yields what is finished, terminates the rest, clears its
                    # pool and ends with `raise StopIteration` (a RuntimeError since PEP 479)
                    interrupted = exc_name(e)
                else:
                    runs.append({"e": exc_name(e), "phase": "run", "msg": str(e)[:200]})
                    break
            finally:
                _State.proc = False
                _State.interrupt = 0
                _State.sched = {}
            vals = sorted((_val(env, v) for v in res), key=jdump)
            run = {"files": _snapshot(env, stamps), "log": env.take_log(), "vals": vals}
            if st.get("interrupt"):
                # the pool of LaTeXToPDF: its public attribute `processes`
                pools = [len(el.processes) for el in els if hasattr(el, "processes")]
                run["interrupted"] = interrupted
                run["pool"] = sum(pools)
            runs.append(run)
    finally:
        if env is not None:
            env.close()
    return {"runs": runs}


def _with_static(L, el, items):
    """`el` as an element of a Sequence that carries the static context `items` ([(key, value)]): the public way to
    give an element a static context — Sequence(SetContext(key, value), ..., el).  The element object is `el` itself
    (the caller goes on using it)."""
    return L["core"].Sequence(*([L["meta"].SetContext(k, v) for k, v in items] + [el]))


class _Recorder(object):
    """a data object with a method write(filepath) that only records where it is told to write itself (Write hands
    it the complete path and touches the file system in no other way)"""

    def __init__(self):
        self.paths = []

    def write(self, path):
        self.paths.append(path)


def _write_names(w, out):
    """Where Write `w` puts a value with context.output = out, observed through Write.run on an object that writes
    itself: [None, filename, fileext, filepath] (the normalised dirname is not observable: None)."""
    rec = _Recorder()
    ctx = {"output": {k: v for k, v in out.items() if v is not None}}
    with warnings.catch_warnings():
        warnings.simplefilter("ignore")
        res = list(w.run(iter([(rec, ctx)])))
    if len(res) != 1 or not isinstance(res[0], tuple) or len(res[0]) != 2 or not isinstance(res[0][1], dict):
        return {"r": [None, None, None, None], "odd": "Write.run yielded %d values" % len(res)}
    path, rctx = res[0]
    o = rctx.get("output", {})
    r = {"r": [None, o.get("filename"), o.get("fileext"), o.get("filepath")]}
    if rec.paths != [path] or o.get("filepath") != path:
        r["odd"] = "yielded %r, context.output.filepath %r, the object was told to write %r" % (path, o.get("filepath"), rec.paths)
    return r


def _write_mode(L, eu, ow):
    """The mode of Write(existing_unchanged=eu, overwrite=ow), observed on a file that exists: "ow" if data equal to
    the file's content is written and reported as changed, "eu" if different data leaves the file as it is, "normal"
    if equal data is left alone and different data is written."""
    w = L["output"].Write("x", existing_unchanged=eu, overwrite=ow, verbose=False)    # arguments are checked here
    base = tempfile.mkdtemp(prefix="c19m")
    try:
        w = L["output"].Write(base, existing_unchanged=eu, overwrite=ow, verbose=False)
        path = os.path.join(base, "f.txt")

        def probe(text):
            with open(path, "w") as f:
                f.write("A")
            os.utime(path, ns=(10 ** 18, 10 ** 18))
            res = list(w.run(iter([(text, {"output": {"filename": "f"}})])))
            with open(path) as f:
                now = f.read()
            return [res[0][1]["output"].get("changed"), now, os.stat(path).st_mtime_ns != 10 ** 18]
        same, diff = probe("A"), probe("B")
    finally:
        shutil.rmtree(base, ignore_errors=True)
    table = {jdump([[False, "A", False], [True, "B", True]]): "normal",
             jdump([[False, "A", False], [False, "A", False]]): "eu",
             jdump([[True, "A", True], [True, "B", True]]): "ow"}
    return table.get(jdump([same, diff]), "other: equal data %s, different data %s" % (same, diff))


def _world_setup(env, world):
    for f in world["files"]:
        env.put(f["p"], f["c"], 10 ** 9 + f["m"])
    stamps = {}
    for r, (text, mt) in env.files().items():
        stamps[r] = mt
    return stamps


class _Writer(object):
    """a data object with a method write(filepath)"""

    def __init__(self, text):
        self.text = text

    def write(self, path):
        with open(path, "w") as f:
            f.write(self.text)


def _data_of(env, d):
    if "writer" in d:
        return _Writer(env.enc(d["writer"]))
    if "text" in d:
        return env.enc(d["text"])
    if "path" in d:
        return env.abs(d["path"])
    return [env.abs(p) for p in d["many"]]


def _run_stage(case):
    L = _lena()
    op = case["op"]
    if op == "mf":
        try:
            el = _mf(L, case["args"])
        except Exception as e:
            return {"e": exc_name(e), "phase": "init"}
        ctx = {} if case["name"] is None else {"name": case["name"]}
        if case.get("static") is not None:
            # static context (set by a Sequence): formatting uses it, the run-time context takes precedence
            _with_static(L, el, [("name", case["static"])])
        o = {k: v for k, v in (case["out"] or {}).items() if v is not None}
        if o or case.get("empty_output"):
            ctx["output"] = o
        before = copy.deepcopy(ctx)
        val = ("data", ctx)
        try:
            res = el(val)
        except Exception as e:
            return {"e": exc_name(e), "phase": "call"}
        rctx = res[1]
        out = {k: rctx.get("output", {}).get(k) for k in OUT_KEYS}
        return {"out": out, "modified": res is not val}
    if op == "mfseq":
        # ONE MakeFilename object (with a static context, as in a Sequence with SetContext) names several values
        try:
            el = _mf(L, case["args"])
        except Exception as e:
            return {"e": exc_name(e), "phase": "init"}
        if case.get("static") is not None:
            _with_static(L, el, [("name", case["static"]), ("detector", "far")])
        elif case.get("static_set"):
            _with_static(L, el, [("detector", "far")])
        outs = []
        for x in case["vals"]:
            ctx = {} if x["name"] is None else {"name": x["name"]}
            o = {k: v for k, v in (x["out"] or {}).items() if v is not None}
            if o:
                ctx["output"] = o
            val = ("data", ctx)
            try:
                res = el(val)
            except Exception as e:
                return {"e": exc_name(e), "phase": "call", "outs": outs}
            outs.append({"out": {k: res[1].get("output", {}).get(k) for k in OUT_KEYS}, "modified": res is not val})
        return {"outs": outs}
    if op == "renderflow":
        # ONE RenderLaTeX object, one or more runs; every value may select its template (context.output.template)
        env = _Env()
        try:
            tdir = os.path.join(env.base, "tpl")
            el = L["output"].RenderLaTeX(case["default"], template_dir=tdir)
            runs = []
            for r in case["runs"]:
                for name, (t, m) in sorted(r["dir"].items()):
                    path = os.path.join(tdir, name)
                    with open(path, "w") as f:
                        f.write("TPL%d CSV:\\VAR{output.filepath} end" % t)
                    ts = (1500000000 + m) * 10 ** 9
                    os.utime(path, ns=(ts, ts))
                flow = []
                for x in r["flow"]:
                    o = {"filepath": env.abs(x["path"])}
                    if x["ft"] is not None:
                        o["filetype"] = x["ft"]
                    if x["tpl"] is not None:
                        o["template"] = x["tpl"]
                    flow.append((env.abs(x["path"]), {"output": o}))
                vals = []
                try:
                    for vin, vout in zip(flow, el.run(iter(list(flow)))):
                        vals.append(None if vout is vin else env.dec(vout[0]) if isinstance(vout[0], str) else {"obj": 1})
                except Exception as e:
                    runs.append({"e": exc_name(e)})
                    break
                runs.append({"vals": vals})
            return {"runs": runs}
        finally:
            env.close()
    if op == "tocsv":
        # ONE ToCSV object on a flow of one-dimensional histograms with their contexts
        H = L["structures"].histogram
        try:
            el = L["output"].ToCSV(duplicate_last_bin=case["dup"], header=case["header"])
            flow = []
            for x in case["flow"]:
                o = {}
                if x["to_csv"] is not None:
                    o["to_csv"] = x["to_csv"]
                if x["ctx_dup"] is not None:
                    o["duplicate_last_bin"] = x["ctx_dup"]
                flow.append((H(list(x["edges"]), bins=list(x["bins"])), {"output": o} if o else {}))
            outs = []
            for vin, vout in zip(flow, el.run(iter(list(flow)))):
                if vout is vin:
                    outs.append(None)
                    continue
                data, ctx = vout
                parsed = _parse_csv(data, case["header"]) if isinstance(data, str) else {"obj": type(data).__name__}
                parsed["filetype"] = ctx.get("output", {}).get("filetype")
                outs.append(parsed)
            return {"outs": outs}
        except Exception as e:
            return {"e": exc_name(e)}
    if op == "wmf":
        try:
            w = L["output"].Write(case["outdir"], verbose=False)
            return _write_names(w, case["out"])
        except Exception as e:
            return {"e": exc_name(e)}
    if op == "mfw":
        # a value that may already carry (possibly EMPTY) names passes Sequence(MakeFilename(...), Write(out)), twice
        base = tempfile.mkdtemp(prefix="C19-w-", dir=_tmp_base())
        try:
            try:
                el = _mf(L, case["args"])
            except Exception as e:
                return {"e": exc_name(e), "phase": "init"}
            outdir = os.path.join(base, case["outdir"])
            runs = []
            for k in range(2):
                ctx = {} if case["name"] is None else {"name": case["name"]}
                o = {k2: v for k2, v in (case["out"] or {}).items() if v is not None}
                if o:
                    ctx["output"] = o
                seq = L["core"].Sequence(el if case.get("reuse") else _mf(L, case["args"]),
                                         L["output"].Write(outdir, verbose=False))
                before = {}
                for root, _, names in os.walk(base):
                    for nm in names:
                        q = os.path.join(root, nm)
                        os.utime(q, ns=(10 ** 18, 10 ** 18))
                        before[q] = True
                try:
                    with warnings.catch_warnings():
                        warnings.simplefilter("ignore")
                        res = list(seq.run([("TEXT", ctx)]))
                except Exception as e:
                    runs.append({"e": exc_name(e)})
                    break
                if len(res) != 1 or not isinstance(res[0], tuple) or not isinstance(res[0][1], dict):
                    runs.append({"odd": "%d values yielded for one value" % len(res)})
                    break
                path, rctx = res[0]
                ro = rctx.get("output", {})
                files = {}
                for root, _, names in os.walk(base):
                    for nm in names:
                        q = os.path.join(root, nm)
                        with open(q) as f:
                            text = f.read()
                        files[os.path.relpath(q, base)] = {"ok": text == "TEXT",
                                                           "w": os.stat(q).st_mtime_ns != 10 ** 18 or q not in before}
                pre = base + os.sep
                rel = lambda x: x[len(pre):] if isinstance(x, str) and x.startswith(pre) else x
                runs.append({"r": [None, ro.get("filename"), ro.get("fileext"), rel(ro.get("filepath"))],
                             "data": rel(path) if isinstance(path, str) else {"obj": type(path).__name__},
                             "dirname": ro.get("dirname"), "changed": ro.get("changed"), "files": files})
            return {"runs": runs}
        finally:
            shutil.rmtree(base, ignore_errors=True)
    if op == "winit":
        try:
            return {"mode": _write_mode(L, case["eu"], case["ow"])}
        except Exception as e:
            return {"e": exc_name(e)}
    if op == "wdir":
        try:
            w = L["output"].Write(_tpl_str(case["dir"]), verbose=False)
            for st in case["statics"]:
                # one Sequence after the other takes the Write object as its element; None: a Sequence without a
                # static context
                _with_static(L, w, [] if st is None else [("name", st)])
            return dict(_write_names(w, case["out"]), dir=w.output_directory)
        except Exception as e:
            return {"e": exc_name(e)}
    if op == "seltpl":
        env = _Env()
        try:
            tdir = os.path.join(env.base, "tpl")
            for name, k in (("t.tex", case["default"]), ("alt.tex", case["ctx"])):
                if k is not None:
                    with open(os.path.join(tdir, name), "w") as f:
                        f.write("TPL%d CSV:\\VAR{output.filepath} end" % k)
            el = L["output"].RenderLaTeX("t.tex" if case["default"] is not None else "", template_dir=tdir)
            ctx = {"output": {"filetype": "csv", "filepath": env.abs("out/f.csv")}}
            if case["ctx"] is not None:
                ctx["output"]["template"] = "alt.tex"
            res = list(el.run(iter([("x", ctx)])))
            return {"tpl": env.dec(res[0][0]).get("tex")}
        except Exception as e:
            return {"e": exc_name(e)}
        finally:
            env.close()
    if op == "mgmulti":
        cols = case["cols"]
        n = len(cols[0])

        class _Multi(object):
            """a member sequence that gives every member len(cols) results"""
            def run(self, flow):
                for val in flow:
                    i = val[0]
                    for col in cols:
                        ctx = copy.deepcopy(val[1])
                        d = {k: v for k, v in (col[i] or {}).items() if v is not None}
                        if d:
                            ctx["output"] = d
                        yield ("r", ctx)
        ctx = {"group": [{} for _ in range(n)]}
        o = {k: v for k, v in (case["ctx"] or {}).items() if v is not None}
        if o:
            ctx["output"] = o
        try:
            res = list(L["flow"].MapGroup(_Multi()).run(iter([(list(range(n)), ctx)])))
        except Exception as e:
            return {"e": exc_name(e)}
        return {"outs": [{k: r[1].get("output", {}).get(k) for k in OUT_KEYS} for r in res]}
    if op == "mglen":
        o = L["output"]
        mg = L["flow"].MapGroup(o.ToCSV(), _mf(L, STD_MF))
        val = (["d"] * case["ndata"], {"group": [{"name": "p%d" % i} for i in range(case["ngroup"])]})
        try:
            list(mg.run(iter([val])))
        except Exception as e:
            return {"e": exc_name(e)}
        return {"ok": True}
    if op == "render":
        env = _Env()
        try:
            env.set_template("group" if case["group"] is not None else "separate", case["tpl"])
            el = L["output"].RenderLaTeX("t.tex", template_dir=os.path.join(env.base, "tpl"), verbose=2)
            ctx = _ctx_of_out(env, case["out"])
            if case["group"] is not None:
                ctx["group"] = [_ctx_of_out(env, g) for g in case["group"]]
            val = (_data_of(env, case["data"]), ctx)
            res = list(el.run(iter([val])))
            x = _val(env, res[0])
            if res[0] is val:
                x["passed"] = True
            elif isinstance(res[0][0], str):
                x["data"] = {"text": env.dec(res[0][0])}
            return {"vals": [x]}
        except Exception as e:
            return {"e": exc_name(e)}
        finally:
            env.close()
    if op == "render2":
        env = _Env()
        try:
            el = L["output"].RenderLaTeX("t.tex", template_dir=os.path.join(env.base, "tpl"))
            out = []
            for t, m in case["tpls"]:
                env.set_template("separate", t, mtime=m)
                res = list(el.run(iter([("x", {"output": {"filetype": "csv", "filepath": env.abs("out/f.csv")}})])))
                tok = env.dec(res[0][0])
                out.append(tok.get("tex", tok))
            return {"r": out}
        except Exception as e:
            return {"e": exc_name(e)}
        finally:
            env.close()
    if op == "gp":
        vals = [("d%d" % i, ({} if m is None else {"output": {"changed": m}})) for i, m in enumerate(case["ms"])]
        try:
            g = L["flow"].group_plots(vals)
        except Exception as e:
            return {"e": exc_name(e)}
        return {"changed": g[1].get("output", {}).get("changed")}
    if op == "uwg":
        def ctx_of(o):
            d = {k: v for k, v in (o or {}).items() if v is not None}
            return {"output": d} if d else {}
        ctx = ctx_of(case["ctx"])
        new = [ctx_of(o) for o in case["new"]]
        old = ctx_of(case["old"])

        class _Replace(object):
            """a member sequence that gives member i the context new[i]"""
            def run(self, flow):
                for val in flow:
                    yield ("r", copy.deepcopy(new[val[0]]))
        # how a group's context is updated with the contexts of its transformed members, observed through
        # MapGroup.run: every member comes with the context `old` (their intersection is `old`) and leaves with new[i]
        ctx["group"] = [copy.deepcopy(old) for _ in new]
        try:
            res = list(L["flow"].MapGroup(_Replace()).run(iter([(list(range(len(new))), ctx)])))
        except Exception as e:
            return {"e": exc_name(e)}
        if len(res) != 1:
            return {"e": "Other:%d results for one result per member" % len(res)}
        return {"out": {k: res[0][1].get("output", {}).get(k) for k in OUT_KEYS}}
    if op == "latexrun":
        env = _Env()
        try:
            stamps = _world_setup(env, case["world"])
            flow = [(_data_of(env, x["data"]), _ctx_of_out(env, x["out"])) for x in case["vals"]]
            _State.log = []
            _State.sched = {env.abs(x["data"]["path"]): (x.get("rc", 0 if x["ok"] else 1), x["fin"])
                            for x in case["vals"] if "path" in x["data"]}
            el = L["output"].LaTeXToPDF(overwrite=case["overwrite"], verbose=case["verbose"],
                                        create_command=lambda t, o, d, c: ["fakelatex", t, o])
            try:
                res = list(el.run(iter(flow)))
            except Exception as e:
                return {"e": exc_name(e)}
            finally:
                _State.sched = {}
            return {"files": _snapshot(env, stamps), "log": env.take_log(), "vals": [_val(env, v) for v in res],
                    "pool": len(el.processes)}
        finally:
            env.close()
    # stages on a file system
    env = _Env()
    try:
        stamps = _world_setup(env, case["world"])
        val = (_data_of(env, case["data"]), _ctx_of_out(env, case["out"]))
        if case.get("nowrite"):
            val[1].setdefault("output", {})["write"] = False
        if "writer" in case["data"]:
            # Write does not create the directory for an object that writes itself (directories are implicit
            # in the model)
            os.makedirs(env.abs(os.path.join(case["outdir"], (case["out"] or {}).get("dirname") or "")), exist_ok=True)
        _State.log = []
        try:
            if op == "write":
                el = _write(L, env.abs(case["outdir"]), case["mode"])
            elif op == "latex":
                el = L["output"].LaTeXToPDF(overwrite=case["overwrite"], verbose=0,
                                            create_command=lambda t, o, d, c: ["fakelatex", t, o])
            else:
                el = L["output"].PDFToPNG(format=case["format"], overwrite=case["overwrite"], verbose=False)
            with warnings.catch_warnings():
                warnings.simplefilter("ignore")
                res = list(el.run(iter([val])))
        except Exception as e:
            return {"e": exc_name(e)}
        vals = []
        for v in res:
            x = _val(env, v)
            if v is val:
                x["passed"] = True       # the element yielded the very value it received
            vals.append(x)
        return {"files": _snapshot(env, stamps), "log": env.take_log(), "vals": vals}
    finally:
        env.close()


def _parse_csv(text, header):
    """CSV text of a one-dimensional histogram with integer edges and contents -> header line and rows of integers
    (anything else: {"raw": text})"""
    lines = text.split("\n")
    head = None
    if header and lines and lines[0] == header:
        head, lines = header, lines[1:]
    rows = []
    for line in lines:
        m = re.fullmatch(r"(-?\d+)\.000000,(-?\d+)\.000000", line)
        if not m:
            return {"raw": text}
        rows.append([int(m.group(1)), int(m.group(2))])
    return {"header": head, "rows": rows}


def run_impl(case):
    # the real code prints diagnostics of failed commands to stdout
    with open(os.devnull, "w") as null, contextlib.redirect_stdout(null):
        if case["op"] == "hist":
            return _run_hist(case)
        return _run_stage(case)


# ----------------------------------------------------------------------------------------
# model side

def model_requests(case):
    op = case["op"]
    if op == "hist":
        # the logical modification time of the template file = the number of its edits so far
        steps, now, edits = [], None, 0
        for st in case["steps"]:
            if "run" in st:
                r = st["run"]
                if now != (r["layout"], r["tpl"]):
                    now, edits = (r["layout"], r["tpl"]), edits + 1
                st = dict(st, run=dict(r, tplm=edits))
            if case.get("stub") == "proc":
                # real subprocesses cannot be scheduled or interrupted by the harness: a plain run
                st = {k: v for k, v in st.items() if k not in ("interrupt", "late")}
            steps.append(st)
        return [{"op": "hist", "reuse": bool(case.get("reuse")), "watch": [], "steps": steps}]
    if op in ("write", "latex", "png", "latexrun"):
        return [dict(case, watch=sorted(f["p"] for f in case["world"]["files"]))]
    if op == "mf" and case.get("static") is not None and case["name"] is None:
        return [dict(case, name=case["static"])]     # full_context = static context updated with the value's context
    return [case]


def _norm_out(o):
    return None if o is None else {k: o.get(k) for k in OUT_KEYS}


def _norm_val(v):
    g = v.get("group")
    return {"data": "passed unchanged" if v.get("passed") else v["data"], "out": _norm_out(v["out"]),
            "group": None if g is None else [_norm_out(x) for x in g]}


def _mark_passed(case, m):
    """model side of `passed`: the value left the element with the data it came with"""
    for v in m.get("vals", []):
        if v["data"] == case["data"]:
            v["passed"] = True
    return m


def _norm_run(r):
    if "e" in r:
        return {"e": r["e"]}
    files = {p: f for p, f in r["files"].items() if f is not None}
    log = sorted([k, p] for k, p in r["log"] if k != "write")
    vals = sorted((_norm_val(v) for v in r["vals"]), key=jdump)
    return {"files": files, "log": log, "vals": vals}


def compare(case, res, replies):
    m = replies[0]
    if "err" in m:
        return f"model driver error: {m['err']}"
    op = case["op"]
    if op == "hist":
        a = [_norm_run(r) for r in res["runs"]]
        b = [_norm_run(r) for r in m["runs"]]
        if a != b:
            for i, (x, y) in enumerate(itertools.zip_longest(a, b)):
                if x != y:
                    return f"run {i}: impl {jdump(x)[:700]} vs model {jdump(y)[:700]}"
        # the specification side (Model/C19Spec.lean), executed by the driver on the model's worlds, against the
        # same facts evaluated in Python on the real file system: resolved file names (plotUnit, memberNamed,
        # groupTexPath), SourceClosed at the start, UnitFresh at the end; and specRun (sepCore / grpCore on the
        # resolved names) must end in the world of the element-by-element pipeline
        if m.get("history_layer_agrees") is False:
            return "Lean: oexec / exec(freshHistory) (the history layer of the theorems) do not end in the file system of the run-by-run loop"
        facts = []
        hist_failures(case, res, facts)
        for i, (run, mrun) in enumerate(zip(res["runs"], m["runs"])):
            if "e" in run or i >= len(facts):
                continue
            sp = mrun.get("spec")
            if sp is None:
                continue        # an interrupted run has no specification side
            if "e" in sp:
                return f"run {i}: the specification side does not resolve the names: {sp}"
            if sp.get("agrees") is not True:
                return f"run {i}: specRun (names, then sepCore/grpCore) does not end in the world of the pipeline"
            mine = sorted(([f["unit"], f["closed"], f["fresh"]] for f in facts[i]), key=jdump)
            theirs = sorted(([u, c, f] for u, c, f in zip(sp["units"], sp["closed"], sp["fresh"])), key=jdump)
            if mine != theirs and len(facts[i]) == len(sp["units"]):
                return f"run {i}: units/SourceClosed/UnitFresh: real file system {jdump(mine)[:500]} vs Lean {jdump(theirs)[:500]}"
        return None
    if op in ("write", "latex", "png"):
        a, b = _norm_run(res), _norm_run(_mark_passed(case, m))
        return None if a == b else f"impl {jdump(a)[:700]} vs model {jdump(b)[:700]}"
    if op == "mgmulti":
        if "e" in res:
            return f"impl raised {res}"
        a, b = [_norm_out(x) for x in res["outs"]], [_norm_out(x) for x in m["outs"]]
        return None if a == b else f"impl {a} vs model {b}"
    if op == "latexrun":
        if "e" in res or "e" in m:
            return None if res.get("e") == m.get("e") else f"impl {res} vs model {m}"
        if m.get("seq_agrees") is not True:
            return "Lean: latexRun and latexRunSeq (the two sides of latexRun_yields_iff_ok) differ on this flow"
        a, b = _norm_run(res), _norm_run(m)
        a["vals"], b["vals"] = [_norm_val(v) for v in res["vals"]], [_norm_val(v) for v in m["vals"]]   # in yield order
        return None if a == b else f"impl {jdump(a)[:800]} vs model {jdump(b)[:800]}"
    if op == "render":
        if "e" in res:
            return f"impl raised {res}"
        a = [_norm_val(v) for v in res["vals"]]
        b = [_norm_val(v) for v in _mark_passed(case, m)["vals"]]
        return None if a == b else f"impl {jdump(a)[:700]} vs model {jdump(b)[:700]}"
    if op == "mf":
        if "e" in res or "e" in m:
            return None if (res.get("e"), res.get("phase")) == (m.get("e"), m.get("phase")) else f"impl {res} vs model {m}"
        a = {"out": _norm_out(res["out"]), "modified": res["modified"]}
        b = {"out": _norm_out(m["out"]), "modified": m["modified"]}
        # the model represents a missing/empty `output` dictionary by the all-absent vector: `modified` is
        # compared on the context
        return None if a == b else f"impl {a} vs model {b}"
    if op == "uwg":
        if "e" in res:
            return f"impl raised {res}"
        a, b = _norm_out(res["out"]), _norm_out(m["out"])
        return None if a == b else f"impl {a} vs model {b}"
    if op in ("wmf", "wdir"):
        if "e" in res or "e" in m:
            return None if res.get("e") == m.get("e") else f"impl {res} vs model {m}"
        # file name, extension and path as Write.run reports them (the model's first component, the normalised
        # dirname, is an intermediate value that Write does not show)
        a = {"r": res["r"][1:], "dir": res.get("dir")}
        b = {"r": m["r"][1:], "dir": m.get("dir")}
        return None if a == b else f"impl {a} vs model {b}"
    if op == "mfw":
        # model: wMakeFilename outdir "output" (mfCall ...).1 — file name, extension and path of the first run
        if "e" in res or (m.get("phase") == "init"):
            return None if (res.get("e"), res.get("phase")) == (m.get("e"), m.get("phase")) else f"impl {res} vs model {m}"
        r0 = res["runs"][0]
        if "e" in r0 or "e" in m:
            return None if r0.get("e") == m.get("e") else f"impl {r0} vs model {m}"
        if "odd" in r0:
            return f"impl {r0}"
        return None if r0["r"][1:] == m["r"][1:] else f"impl {r0['r'][1:]} vs model {m['r'][1:]}"
    if op == "mfseq":
        if "e" in res or "e" in m:
            return None if (res.get("e"), res.get("phase")) == (m.get("e"), m.get("phase")) else f"impl {res} vs model {m}"
        a = [{"out": _norm_out(x["out"]), "modified": x["modified"]} for x in res["outs"]]
        b = [{"out": _norm_out(x["out"]), "modified": x["modified"]} for x in m["outs"]]
        return None if a == b else f"impl {a} vs model {b}"
    if op == "tocsv":
        if "e" in res:
            return f"impl raised {res}"
        a = [None if x is None else {k: v for k, v in x.items() if k != "filetype"} for x in res["outs"]]
        return None if a == m.get("outs") else f"impl {a} vs model {m}"
    a = {k: v for k, v in res.items() if k != "msg"}
    return None if a == m else f"impl {a} vs model {m}"


# ----------------------------------------------------------------------------------------
# the property's own statement, evaluated on the real code's result

def _join(*parts):
    return os.path.join(*parts)


def _ref_make_filename(args, name, out):
    """Reference for MakeFilename.__call__ written from its documentation: filename/dirname/fileext set only
    if absent (unless overwrite); prefix/suffix accumulate (prefix before, suffix after the existing one)
    unless overwrite; a created file name is prefix + name + suffix and consumes them; a key whose format
    string cannot be filled is not updated."""
    o = {k: v for k, v in (out or {}).items() if v is not None}

    def fill(t):
        if any(p is None for p in t) and name is None:
            return None
        return "".join(name if p is None else p for p in t)
    ow = args["overwrite"]
    for key in ("prefix", "suffix"):
        if args[key] is not None:
            r = fill(args[key])
            if r is None:
                continue
            old = o.get(key)
            if old and not ow:
                r = r + old if key == "prefix" else old + r
            o[key] = r
    if args["filename"] is not None and ("filename" not in o or ow):
        r = fill(args["filename"])
        if r is not None:
            o["filename"] = (o.get("prefix") or "") + r + (o.get("suffix") or "")
            for k in ("prefix", "suffix"):
                if o.get(k):
                    del o[k]
    for key in ("dirname", "fileext"):
        if args[key] is not None and (key not in o or ow):
            r = fill(args[key])
            if r is not None:
                o[key] = r
    return {k: o.get(k) for k in OUT_KEYS}


def _ref_base(cfg, name):
    """output_directory/dirname/filename of a plot called `name` (reference naming rules, defaults of Write)"""
    o = _ref_make_filename(cfg["mf"], name, {"filetype": "csv"})
    return _join(cfg["outdir"], o["dirname"] or "", o["filename"] or "output")


def _ref_group_base(cfg, names):
    """the same for the combined plot of a group: keys common to all members belong to the group as well
    (MapGroup: "common changes of group context update common context"), the rest comes from MakeFilename"""
    outs = [dict(_ref_make_filename(cfg["mf"], n, {"filetype": "csv"})) for n in names]
    if not outs:
        return _join(cfg["outdir"], "nothing")
    for o, n in zip(outs, names):
        o["filename"] = o["filename"] or "output"
    inter = {k: (outs[0][k] if all(o[k] == outs[0][k] for o in outs) else None) for k in ("filename", "dirname")}
    name = names[0] if all(n == names[0] for n in names) else None
    g = _ref_make_filename(cfg["gmf"], name, inter)
    return _join(cfg["outdir"], g["dirname"] or "", g["filename"] or "output")


def _oracle_stage(case, res):
    op = case["op"]
    if op == "mf":
        a = case["args"]
        bad = (a["filename"] is not None and (a["prefix"] is not None or a["suffix"] is not None)) or all(
            a[k] is None for k in ("filename", "dirname", "fileext", "prefix", "suffix"))
        if bad:
            if res.get("e") != "LenaTypeError" or res.get("phase") != "init":
                return f"MakeFilename({a}) must raise LenaTypeError at construction, got {res}"
            return None
        if "e" in res:
            return f"MakeFilename({a}) raised {res}"
        ref = _ref_make_filename(a, case["name"] if case["name"] is not None else case.get("static"), case["out"])
        got = _norm_out(res["out"])
        if got != ref:
            return f"MakeFilename({a}) on name={case['name']!r} output={case['out']}: got {got}, naming rules give {ref}"
        return None
    if op in ("wmf", "wdir") and res.get("odd"):
        # the yielded data, context.output.filepath and the path handed to the object's write method are one path
        return f"Write.run on an object that writes itself, output {case['out']}: {res['odd']}"
    if op == "wmf":
        o = case["out"]
        fn = o.get("filename")
        if fn == "":
            return None if res.get("e") == "LenaRuntimeError" else f"empty filename must raise LenaRuntimeError, got {res}"
        dn = o.get("dirname") or ""
        fe = o.get("fileext")
        if fe is None:
            fe = o.get("filetype") if o.get("filetype") is not None else "txt"
        fn = "output" if fn is None else fn
        if dn.startswith("/") or fn.startswith("/"):
            # absolute names: "dirname is always relative to self.output_directory", a warning is documented.  Stated
            # here: the name is refused (an exception), or the file stays below the output directory at
            # output_directory/dirname/filename.fileext with the leading separator(s) dropped — never elsewhere
            if "e" in res:
                return None
            fp = fn + ("." + fe if fe else "")
            refs = {_join(case["outdir"], dn[1:] if dn.startswith("/") else dn, fp[1:] if fp.startswith("/") else fp),
                    _join(case["outdir"], dn.lstrip("/"), fp.lstrip("/"))}
            if res["r"][3] not in refs:
                return (f"Write (file name for output {o}) in output directory {case['outdir']!r} = {res['r'][1:]}: the file is not "
                        f"below the output directory at {sorted(refs)}")
            return None
        if "e" in res:
            return f"Write (file name for output {o}) raised {res}"
        ref = _join(case["outdir"], dn, fn + ("." + fe if fe else ""))
        if res["r"][3] != ref or res["r"][1] != fn or res["r"][2] != fe:
            return f"Write (file name for output {o}) = {res['r'][1:]}, expected path {ref}"
        return None
    if op == "mfw":
        # "MakeFilename never replaces an existing name unless overwrite is set" + "every file named by a yielded value
        # exists at output_directory/dirname/filename.fileext with exactly the content produced from the current
        # data" + "a run whose inputs are unchanged rewrites no file": names by the documented rules (existence =
        # presence of the key), then Write's documented path
        a = case["args"]
        if "e" in res:
            return f"MakeFilename({a}) raised {res}"
        ref = _ref_make_filename(a, case["name"], case["out"])
        what = f"Sequence(MakeFilename({a}), Write({case['outdir']!r})) on name={case['name']!r} output={case['out']}"
        if ref["filename"] == "":
            bad = [r for r in res["runs"] if r.get("e") != "LenaRuntimeError"]
            return f"{what}: an empty file name must raise LenaRuntimeError, got {bad[0]}" if bad else None
        fe = ref["fileext"]
        if fe is None:
            fe = ref["filetype"] if ref["filetype"] is not None else "txt"
        fn = ref["filename"] if ref["filename"] is not None else "output"
        want = _join(case["outdir"], ref["dirname"] or "", fn + ("." + fe if fe else ""))
        if len(res["runs"]) != 2:
            return f"{what}: {res['runs'][-1]}"
        for k, r in enumerate(res["runs"]):
            if "e" in r or "odd" in r:
                return f"{what}: run {k}: {r}"
            if r["data"] != r["r"][3] or os.path.normpath(r["r"][3] or "") != os.path.normpath(want):
                return (f"{what}: run {k}: the value names {r['data']!r} (context.output.filepath {r['r'][3]!r}), the naming "
                        f"rules give {want!r} (existing names are kept: {ref})")
            nw = os.path.normpath(want)
            if sorted(r["files"]) != [nw] or not r["files"][nw]["ok"]:
                return f"{what}: run {k}: files {r['files']}, expected exactly {nw!r} holding the data"
            if k == 1 and (r["changed"] is True or r["files"][nw]["w"]):
                return f"{what}: second run with unchanged input: output.changed = {r['changed']!r}, files {r['files']}"
        return None
    if op == "winit":
        if case["eu"] and case["ow"]:
            return None if res.get("e") == "LenaValueError" else f"both options must raise LenaValueError, got {res}"
        return None if "e" not in res else f"Write(...) raised {res}"
    if op == "render":
        if "e" in res:
            return f"RenderLaTeX raised {res}"
        v = res["vals"][0]
        if (case["out"] or {}).get("filetype") != "csv":
            return None if v.get("passed") else f"RenderLaTeX changed a value that is not csv: {v}"
        deps = [g.get("filepath") for g in case["group"]] if case["group"] is not None else [case["out"].get("filepath")]
        want = {"tex": case["tpl"], "deps": [p for p in deps if p is not None]}
        if v["data"] != {"text": want} or v["out"]["filetype"] != "tex" or v["out"]["fileext"] != "tex":
            return f"RenderLaTeX: rendered {v['data']} / {v['out']}, the template and context give {want}"
        return None
    if op == "mfseq":
        a = case["args"]
        bad = (a["filename"] is not None and (a["prefix"] is not None or a["suffix"] is not None)) or all(
            a[k] is None for k in ("filename", "dirname", "fileext", "prefix", "suffix"))
        if bad:
            return None if res.get("e") == "LenaTypeError" else f"MakeFilename({a}) must raise LenaTypeError, got {res}"
        if "e" in res:
            return f"MakeFilename({a}) raised {res}"
        # every value is named from its own context and the static context — whatever the same object named before
        for i, (x, r) in enumerate(zip(case["vals"], res["outs"])):
            ref = _ref_make_filename(a, x["name"] if x["name"] is not None else case.get("static"), x["out"])
            if _norm_out(r["out"]) != ref:
                return (f"MakeFilename({a}) with static name {case.get('static')!r}, value {i} of {case['vals']}: got "
                        f"{_norm_out(r['out'])}, the naming rules (its own context, then the static one) give {ref}")
        return None
    if op == "renderflow":
        # every selected (csv) value is rendered from the template it names (context.output.template, else the
        # element's), as that file is now; other values pass unchanged.  (Every edit of the generated cases changes
        # the modification time.)
        for i, (r, got) in enumerate(zip(case["runs"], res["runs"])):
            sel = [x for x in r["flow"] if x["ft"] == "csv"]
            if any(not (x["tpl"] or case["default"]) for x in sel):
                if got.get("e") != "LenaRuntimeError":
                    return f"RenderLaTeX without any template for a value: expected LenaRuntimeError, got {got}"
                return None
            if "e" in got:
                return f"RenderLaTeX raised {got} in run {i}"
            for j, (x, v) in enumerate(zip(r["flow"], got["vals"])):
                if x["ft"] != "csv":
                    if v is not None:
                        return f"RenderLaTeX changed value {j} of run {i}, which is not csv: {v}"
                    continue
                name = x["tpl"] or case["default"]
                want = {"tex": r["dir"][name][0], "deps": [x["path"]]}
                if v != want:
                    return (f"RenderLaTeX run {i}, value {j} (template {name!r}, files {r['dir']}): rendered {v}, "
                            f"its template gives {want}")
        if len(res["runs"]) != len(case["runs"]):
            return f"RenderLaTeX: {len(res['runs'])} runs completed of {len(case['runs'])}"
        return None
    if op == "tocsv":
        if "e" in res:
            return f"ToCSV raised {res}"
        for i, (x, got) in enumerate(zip(case["flow"], res["outs"])):
            if x["to_csv"] is False:
                if got is not None:
                    return f"ToCSV converted value {i} although context.output.to_csv is False"
                continue
            dup = x["ctx_dup"] if x["ctx_dup"] is not None else case["dup"]
            rows = [[e, b] for e, b in zip(x["edges"][:-1], x["bins"])]
            if dup:
                rows.append([x["edges"][-1], x["bins"][-1]])
            want = {"header": case["header"] or None, "rows": rows, "filetype": "csv"}
            if got != want:
                return (f"ToCSV(duplicate_last_bin={case['dup']}, header={case['header']!r}) value {i} "
                        f"(context duplicate_last_bin={x['ctx_dup']!r}, histogram {x['edges']}/{x['bins']}): "
                        f"got {got}, the data and its context give {want}")
        if len(res["outs"]) != len(case["flow"]):
            return f"ToCSV yielded {len(res['outs'])} values for {len(case['flow'])}"
        return None
    if op == "render2":
        if "e" in res:
            return f"RenderLaTeX raised {res}"
        # one RenderLaTeX object, the template file edited between its runs: the rendered text must come from the
        # template that is on disk now.  (An edit that leaves the modification time as it was is not noticed by
        # jinja2 — excluded by assumption: a real edit changes the modification time.)
        coherent, prev = True, None
        for i, ((t, m), r) in enumerate(zip(case["tpls"], res["r"])):
            if prev is not None:
                if m != prev[1]:
                    coherent = True
                elif t != prev[0]:
                    coherent = False
            if coherent and r != t:
                return (f"RenderLaTeX re-used: run {i} rendered template {r} although the template file holds "
                        f"template {t} (states of the file: {case['tpls']})")
            prev = (t, m)
        return None
    if op == "latexrun":
        if "e" in res:
            return None        # a missing .tex file with an existing pdf and no `changed` (getmtime fails)
        files, log = res["files"], res["log"]
        got = [v["data"].get("path") for v in res["vals"]]
        for x in case["vals"]:
            if (x["out"] or {}).get("filetype") != "tex":
                continue
            tex = x["data"]["path"]
            pdf = tex[:-4] + ".pdf" if tex.endswith(".tex") else tex.replace(".tex", ".pdf")
            launched = ["latex", tex] in log
            n = got.count(pdf)
            # every yielded pdf name exists and was produced by a successful conversion in this run (or was skipped
            # as unchanged); a launched conversion is yielded iff its return code is 0 — whatever the verbosity
            # and whenever it terminated
            if launched and not x["ok"] and n:
                return (f"LaTeXToPDF(verbose={case['verbose']}) yielded {pdf} although its conversion failed "
                        f"(return code {x.get('rc', 1)}, seen after {x['fin']} polls); file on disk: {files.get(pdf)}")
            if n and pdf not in files:
                return f"LaTeXToPDF yielded {pdf}, which does not exist"
            if launched and x["ok"] and tex in files and n != 1:
                return f"LaTeXToPDF yielded {pdf} {n} times although its conversion succeeded (seen after {x['fin']} polls)"
            if launched and x["ok"] and tex in files and not files[pdf]["w"]:
                return f"LaTeXToPDF: {pdf} was not written in this run although the command was launched and succeeded"
            if not launched and n != 1:
                return f"LaTeXToPDF skipped {tex} (unchanged) but yielded {pdf} {n} times"
        if res.get("pool"):
            return f"LaTeXToPDF: {res['pool']} processes left in the pool after the run"
        return None
    if op == "wdir":
        # Write(output_directory with {{name}}): the path starts with the directory formatted with the static context
        # (the last one that could be formatted; unformatted as long as none could)
        if "e" in res:
            return f"Write (file name) raised {res}"
        t = case["dir"]
        want = _tpl_str(t)
        if any(p is None for p in t):
            for st in case["statics"]:
                if st is not None:
                    want = "".join(st if p is None else p for p in t)
        o = case["out"]
        fn = o.get("filename") or "output"
        fe = o.get("fileext") if o.get("fileext") is not None else (o.get("filetype") if o.get("filetype") is not None else "txt")
        ref = _join(want, o.get("dirname") or "", fn + ("." + fe if fe else ""))
        if res["r"][3] != ref:
            return f"Write({_tpl_str(t)!r}) after the static contexts {case['statics']}: path {res['r'][3]}, expected {ref}"
        return None
    if op == "seltpl":
        # "select_template ... is the name of the template to be used (unless context.output.template overwrites that)"
        want = case["ctx"] if case["ctx"] is not None else case["default"]
        if want is None:
            return None if res.get("e") == "LenaRuntimeError" else f"RenderLaTeX without any template: expected LenaRuntimeError, got {res}"
        if res.get("tpl") != want:
            return f"RenderLaTeX(default template {case['default']}, context.output.template {case['ctx']}) rendered {res}"
        return None
    if op == "mgmulti":
        if "e" in res:
            return f"MapGroup raised {res}"
        if len(res["outs"]) != len(case["cols"]):
            return f"MapGroup: {len(res['outs'])} results for {len(case['cols'])} results per member"
        for j, (col, out) in enumerate(zip(case["cols"], res["outs"])):
            if any((o or {}).get("changed") is True for o in col) and out["changed"] is not True:
                return (f"MapGroup: result {j} of the group: a member has output.changed=True "
                        f"({[(o or {}).get('changed') for o in col]}) but the group's output.changed is {out['changed']!r}")
        return None
    if op == "mglen":
        if case["ndata"] != case["ngroup"]:
            return None if res.get("e") == "LenaRuntimeError" else f"MapGroup: data of length {case['ndata']} with a group of {case['ngroup']}: expected LenaRuntimeError, got {res}"
        return None if "e" not in res else f"MapGroup raised {res}"
    if op == "gp":
        if "e" in res:
            return f"group_plots raised {res}"
        want = any(bool(m) for m in case["ms"])
        return None if res["changed"] is want else f"group_plots: members changed {case['ms']} -> {res['changed']}, expected {want}"
    if op == "uwg":
        if "e" in res:
            return f"MapGroup (update of the group's context) raised {res}"
        ms = [(o or {}).get("changed") for o in case["new"]]
        if any(m is True for m in ms) and res["out"]["changed"] is not True:
            return (f"MapGroup (update of the group's context): a member has output.changed=True ({ms}) but the group's output.changed is "
                    f"{res['out']['changed']!r}: changed must stay true downstream")
        return None
    if op == "write" and (case["out"] or {}).get("filename") == "" and "many" not in case["data"] and not case.get("nowrite"):
        # "If context.output.filename is present but empty, LenaRuntimeError is raised."
        return None if res.get("e") == "LenaRuntimeError" else f"Write with an empty file name: expected LenaRuntimeError, got {res}"
    if "e" in res:
        # a missing .tex with an existing pdf and no `changed`: getmtime fails (not a property matter)
        return None if op == "latex" else f"{op} raised {res}"
    files, log = res["files"], res["log"]
    pre = {f["p"]: f for f in case["world"]["files"]}
    cin = (case["out"] or {}).get("changed")
    if op == "write":
        d = case["data"]
        v = res["vals"][0]
        path = v["out"]["filepath"]
        if "many" in d or case.get("nowrite"):
            # "If context.output.write is False a value will not be written. Not written values pass unchanged."
            if not v.get("passed") or any(f["w"] for f in files.values()):
                return f"Write: a value that is not to be written did not pass unchanged ({v['data']}, files {files})"
            return None
        if "writer" in d:
            d = {"text": d["writer"]}
        want = d["text"] if "text" in d else {"raw": d["path"]}
        o = case["out"] or {}
        fe = o.get("fileext") if o.get("fileext") is not None else (o.get("filetype") if o.get("filetype") is not None else "txt")
        ref = _join(case["outdir"], o.get("dirname") or "", (o.get("filename") or "output") + ("." + fe if fe else ""))
        if "path" in d and d["path"] == ref:
            # the value names the file itself: it was written by another Write and passes unchanged
            return None if not any(f["w"] for f in files.values()) else "Write rewrote a file it was told was already written"
        if path != ref or v["data"] != {"path": ref} or ref not in files:
            return f"Write: yielded {v['data']} / filepath {path}, expected existing file {ref}"
        cout = v["out"]["changed"]
        old = pre.get(ref)
        mode = case["mode"]
        if "writer" in case["data"]:
            # written by the object's own method: always (re)written, always changed
            if files[ref]["c"] != want or cout is not True:
                return f"Write: an object with a write method: {ref} holds {files[ref]['c']}, output.changed={cout!r}"
            return None
        if True:
            if mode == "eu" and old is not None:
                if files[ref]["c"] != old["c"] or files[ref]["w"]:
                    return "Write(existing_unchanged) touched an existing file"
            elif files[ref]["c"] != want:
                return f"Write: {ref} holds {files[ref]['c']}, the data is {want}"
            if old is not None and mode != "ow" and old["c"] == want and files[ref]["w"]:
                return f"Write rewrote {ref} although its content is unchanged"
        if cin is True and cout is not True:
            return f"Write: incoming output.changed=True became {cout!r}"
        if old is not None and files[ref]["c"] != old["c"] and cout is not True:
            return f"Write: the content of {ref} changed but output.changed is {cout!r}"
        return None
    if op == "latex":
        if (case["out"] or {}).get("filetype") != "tex":
            return None if not log and not any(f["w"] for f in files.values()) else "LaTeXToPDF touched a value that is not tex"
        tex = case["data"]["path"]
        pdf = tex[:-4] + ".pdf" if tex.endswith(".tex") else tex.replace(".tex", ".pdf")
        launched = ["latex", tex] in log
        must = cin is True or pdf not in pre or case["overwrite"]
        must_not = not case["overwrite"] and pdf in pre and cin is False
        if cin is None and pdf in pre and tex in pre and not case["overwrite"]:
            must = pre[tex]["m"] > pre[pdf]["m"]
            must_not = not must
        if must and not launched:
            return f"LaTeXToPDF did not regenerate {pdf} (incoming changed={cin!r}, pdf existed: {pdf in pre})"
        if must_not and launched:
            return f"LaTeXToPDF regenerated {pdf} although nothing changed"
        if res["vals"]:
            cout = res["vals"][0]["out"]["changed"]
            if cout is not launched:
                return f"LaTeXToPDF: launched={launched} but output.changed={cout!r}"
        return None
    if op == "png":
        if (case["out"] or {}).get("filetype") != "pdf":
            return None if not log and not any(f["w"] for f in files.values()) else "PDFToPNG touched a value that is not pdf"
        pdf = case["data"]["path"]
        png = (pdf[:-4] if pdf.endswith(".pdf") else pdf.replace(".pdf", "")) + "." + case["format"]
        launched = ["topng", pdf] in log
        must = cin is True or png not in pre or case["overwrite"]
        if must and not launched:
            return f"PDFToPNG did not regenerate {png} (incoming changed={cin!r})"
        if not must and launched:
            return f"PDFToPNG regenerated {png} although nothing changed"
        cout = res["vals"][0]["out"]["changed"]
        if cout is not launched:
            return f"PDFToPNG: launched={launched} but output.changed={cout!r}"
        return None
    raise ValueError(op)


def _known_class(rs, u, pre, e_csv, e_tex, data_of):
    """The class of the known finding for one unit (Python side of the Lean characterisation): the pdf existed, a
    source file was missing at the start, LaTeXToPDF(overwrite) is off, and no source makes its Write say "changed":
    every source that was on disk is kept (same content, or existing_unchanged) by a Write that does not overwrite.
    Separate layout: exactly one of csv / tex missing (both missing: `changed` stays unset, the modification times
    are compared and the pdf is regenerated — fresh_when_all_sources_missing).  Group: any subset missing
    (grp_stale_when_nothing_rewritten)."""
    if u["pdf"] not in pre or rs["lo"]:
        return False

    def quiet(p, mode, new):
        return p not in pre or (mode != "ow" and (mode == "eu" or pre[p] == new))
    csv_new = {p: {"csv": data_of[p]} for p in u["csvs"]}
    tex_new = {"tex": rs["tpl"], "deps": u["csvs"]}
    missing = [p for p in u["csvs"] + [u["tex"]] if p not in pre]
    if not missing:
        return False
    if not all(quiet(p, rs["w1"], csv_new[p]) for p in u["csvs"]) or not quiet(u["tex"], rs["w2"], tex_new):
        return False
    if u["val"]["group"] is None and len(missing) == len(u["csvs"]) + 1:
        return False
    return True


def _units(rs, run):
    """The plots of a run as units {base, csvs, tex, pdf, png, val}: taken from the yielded values."""
    units = []
    for v in run["vals"]:
        o = v["out"]
        fp = o.get("filepath") or ""
        base = fp[:-4] if fp.endswith(".tex") else fp
        if v["group"] is not None:
            csvs = [g.get("filepath") for g in v["group"]]
        else:
            # the csv file is the one the .tex file names (a later MakeFilename(overwrite=True) may have renamed
            # the value after its csv file was written)
            tex = (run["files"].get(base + ".tex") or {}).get("c") or {}
            csvs = tex["deps"] if isinstance(tex, dict) and len(tex.get("deps", [])) == 1 else [base + ".csv"]
        units.append({"base": base, "csvs": csvs, "tex": base + ".tex", "pdf": base + ".pdf", "png": base + ".png",
                      "val": v})
    return units


def hist_failures(case, res, facts=None):
    """All primary failures of a history: list of (class, text); class 'known' or 'violation'.
    With `facts` (a list) the per-run facts are appended to it: for every unit (plot or group) of the run its
    files, whether the run started SourceClosed for it (every existing pdf has its tex and csv files on disk)
    and whether all its files are fresh afterwards — evaluated on the real file system, independently of Lean."""
    fails = []
    prev = {}          # rel -> token after the previous run
    tainted = set()    # unit bases whose derived artefacts were stale after the previous run
    interrupted_hist = False
    ri = -1
    for st in case["steps"]:
        pre = {p: c for p, c in prev.items() if p not in set(st.get("del", []))}
        if "run" not in st:
            prev = pre
            continue
        ri += 1
        rs = st["run"]
        if ri >= len(res["runs"]):
            break
        run = res["runs"][ri]
        tag = f"run {ri}"
        if "e" in run:
            if not rs["plots"]:
                break      # a group of no plots (MapGroup raises IndexError) is outside the property's 1..3 plots
            fails.append(("violation", f"{tag}: the pipeline raised {run['e']} ({run.get('phase')}) {run.get('msg', '')}"))
            break
        files = {p: f["c"] for p, f in run["files"].items()}
        written = {p for p, f in run["files"].items() if f["w"]}
        log = run["log"]
        nplots = len(rs["plots"])
        want_vals = 1 if rs["layout"] == "group" else nplots
        if st.get("interrupt") and run.get("pool"):
            fails.append(("violation", f"{tag}: after an interrupted run the pool of LaTeXToPDF still holds "
                          f"{run['pool']} processes (they would be yielded by the next run)"))
        names = _names(rs)
        if st.get("interrupt") and any(st.get("late") or []):
            # Ctrl-C is not one of the faults the property quantifies over (it speaks of removed files): a command that
            # had not terminated leaves its pdf without a new image.  Checked here: the pool is empty afterwards (above),
            # and later runs yield one value per plot (no left-over values); the units are exempt from freshness from now on
            interrupted_hist = True
            if facts is not None:
                facts.append([])
            prev = files
            tainted = set()
            continue
        if interrupted_hist:
            if len(run["vals"]) != want_vals:
                fails.append(("violation", f"{tag}: {len(run['vals'])} values yielded for {nplots} plots after an interrupted run"))
            if facts is not None:
                facts.append([])
            prev = files
            continue
        if rs["layout"] != "group" and len(set(names)) < len(names):
            # several plots share one file name: the later plot overwrites the files of the earlier one; the
            # property speaks about plots with files of their own (the theorems' UnitsOK).  Compared with the
            # model only.
            if facts is not None:
                facts.append([])
            prev = files
            tainted = set()
            continue
        if len(run["vals"]) != want_vals:
            fails.append(("violation", f"{tag}: {len(run['vals'])} values yielded for {nplots} plots ({rs['layout']})"))
        units = _units(rs, run)
        data_of = {}
        if rs["layout"] == "group":
            want_csvs = [_ref_base(rs, n) + ".csv" for n in names]
            for u in units:
                if u["csvs"] != want_csvs:
                    fails.append(("violation", f"{tag}: the group names the member files {u['csvs']}, the naming rules give {want_csvs}"))
                for p, pl in zip(u["csvs"], rs["plots"]):
                    data_of[p] = pl["data"]
        else:
            for pl, n in zip(rs["plots"], names):
                data_of[_ref_base(rs, n) + ".csv"] = pl["data"]
        new_tainted = set()
        ow_any = rs["w1"] == "ow" or rs["w2"] == "ow" or rs["lo"] or rs["po"]
        run_facts = []
        if facts is not None:
            facts.append(run_facts)
        for u in units:
            v, o = u["val"], u["val"]["out"]
            fact = {"unit": [u["csvs"], u["tex"], u["pdf"], u["png"]],
                    "closed": u["pdf"] not in pre or (u["tex"] in pre and all(p in pre for p in u["csvs"])),
                    "fresh": False}
            run_facts.append(fact)
            # -- every file named by a yielded value exists at output_directory/dirname/filename.fileext
            where = _join(rs["outdir"], o.get("dirname") or "", o.get("filename") or "")
            if u["base"] != where or v["data"] != {"path": u["png"]}:
                fails.append(("violation", f"{tag}: yielded {v['data']} with output {o}: not output_directory/dirname/filename"))
                continue
            missing = [p for p in u["csvs"] + [u["tex"], u["pdf"], u["png"]] if p not in files]
            if missing:
                fails.append(("violation", f"{tag}: files {missing} named by the yielded value do not exist"))
                continue
            if any(p not in data_of for p in u["csvs"]):
                fails.append(("violation", f"{tag}: csv files {u['csvs']} are not those of the plots {sorted(data_of)}"))
                continue
            # -- sources hold exactly the content produced from the current data / template
            e_csv = {}
            for p in u["csvs"]:
                e_csv[p] = pre[p] if (rs["w1"] == "eu" and p in pre) else {"csv": data_of[p]}
            e_tex = pre[u["tex"]] if (rs["w2"] == "eu" and u["tex"] in pre) else {"tex": rs["tpl"], "deps": u["csvs"]}
            src_bad = False
            for p in u["csvs"]:
                if files[p] != e_csv[p]:
                    fails.append(("violation", f"{tag}: {p} holds {files[p]}, the current data gives {e_csv[p]}"))
                    src_bad = True
            if files[u["tex"]] != e_tex:
                fails.append(("violation", f"{tag}: {u['tex']} holds {files[u['tex']]}, the current template gives {e_tex}"))
                src_bad = True
            # -- unchanged sources are not rewritten
            for p in u["csvs"] + [u["tex"]]:
                mode = rs["w1"] if p in e_csv else rs["w2"]
                e = e_csv.get(p, e_tex)
                if mode != "ow" and p in pre and pre[p] == e and p in written:
                    fails.append(("violation", f"{tag}: {p} was rewritten although its content is unchanged"))
            if src_bad:
                new_tainted.add(u["base"])
                continue
            # -- derived artefacts
            deps = e_tex.get("deps", []) if isinstance(e_tex, dict) else []
            e_pdf = {"pdf": [e_tex, [files.get(p) for p in deps]]}
            srcs = u["csvs"] + [u["tex"]]
            src_missing = [p for p in srcs if p not in pre]
            src_written = [p for p in srcs if p in written]
            latex = ["latex", u["tex"]] in log
            topng = ["topng", u["pdf"]] in log
            stale_pdf = files[u["pdf"]] != e_pdf
            fact["fresh"] = not stale_pdf and files[u["png"]] == {"png": e_pdf}
            if files[u["png"]] != {"png": files[u["pdf"]]}:
                fails.append(("violation", f"{tag}: {u['png']} was not converted from the current {u['pdf']}: "
                              f"{jdump(files[u['png']])[:200]} vs pdf {jdump(files[u['pdf']])[:200]}"))
                new_tainted.add(u["base"])
            elif stale_pdf:
                new_tainted.add(u["base"])
                what = (f"{tag}: {u['pdf']} (and {u['png']}) is stale: rendered from {jdump(files[u['pdf']]['pdf'] if 'pdf' in files[u['pdf']] else files[u['pdf']])[:300]}, "
                        f"current sources give {jdump(e_pdf['pdf'])[:300]}")
                if _known_class(rs, u, pre, e_csv, e_tex, data_of):
                    # the known finding, exactly as characterised in Lean (stale_when_csv_missing,
                    # stale_when_tex_missing, grp_stale_when_nothing_rewritten): a re-created source file does not
                    # set output.changed and nothing else makes the converters run
                    fails.append(("known", what + f"; the run started without {src_missing} while {u['pdf']} existed"))
                elif (u["base"] in tainted and rs["w1"] != "ow" and rs["w2"] != "ow" and not rs["lo"]
                      and not src_missing and u["pdf"] in pre
                      and all(pre[p] == e_csv[p] for p in u["csvs"]) and pre[u["tex"]] == e_tex
                      and files[u["pdf"]] == pre[u["pdf"]]):
                    # the pdf was already stale (reported for an earlier run) and its sources are settled: no Write
                    # says "changed", so the pdf is kept as it is (pdf_kept_when_sources_settled /
                    # grp_stale_when_nothing_rewritten): the finding persists until a source is rewritten or the
                    # pdf is removed
                    pass
                else:
                    fails.append(("violation", what + f"; sources written in this run: {src_written}, missing at start: {src_missing}"))
            # -- nothing unchanged is redone
            if latex and not (rs["lo"] or u["pdf"] not in pre or src_written):
                fails.append(("violation", f"{tag}: LaTeX was launched for {u['tex']} although no source was written and the pdf existed"))
            if topng and not (rs["po"] or u["png"] not in pre or latex):
                fails.append(("violation", f"{tag}: pdftoppm was launched for {u['pdf']} although the pdf was not regenerated and the image existed"))
            if not ow_any and not src_missing and u["pdf"] in pre and u["png"] in pre \
                    and all(pre[p] == e_csv[p] for p in u["csvs"]) and pre[u["tex"]] == e_tex:
                redone = sorted(set(srcs + [u["pdf"], u["png"]]) & written)
                if redone or latex or topng:
                    fails.append(("violation", f"{tag}: inputs unchanged and nothing deleted, but files {redone} were rewritten / "
                                  f"converters launched (latex={latex}, pdftoppm={topng})"))
            # -- output.changed is true whenever a file's content changed, and stays true downstream
            changed_files = [p for p in srcs + [u["pdf"], u["png"]] if p in pre and files[p] != pre[p]]
            if changed_files and o.get("changed") is not True:
                fails.append(("violation", f"{tag}: the content of {changed_files} changed but the yielded output.changed is {o.get('changed')!r}"))
        # no file outside the plots' own files is created, changed or removed
        own = set()
        for u in units:
            own.update(u["csvs"] + [u["tex"], u["pdf"], u["png"]])
        for p in sorted((set(files) | set(pre)) - own):
            if files.get(p) != pre.get(p):
                fails.append(("violation", f"{tag}: {p} does not belong to a plot of this run but was "
                              f"{'created' if p not in pre else 'changed or removed'}"))
        prev = files
        tainted = new_tainted
    return fails


def oracle(case, res):
    if case["op"] != "hist":
        return _oracle_stage(case, res)
    fails = hist_failures(case, res)
    if not fails:
        return None
    viol = [t for c, t in fails if c == "violation"]
    if viol:
        return "; ".join(viol)[:1500]
    if not _report_known(case):
        return None
    return KNOWN_TAG + ": " + "; ".join(t for c, t in fails)[:1200]


def _report_known(case):
    """Failures of the known class are reported (and then matched with known_findings.json) for every case if
    harness.common de-duplicates failures by signature before its cut of 50 reported failures, otherwise only
    for the cases marked `kw` (the corpus witness and the first such cases of a run), so that they cannot
    crowd a failure of another class out of the report.  Unreported ones are counted by classify()."""
    return bool(getattr(common, "DEDUP_FAILING_BY_SIGNATURE", False)) or bool(case.get("kw"))


def signature(case, failure):
    """the known class has one signature; other failures are grouped by the kind of case and of failure (paths,
    numbers and content tokens removed), so that one defect is reported a few times, not fifty"""
    if failure.startswith(KNOWN_TAG):
        return KNOWN_SIG
    kind = case["op"]
    if kind == "hist":
        r = [st["run"] for st in case["steps"] if "run" in st][0]
        kind = f"hist:{r['layout']}"
    text = failure.split(";")[0]
    text = re.sub(r"[\[{(].*?[\]})]", "", text)
    text = re.sub(r"\S*/\S+", "", text)
    text = re.sub(r"\d+", "N", text)
    return kind + ":" + " ".join(text.split())[:100]


def nontrivial(case, res):
    if case["op"] == "hist":
        return len(res["runs"]) >= 2 and all("e" not in r for r in res["runs"])
    # stage cases: something was written, launched, renamed or refused
    if "e" in res:
        return True
    if "files" in res:
        return any(f["w"] for f in res["files"].values()) or bool(res.get("log"))
    return case["op"] in ("mf", "wmf", "wdir", "uwg", "mgmulti", "render", "render2", "seltpl", "mfseq", "renderflow",
                          "tocsv", "mfw") and bool(res)


def classify(case, res):
    op = case["op"]
    if op != "hist":
        return ["stage:" + op + (":error" if "e" in res else "")]
    labels = []
    runs = [st["run"] for st in case["steps"] if "run" in st]
    labels.append(f"hist:{runs[0]['layout']}:plots={len(runs[-1]['plots'])}:runs={len(runs)}")
    labels.append("stub:" + case.get("stub", "fake") + (", default pdflatex command" if case.get("pdflatex") else ""))
    if any(st.get("interrupt") for st in case["steps"]):
        labels.append("KeyboardInterrupt during a run")
    if any(st.get("rmdir") for st in case["steps"]):
        labels.append("output directory removed")
    labels.append("pipeline objects:" + ("one object re-used for all runs" if case.get("reuse") else "new for every run"))
    labels.append("output directory:" + ("relative" if case.get("relative") else "absolute"))
    if any(r.get("static") is not None for r in runs):
        labels.append("Sequence with a static context")
    if any(pl["name"] is None for r in runs for pl in r["plots"]):
        labels.append("plots without a name")
    if any(pl["data"] >= 10 for r in runs for pl in r["plots"]):
        labels.append("context.output.duplicate_last_bin=False")
    for r in runs[1:]:
        labels.append(f"write modes (csv/tex):{r['w1']}/{r['w2']}")
        labels.append(f"converter overwrite (latex/png):{int(r['lo'])}/{int(r['po'])}")
        if r["mf"] != STD_MF or r["gmf"] != STD_GMF:
            labels.append("non-standard file names")
    fails = hist_failures(case, res)
    if any(c == "known" for c, _ in fails):
        labels.append("known-class-stale" + ("" if _report_known(case) else "(counted, not reported)"))
    nl = sum(1 for r in res["runs"] if "e" not in r for k, _ in r["log"] if k == "latex")
    labels.append("latex-launches=" + (str(nl) if nl < 4 else "4+"))
    return labels


# ----------------------------------------------------------------------------------------
# case generation

def _cfg(w1="normal", w2="normal", lo=False, po=False, mf=None, gmf=None):
    return {"outdir": OUT, "w1": w1, "w2": w2, "lo": lo, "po": po, "mf": mf or STD_MF, "gmf": gmf or STD_GMF}


def _run_step(cfg, layout, tpl, datas, dels=(), names=None):
    names = names or ["p%d" % i for i in range(len(datas))]
    plots = [{"name": n, "data": d} for n, d in zip(names, datas)]
    st = {"run": dict(cfg, layout=layout, tpl=tpl, plots=plots)}
    if dels:
        st["del"] = list(dels)
    return st


def _unit_files(layout, n, cfg=None):
    """the files of a history with n plots p0, p1, ...: per plot csv, tex, pdf, png (separate layout), or the csv
    files followed by the combined tex, pdf, png (group layout)"""
    cfg = cfg or _cfg()
    names = ["p%d" % i for i in range(n)]
    if layout == "group":
        base = _ref_group_base(cfg, names)
        return [_ref_base(cfg, x) + ".csv" for x in names] + [f"{base}.{k}" for k in ("tex", "pdf", "png")]
    return [f"{_ref_base(cfg, x)}.{k}" for x in names for k in KINDS]


def _subsets(xs):
    for r in range(len(xs) + 1):
        for c in itertools.combinations(xs, r):
            yield list(c)


def _alphabet(layout, n, cfgs):
    """all steps: keep/change the data of every plot x keep/change the template x delete any subset x option settings"""
    files = _unit_files(layout, n)
    for datas in itertools.product((1, 2), repeat=n):
        for tpl in (1, 2):
            for dels in _subsets(files):
                for cfg in cfgs:
                    yield _run_step(cfg, layout, tpl, list(datas), dels)


ALL_CFGS = [_cfg(w1, w2, lo, po) for w1 in ("normal", "eu", "ow") for w2 in ("normal", "eu", "ow")
            for lo in (False, True) for po in (False, True)]


def _source_closed(case):
    """no run of the history starts with a missing source while the pdf exists (standard names): such
    histories cannot show the known finding"""
    present = set()
    for st in case["steps"]:
        present -= set(st.get("del", []))
        if "run" in st:
            r = st["run"]
            n = len(r["plots"])
            fs = _unit_files(r["layout"], n, r)
            if r["layout"] == "group":
                srcs, pdf = fs[:n + 1], fs[n + 1]
                if pdf in present and any(s not in present for s in srcs):
                    return False
            else:
                for i in range(n):
                    c, t, p, _ = fs[4 * i:4 * i + 4]
                    if p in present and (c not in present or t not in present):
                        return False
            present |= set(fs)
    return True


def _stage_cases():
    cases = []
    # MakeFilename
    tpls = [None, ["f"], [None], ["a_", None]]
    outs = [{}, {"filename": "old"}, {"prefix": "P_"}, {"suffix": "_S"}, {"prefix": "P_", "suffix": "_S"},
            {"filename": "old", "prefix": "P_"}, {"prefix": ""}, {"dirname": "d0", "fileext": "e0"},
            {"filename": "old", "dirname": "d0", "fileext": "e0", "prefix": "P_", "suffix": "_S"},
            # names that exist and are EMPTY strings (seed round K): "" is a legitimate fileext (a file without
            # extension, Write: `if fileext:`), dirname (directly in the output directory), prefix / suffix (nothing
            # to add); an empty file name exists too (Write refuses it later) — existence is presence of the key,
            # not truth of the value
            {"fileext": ""}, {"dirname": ""}, {"filename": ""}, {"suffix": ""},
            {"filename": "Makefile", "dirname": "", "fileext": ""}, {"dirname": "", "fileext": "e0"},
            {"dirname": "d0", "fileext": "", "prefix": "", "suffix": "_S"},
            {"filename": "", "dirname": "", "fileext": "", "prefix": "", "suffix": ""}]
    for fn in tpls:
        for pre in (None, ["x_"], [None, "-"]):
            for suf in (None, ["_y"]):
                for dn in (None, ["d"], ["d/", None]):
                    for fe in (None, ["pdf"]):
                        for ow in (False, True):
                            args = {"filename": fn, "dirname": dn, "fileext": fe, "prefix": pre, "suffix": suf,
                                    "overwrite": ow}
                            invalid = (fn is not None and (pre is not None or suf is not None)) or \
                                all(x is None for x in (fn, pre, suf, dn, fe))
                            for name in (None, "n"):
                                for o in (outs[:1] if invalid else outs):
                                    cases.append({"op": "mf", "args": args, "name": name, "out": o})
    # a value with existing — possibly EMPTY — names through Sequence(MakeFilename, Write), two runs: the file is where the
    # existing names say (seed round K)
    mfw_args = [dict(STD_MF), dict(STD_MF, filename=["f"], dirname=["d"], fileext=["csv"]),
                dict(STD_MF, filename=["f"], dirname=["d"], fileext=["csv"], overwrite=True),
                dict(STD_MF, filename=None, dirname=["d/", None], fileext=["csv"]),
                dict(STD_MF, filename=None, prefix=["x_"], fileext=[""])]
    for args in mfw_args:
        for name in (None, "n"):
            for fn in (None, "old", ""):
                for dn in (None, "", "d0"):
                    for fe in (None, "", "e0"):
                        for ft in (None, "csv"):
                            for pre in (None, "", "P_"):
                                if pre == "" and ft is None:
                                    continue
                                cases.append({"op": "mfw", "args": args, "name": name, "outdir": OUT,
                                              "reuse": bool(len(cases) % 2),
                                              "out": {"filename": fn, "dirname": dn, "fileext": fe, "filetype": ft,
                                                      "prefix": pre}})
    # the file name Write gives a value (observed through Write.run)
    for outdir in ("out", "", "out/", "a/b"):
        for fn in (None, "", "f", "d/f", "/f", "/d/f", "//f"):
            for fe in (None, "", "e"):
                for ft in (None, "t"):
                    for dn in (None, "", "d", "d/e", "/d", "//d"):
                        cases.append({"op": "wmf", "outdir": outdir,
                                      "out": {"filename": fn, "fileext": fe, "filetype": ft, "dirname": dn}})
    for eu in (False, True):
        for ow in (False, True):
            cases.append({"op": "winit", "eu": eu, "ow": ow})
    # Write.run on one value
    A, B = {"csv": 1}, {"csv": 2}
    for mode in ("normal", "eu", "ow"):
        for exists in (None, A, B, {"raw": "other"}):
            for cin in (None, True, False):
                for dn in (None, "d"):
                    for data in ({"text": A}, {"path": f"{OUT}/{'d/' if dn else ''}f.csv"}, {"path": "elsewhere/f.csv"},
                                 {"writer": A}, {"many": ["x", "y"]}):
                        path = f"{OUT}/{'d/' if dn else ''}f.csv"
                        world = {"files": [] if exists is None else [{"p": path, "c": exists, "m": 5}], "clock": 9}
                        for nowrite in (False, True):
                            if nowrite and dn:
                                continue
                            cases.append({"op": "write", "outdir": OUT, "mode": mode, "world": world, "data": data,
                                          "nowrite": nowrite,
                                          "out": {"filename": "f", "filetype": "csv", "dirname": dn, "changed": cin}})
    for data in ({"text": A}, {"writer": A}, {"many": ["x"]}):
        for nowrite in (False, True):
            cases.append({"op": "write", "outdir": OUT, "mode": "normal", "world": {"files": [], "clock": 9}, "data": data,
                          "nowrite": nowrite, "out": {"filename": "", "filetype": "csv", "dirname": None, "changed": None}})
    # LaTeXToPDF.run on one value
    T = {"tex": 1, "deps": [f"{OUT}/f.csv"]}
    P = {"pdf": [T, [B]]}
    for ow in (False, True):
        for cin in (None, True, False):
            for tex_m in (None, 3, 5, 7):
                for pdf_m in (None, 5):
                    for csv in (None, A):
                        for ft in ("tex", "csv"):
                            fs = []
                            if csv is not None:
                                fs.append({"p": f"{OUT}/f.csv", "c": csv, "m": 1})
                            if tex_m is not None:
                                fs.append({"p": f"{OUT}/f.tex", "c": T, "m": tex_m})
                            if pdf_m is not None:
                                fs.append({"p": f"{OUT}/f.pdf", "c": P, "m": pdf_m})
                            cases.append({"op": "latex", "overwrite": ow, "world": {"files": fs, "clock": 9},
                                          "data": {"path": f"{OUT}/f.tex"},
                                          "out": {"filetype": ft, "fileext": "tex", "filename": "f", "changed": cin}})
    # file names with ".tex" / ".pdf" inside, and names that do not end with the extension
    # (a name that does not end with ".tex" in a directory with ".tex" inside still gets the old replacement and a
    # directory that does not exist; RenderLaTeX always gives the extension "tex", so this is not generated)
    for tex in (f"{OUT}/a.tex.d/f.tex", f"{OUT}/x.tex_f.tex", f"{OUT}/f.tex.bak"):
        for cin in (None, True, False):
            for pdf_there in (False, True):
                ref = tex[:-4] + ".pdf" if tex.endswith(".tex") else tex.replace(".tex", ".pdf")
                fs = [{"p": tex, "c": {"tex": 1, "deps": []}, "m": 3}]
                if pdf_there:
                    fs.append({"p": ref, "c": {"pdf": [{"tex": 1, "deps": []}, []]}, "m": 5})
                cases.append({"op": "latex", "overwrite": False, "world": {"files": fs, "clock": 9},
                              "data": {"path": tex}, "out": {"filetype": "tex", "changed": cin}})
    for pdf in (f"{OUT}/a.pdf.d/f.pdf", f"{OUT}/x.pdf_f.pdf", f"{OUT}/f.pdf.bak"):
        for cin in (None, True):
            cases.append({"op": "png", "overwrite": False, "format": "png",
                          "world": {"files": [{"p": pdf, "c": {"pdf": [{"tex": 1, "deps": []}, []]}, "m": 2}], "clock": 9},
                          "data": {"path": pdf}, "out": {"filetype": "pdf", "changed": cin}})
    # LaTeXToPDF.run on a flow of several values: per launch the command succeeds or fails (return code 1, nothing
    # written) and is seen terminated after 0, 1 or "many" polls (while values are still coming, or only in the
    # final wait); verbose 0, 1, 2; some pdfs exist already (skipped or stale)
    def tex_of(i):
        return {"tex": 1, "deps": [f"{OUT}/q{i}.csv"]}
    for n in (2, 3):
        for oks in itertools.product((True, False), repeat=n):
            for fins in itertools.product((0, 1, 9), repeat=n):
                if n == 3 and (all(oks) or fins.count(9) == 3) and fins != (0, 0, 0):
                    continue
                for verbose in (0, 1, 2):
                    for pre in ("none", "old pdfs"):
                        if n == 3 and pre == "old pdfs" and verbose == 2:
                            continue
                        fs, vals = [], []
                        for i in range(n):
                            fs.append({"p": f"{OUT}/q{i}.tex", "c": tex_of(i), "m": 3})
                            if pre == "old pdfs" and i % 2 == 0:
                                fs.append({"p": f"{OUT}/q{i}.pdf", "c": {"pdf": [{"tex": 2, "deps": []}, []]}, "m": 2})
                            # a failing command: error exit (1), command not found (127), killed by a signal (-9, -15)
                            rc = 0 if oks[i] else (1, -9, 127, -15)[(i + fins[i] + verbose + len(cases)) % 4]
                            vals.append({"data": {"path": f"{OUT}/q{i}.tex"}, "ok": oks[i], "rc": rc, "fin": fins[i],
                                         "out": {"filetype": "tex", "fileext": "tex", "filename": "q%d" % i,
                                                 "changed": True if i != 1 else (False if pre == "old pdfs" else None)}})
                        cases.append({"op": "latexrun", "overwrite": False, "verbose": verbose,
                                      "world": {"files": fs, "clock": 9}, "vals": vals})
    # PDFToPNG.run on one value
    G = {"png": {"pdf": [T, [A]]}}
    for ow in (False, True):
        for cin in (None, True, False):
            for pdf in (None, P):
                for png in (None, G):
                    for fmt in ("png", "jpeg"):
                        for ft in ("pdf", "tex"):
                            fs = []
                            if pdf is not None:
                                fs.append({"p": f"{OUT}/f.pdf", "c": pdf, "m": 2})
                            if png is not None:
                                fs.append({"p": f"{OUT}/f.{fmt}", "c": png, "m": 3})
                            cases.append({"op": "png", "overwrite": ow, "format": fmt, "world": {"files": fs, "clock": 9},
                                          "data": {"path": f"{OUT}/f.pdf"},
                                          "out": {"filetype": ft, "fileext": "tex", "filename": "f", "changed": cin}})
    # RenderLaTeX.run on one value: selected (csv) values are rendered, all others pass unchanged
    for ft in ("csv", "tex", "pdf", None):
        for grp in (None, [{"filepath": f"{OUT}/a.csv"}, {"filepath": f"{OUT}/b.csv"}], [{"filepath": f"{OUT}/a.csv"}]):
            for tpl in (1, 2):
                for cin in (None, True):
                    cases.append({"op": "render", "tpl": tpl, "data": {"path": f"{OUT}/f.csv"}, "group": grp,
                                  "out": {"filetype": ft, "filepath": f"{OUT}/f.csv", "filename": "f", "changed": cin}})
    # MakeFilename with a static context
    for fn in ([None], ["a_", None]):
        for name in (None, "n"):
            for static in ("s", None):
                for o in ({}, {"filename": "old"}):
                    cases.append({"op": "mf", "args": dict(STD_MF, filename=fn), "name": name, "static": static, "out": o})
    # one RenderLaTeX object, the template file in a sequence of states (content, modification time)
    states = [(t, m) for t in (1, 2) for m in (1, 2, 3)]
    for n in (2, 3):
        for seq in itertools.product(states, repeat=n):
            cases.append({"op": "render2", "tpls": [list(x) for x in seq]})
    # a value without any `output` context (Write creates it): default file name, no other key appears
    for data in ({"text": A}, {"writer": A}):
        for mode in ("normal", "eu", "ow"):
            for exists in (None, A, B):
                world = {"files": [] if exists is None else [{"p": f"{OUT}/output.txt", "c": exists, "m": 5}], "clock": 9}
                for out in ({}, {"changed": True}):
                    cases.append({"op": "write", "outdir": OUT, "mode": mode, "world": world, "data": data,
                                  "nowrite": False, "out": out})
    # Write with a formatted output directory and static contexts set one after the other
    for d in (["out"], ["out/", None], [None, "/x"], ["a_", None, "_b"]):
        for statics in ([], [None], ["s"], ["s", "t"], ["s", None], [None, "t"]):
            for out in ({"filename": "f", "filetype": "csv"}, {}, {"filename": "f", "dirname": "d", "fileext": "e"}):
                cases.append({"op": "wdir", "dir": d, "statics": statics, "out": out})
    # RenderLaTeX: the template of the element and context.output.template
    for c in (None, 1, 2):
        for d in (None, 1, 2):
            cases.append({"op": "seltpl", "ctx": c, "default": d})
    # MapGroup with a member sequence that gives several results per member
    tri = (None, True, False)
    for k in (1, 2, 3):
        for n in (1, 2):
            for flags in itertools.product(tri, repeat=min(k * n, 4)):
                fl = list(flags) + [None] * (k * n - len(flags))
                cols = [[{"changed": fl[j * n + i], "filetype": "csv", "filename": "m%d" % i} for i in range(n)]
                        for j in range(k)]
                for c in tri:
                    cases.append({"op": "mgmulti", "ctx": {"changed": c}, "cols": cols, "old": {}})
    # MapGroup: the data list and context.group must have the same length
    for a in range(0, 3):
        for b in range(0, 3):
            if (a, b) != (0, 0):
                cases.append({"op": "mglen", "ndata": a, "ngroup": b})
    # group_plots / MapGroup's update of the group context
    for n in range(1, 4):
        for ms in itertools.product(tri, repeat=n):
            cases.append({"op": "gp", "ms": list(ms)})
    for n in range(1, 4):
        for ms in itertools.product(tri, repeat=n):
            for c in tri:
                for oldc in (None, True, False) if n < 3 else (None,):
                    for same_name in (False, True):
                        new = [{"changed": m, "filetype": "csv", "fileext": "csv",
                                "filename": "p" if same_name else "p%d" % i,
                                "filepath": "out/p.csv" if same_name else "out/p%d.csv" % i} for i, m in enumerate(ms)]
                        cases.append({"op": "uwg", "ctx": {"changed": c}, "new": new,
                                      "old": {"changed": oldc, "filetype": "csv" if oldc else None}})
    # ONE MakeFilename object names several values, with and without a static context (a Sequence with SetContext)
    seq_vals = [{"name": None, "out": {}}, {"name": "n", "out": {}}, {"name": "m", "out": {}},
                {"name": None, "out": {"filename": "old"}}, {"name": "n", "out": {"prefix": "P_"}},
                {"name": "n", "out": {"filename": "Makefile", "dirname": "", "fileext": ""}}]
    seq_args = [dict(STD_MF), dict(STD_MF, filename=["a_", None]), dict(STD_MF, filename=None, prefix=[None, "-"]),
                dict(STD_MF, dirname=["d/", None]), dict(STD_MF, overwrite=True),
                dict(STD_MF, filename=None, suffix=["_", None], fileext=["e"]),
                dict(STD_MF, filename=["f"], dirname=["d"], fileext=["csv"])]
    for args in seq_args:
        for static, static_set in ((None, False), (None, True), ("s", True)):
            for n in (2, 3):
                for vs in itertools.product(seq_vals, repeat=n):
                    if n == 3 and (vs[0] is vs[1] or vs[1] is vs[2]):
                        continue
                    cases.append({"op": "mfseq", "args": args, "static": static, "static_set": static_set,
                                  "vals": [dict(v) for v in vs]})
    # ONE RenderLaTeX object on flows of values that select their templates one by one; a second run after edits
    # of the template files (every edit changes the modification time)
    rvals = [{"ft": "csv", "tpl": None}, {"ft": "csv", "tpl": "alt.tex"}, {"ft": "csv", "tpl": "t.tex"},
             {"ft": "csv", "tpl": ""}, {"ft": "tex", "tpl": None}, {"ft": None, "tpl": "alt.tex"}]
    dir1 = {"t.tex": [1, 1], "alt.tex": [2, 1]}
    dirs2 = [dir1, {"t.tex": [3, 2], "alt.tex": [2, 1]}, {"t.tex": [1, 1], "alt.tex": [4, 2]}, {"t.tex": [2, 2], "alt.tex": [1, 2]}]

    def rflow(vs):
        return [dict(v, path=f"{OUT}/f{i}.csv") for i, v in enumerate(vs)]
    for default in ("t.tex", ""):
        for n in (1, 2, 3):
            for vs in itertools.product(rvals, repeat=n):
                if n == 3 and default == "" and vs[0]["tpl"] is None:
                    continue
                cases.append({"op": "renderflow", "default": default, "runs": [{"dir": dir1, "flow": rflow(vs)}]})
    for d2 in dirs2:
        for vs1 in itertools.product(rvals[:3], repeat=2):
            for vs2 in itertools.product(rvals[:3], repeat=2):
                cases.append({"op": "renderflow", "default": "t.tex",
                              "runs": [{"dir": dir1, "flow": rflow(vs1)}, {"dir": d2, "flow": rflow(vs2)}]})
    # ONE ToCSV object on flows of one-dimensional histograms: the element's duplicate_last_bin and header, the
    # value's context.output.duplicate_last_bin (absent, True, False) and context.output.to_csv
    hists = [([0, 1, 2], [5, 7]), ([0, 2], [3]), ([-1, 0, 1, 3], [0, -2, 9])]
    cvals = [{"to_csv": tc, "ctx_dup": cd, "edges": e, "bins": b}
             for tc in (None, False, True) for cd in (None, True, False) for e, b in hists]
    for dup in (True, False):
        for header in (None, "x,y", ""):
            for v in cvals:
                cases.append({"op": "tocsv", "dup": dup, "header": header, "flow": [v]})
        pair = [v for v in cvals if v["to_csv"] is not True and v["edges"] != [0, 2]]
        for v1 in pair:
            for v2 in pair:
                cases.append({"op": "tocsv", "dup": dup, "header": None, "flow": [v1, v2]})
    return cases


def _mark_known_witnesses(cases, limit=25):
    """mark the first `limit` histories that can show the known finding (see _report_known)"""
    k = 0
    for c in cases:
        if c["op"] == "hist" and k < limit and not _source_closed(c):
            c["kw"] = True
            k += 1


def _reusable(case):
    """all runs of the history can be served by one pipeline object: same options, layout and file names"""
    runs = [st["run"] for st in case["steps"] if "run" in st]
    key = lambda r: jdump({k: r.get(k) for k in ("outdir", "w1", "w2", "lo", "po", "mf", "gmf", "layout", "static")})
    return len(runs) >= 2 and all(key(r) == key(runs[0]) for r in runs)


def _random_history(rng, max_runs=4, max_plots=3, const_cfg=False):
    layout = rng.choice(["separate", "separate", "group"])
    n = rng.randint(1, max_plots)
    files = _unit_files(layout, n)
    steps = []
    datas = [1] * n
    tpl = 1
    dupctx = rng.random() < 0.25
    for i in range(rng.randint(2, max_runs)):
        datas = [d if rng.random() < 0.55 else 3 - d % 10 for d in datas]
        if dupctx:
            # the option context.output.duplicate_last_bin = False comes and goes (data ids 1x)
            datas = [d % 10 + (10 if rng.random() < 0.3 else 0) for d in datas]
        tpl = tpl if rng.random() < 0.6 else 3 - tpl
        dels = [] if i == 0 else [f for f in files if rng.random() < rng.choice([0.0, 0.15, 0.4])]
        r = rng.random()
        if i == 0 or not const_cfg:
            cfg = _cfg() if r < 0.5 else rng.choice(ALL_CFGS)
        steps.append(_run_step(cfg, layout, tpl, list(datas), dels))
    return {"op": "hist", "steps": steps}


def _base_histories(ctx):
    """the histories of a tier (lazily), each with new pipeline objects for every run"""
    rng = ctx.rng
    thorough = ctx.tier == "thorough"
    std = [_cfg()]
    first = _run_step(_cfg(), "separate", 1, [1])
    # E: one plot, the whole 64-step alphabet after a first run (standard options) ...
    alpha1 = list(_alphabet("separate", 1, std))
    for st in alpha1:
        yield {"op": "hist", "steps": [first, st]}
    # ... and with every option setting (quick: every third step of each setting's alphabet)
    for i, cfg in enumerate(ALL_CFGS[1:]):
        for j, st in enumerate(_alphabet("separate", 1, [cfg])):
            if thorough or (i + j) % 3 == 0:
                yield {"op": "hist", "steps": [first, st]}
    # E: a group of two plots, the whole alphabet (256 steps) after a first run
    gfirst = _run_step(_cfg(), "group", 1, [1, 1])
    galpha = list(_alphabet("group", 2, std))
    for st in galpha:
        yield {"op": "hist", "steps": [gfirst, st]}
    # a group of one and of three plots, two and three separate plots: data/template changes, single deletions
    for layout, n in (("group", 1), ("group", 3), ("separate", 2), ("separate", 3)):
        f0 = _run_step(_cfg(), layout, 1, [1] * n)
        files = _unit_files(layout, n)
        for datas in itertools.product((1, 2), repeat=n):
            for tpl in (1, 2):
                for dels in [[]] + [[f] for f in files]:
                    yield {"op": "hist", "steps": [f0, _run_step(_cfg(), layout, tpl, list(datas), dels)]}
    # no plots at all (outside the property; the model's branches are compared)
    yield {"op": "hist", "steps": [_run_step(_cfg(), "group", 1, []), _run_step(_cfg(), "separate", 1, [])]}
    yield {"op": "hist", "steps": [_run_step(_cfg(), "separate", 1, []), _run_step(_cfg(), "separate", 1, [1])]}
    # other file names: sub-directories, literal parts, a default file name, a named group in a directory
    variants = [
        ("separate", 2, _cfg(mf=dict(STD_MF, dirname=["sub"]))),
        ("separate", 2, _cfg(mf=dict(STD_MF, filename=["plot_", None], dirname=["d_", None]))),
        ("separate", 1, _cfg(mf=dict(STD_MF, filename=None, dirname=["only_dir"]))),
        ("separate", 1, _cfg(mf=dict(STD_MF, filename=None, prefix=["pre_"]))),
        ("group", 2, _cfg(mf=dict(STD_MF, dirname=["sub"]), gmf=dict(STD_GMF, filename=["all"], dirname=["g"]))),
        ("group", 2, _cfg(gmf=dict(STD_GMF, filename=["all_", None], dirname=["g"]))),
        ("group", 1, _cfg(gmf=dict(STD_GMF, dirname=["g"]))),
    ]
    for layout, n, cfg in variants:
        f0 = _run_step(cfg, layout, 1, [1] * n)
        files = _unit_files(layout, n, cfg)
        for datas in itertools.product((1, 2), repeat=n):
            for tpl in (1, 2):
                for dels in [[], files[:1], files[-3:-2], files[-2:-1], files[-1:], files[:1] + files[-2:-1]]:
                    yield {"op": "hist", "steps": [f0, _run_step(cfg, layout, tpl, list(datas), dels)]}
    # plain values through the group pipeline (MapGroup maps its sequence to scalars)
    for n in (1, 2):
        f0 = _run_step(_cfg(), "scalars", 1, [1] * n)
        files = _unit_files("separate", n)
        for datas in itertools.product((1, 2), repeat=n):
            for tpl in (1, 2):
                for dels in [[]] + [[f] for f in files] + [files[:2]]:
                    yield {"op": "hist", "steps": [f0, _run_step(_cfg(), "scalars", tpl, list(datas), dels)]}
    # several plots sharing one file name (outside the property: compared with the model only)
    for datas in ([1, 1], [1, 2], [2, 1]):
        for tpl in (1, 2):
            f0 = _run_step(_cfg(), "separate", 1, [1, 2], names=["p0", "p0"])
            yield {"op": "hist", "steps": [f0, _run_step(_cfg(), "separate", tpl, datas, names=["p0", "p0"])]}
    # the output directory itself is removed between the runs
    for layout, n in (("separate", 1), ("separate", 2), ("group", 2)):
        files = _unit_files(layout, n)
        for datas in itertools.product((1, 2), repeat=n):
            for tpl in (1, 2):
                st = _run_step(_cfg(), layout, tpl, list(datas), files)
                st["rmdir"] = True
                yield {"op": "hist", "steps": [_run_step(_cfg(), layout, 1, [1] * n), st,
                                               _run_step(_cfg(), layout, tpl, list(datas))]}
    # Ctrl-C while LaTeXToPDF waits for its commands, then the same pipeline object is used again
    for layout, n in (("separate", 1), ("separate", 2), ("group", 2)):
        files = _unit_files(layout, n)
        for datas in itertools.product((1, 2), repeat=n):
            for dels in ([], files[-2:-1], files[:1]):
                for late in itertools.product((False, True), repeat=1 if layout == "group" else n):
                    st = _run_step(_cfg(), layout, 1, list(datas), dels)
                    st["interrupt"] = True
                    st["late"] = list(late)      # commands that have not terminated when Ctrl-C arrives
                    for reuse in (False, True):
                        yield {"op": "hist", "reuse": reuse,
                               "steps": [_run_step(_cfg(), layout, 1, [1] * n), st,
                                         _run_step(_cfg(), layout, 2, list(datas))]}
    # MakeFilename(overwrite=True): the group's MakeFilename replaces what the members have in common
    ow_variants = [
        ("separate", 2, _cfg(mf=dict(STD_MF, overwrite=True))),
        ("group", 1, _cfg(gmf=dict(STD_GMF, overwrite=True))),
        ("group", 2, _cfg(mf=dict(STD_MF, dirname=["sub"]), gmf=dict(STD_GMF, dirname=["g"], overwrite=True))),
        ("scalars", 2, _cfg(gmf=dict(STD_GMF, filename=["x_", None], overwrite=True))),
    ]
    for layout, n, cfg in ow_variants:
        f0 = _run_step(cfg, layout, 1, [1] * n)
        for datas in itertools.product((1, 2), repeat=n):
            for tpl in (1, 2):
                yield {"op": "hist", "steps": [f0, _run_step(cfg, layout, tpl, list(datas))]}
    # plots without a name of their own, with and without a static context of the Sequence (SetContext): an unnamed
    # plot is named from the static context, else by Write's default — never from the plot before it
    for names, static in ((["p0", None], None), (["p0", None], "s"), ([None], "s"), ([None, "p1"], "s"),
                          (["p0", None, "p2"], "s")):
        cfg = dict(_cfg(), static=static)
        eff = [x if x is not None else static for x in names]
        files = [f"{_ref_base(cfg, x)}.{k}" for x in eff for k in KINDS]
        f0 = _run_step(cfg, "separate", 1, [1] * len(names), names=names)
        f0["run"]["plots"] = [{"name": x, "data": 1} for x in names]
        for datas in itertools.product((1, 2), repeat=len(names)):
            if len(names) == 3 and datas[0] != datas[2]:
                continue
            for tpl in (1, 2):
                for dels in [[]] + [[f] for f in files[:8:3]]:
                    st = _run_step(cfg, "separate", tpl, list(datas), dels, names=names)
                    st["run"]["plots"] = [{"name": x, "data": d} for x, d in zip(names, datas)]
                    yield {"op": "hist", "steps": [f0, st]}
    # options that travel with a plot: context.output.duplicate_last_bin = False (data ids 11, 12: the CSV text has no
    # duplicated last bin); changing the option is a change of the data
    for layout, n in (("separate", 1), ("group", 2)):
        files = _unit_files(layout, n)
        for d0 in (1, 11):
            for d1 in (1, 11, 12):
                for tpl in (1, 2):
                    for dels in [[]] + [[f] for f in files[:4]]:
                        yield {"op": "hist", "steps": [_run_step(_cfg(), layout, 1, [d0] + [1] * (n - 1)),
                                                       _run_step(_cfg(), layout, tpl, [d1] + [2] * (n - 1), dels)]}
    if INNER_EXTENSION_CASES:
        for cfg in (_cfg(mf=dict(STD_MF, dirname=["a.tex.d"])), _cfg(mf=dict(STD_MF, filename=["x.pdf_", None]))):
            for pdflatex in (True, False):
                yield {"op": "hist", "pdflatex": pdflatex,
                       "steps": [_run_step(cfg, "separate", 1, [1]), _run_step(cfg, "separate", 1, [2])]}
    if not thorough:
        for _ in range(350):
            yield {"op": "hist", "steps": [first, rng.choice(alpha1), rng.choice(alpha1)]}
        for _ in range(200):
            yield _random_history(rng)
        for _ in range(150):
            yield _random_history(rng, const_cfg=True)
        return
    # thorough.  E: one plot, standard options: ALL histories of three runs (the first run is fixed by symmetry);
    # S: histories of four runs, groups, option settings, random histories (interleaved, so that any prefix of the
    # stream is a mixture)
    calpha = list(_alphabet("separate", 1, ALL_CFGS))
    for s1 in alpha1:
        for s2 in alpha1:
            yield {"op": "hist", "steps": [first, s1, s2]}
            for _ in range(12):
                yield {"op": "hist", "steps": [first, rng.choice(alpha1), rng.choice(alpha1), rng.choice(alpha1)]}
            for _ in range(5):
                yield {"op": "hist", "steps": [gfirst, rng.choice(galpha), rng.choice(galpha)]}
            for _ in range(7):
                yield {"op": "hist", "steps": [first, rng.choice(calpha), rng.choice(calpha)]}
            for _ in range(7):
                yield _random_history(rng)
            yield _random_history(rng, const_cfg=True)


def _own_files(case):
    """every plot of every run has a file name of its own (plots sharing one name write the same files: with real,
    concurrent converter processes the result depends on their timing, which the model does not describe)"""
    for st in case["steps"]:
        if "run" in st and st["run"]["layout"] != "group":
            names = _names(st["run"])
            if len(set(names)) < len(names):
                return False
    return True


def _gen(ctx):
    rng = ctx.rng
    thorough = ctx.tier == "thorough"
    for c in _stage_cases():
        yield c
    n = 0
    for c in _base_histories(ctx):
        n += 1
        yield c
        # ONE pipeline object re-used for all runs of the history (the elements keep state between runs: the
        # template cache of RenderLaTeX, the pool of LaTeXToPDF): a twin of histories whose runs share their options
        if _reusable(c) and (n <= 64 or rng.random() < (0.3 if thorough else 0.16)):
            twin = dict(c, reuse=True)
            if n % 7 == 0:
                twin["verbose"] = True      # the elements' messages (printed to a null device)
            yield twin
        # real subprocesses as converters on a sample; the default command of LaTeXToPDF (a stub `pdflatex`)
        if n % (900 if thorough else 140) == 0 and _own_files(c):
            yield dict(c, stub="proc")
        if n % (900 if thorough else 140) == 70 and _own_files(c):
            yield dict(c, stub="proc", pdflatex=True)
        if n % (37 if thorough else 23) == 0:
            yield dict(c, pdflatex=True)
        # a RELATIVE output directory (the usual Write("output")): the process works in the temporary directory;
        # in-process and real converters, the default pdflatex command
        if n % (29 if thorough else 7) == 3:
            yield dict(c, relative=True)
        if n % (900 if thorough else 140) == 35 and _own_files(c):
            yield dict(c, relative=True, stub="proc")
        if n % (97 if thorough else 46) == 5:
            yield dict(c, relative=True, pdflatex=True)


def gen_cases(ctx):
    """a lazy stream of cases (harness.common extends a list with it, or samples a prefix of the thorough stream)"""
    ctx.exhaustive = False
    return _gen(ctx)


def search_cases(ctx):
    """failing-input search after a broken proof or correspondence: the quick scope (exhaustive one-step alphabets)
    with the search seed, plus more random histories"""
    sub = common.Ctx(PID, "quick", ctx.seed)
    cases = list(gen_cases(sub))
    cases.extend(_random_history(sub.rng) for _ in range(3000))
    return cases


def _fail_class(case):
    try:
        fails = hist_failures(case, run_impl(case))
    except Exception:
        return None
    if any(c == "violation" for c, _ in fails):
        return "violation"
    return "known" if fails else None


def shrink(case):
    """smaller histories; a history that fails outside the known class is only shrunk to histories that still do
    (otherwise the shrinker would slide into the known finding)"""
    if case["op"] != "hist":
        return
    if _fail_class(case) == "violation":
        for cand in _shrink_candidates(case):
            if _fail_class(cand) == "violation":
                yield cand
    else:
        for cand in _shrink_candidates(case):
            yield cand


def _shrink_candidates(case):
    steps = case["steps"]
    if case.get("stub") == "proc":
        yield {k: v for k, v in case.items() if k != "stub"}
    if case.get("verbose"):
        yield {k: v for k, v in case.items() if k != "verbose"}
    if case.get("reuse"):
        yield {k: v for k, v in case.items() if k != "reuse"}
    if case.get("relative"):
        yield {k: v for k, v in case.items() if k != "relative"}
    if case.get("pdflatex"):
        yield {k: v for k, v in case.items() if k != "pdflatex"}
    for i in range(len(steps)):
        if len(steps) > 1:
            yield dict(case, steps=steps[:i] + steps[i + 1:])
    for i, st in enumerate(steps):
        for j in range(len(st.get("del", []))):
            d = st["del"][:j] + st["del"][j + 1:]
            yield dict(case, steps=steps[:i] + [dict(st, **{"del": d})] + steps[i + 1:])
        r = st.get("run")
        if r:
            for k, v in (("w1", "normal"), ("w2", "normal"), ("lo", False), ("po", False)):
                if r[k] != v:
                    yield dict(case, steps=steps[:i] + [dict(st, run=dict(r, **{k: v}))] + steps[i + 1:])
    n = len(steps[0]["run"]["plots"]) if "run" in steps[0] else 0
    if n > 1 and all(len(s["run"]["plots"]) == n for s in steps if "run" in s):
        for drop in range(n):
            gone = {f"{OUT}/p{drop}.{k}" for k in KINDS}
            if drop != n - 1:
                continue        # names are positional: only the last plot can go
            new = []
            for s in steps:
                s2 = dict(s)
                if "del" in s2:
                    s2["del"] = [f for f in s2["del"] if f not in gone]
                s2["run"] = dict(s["run"], plots=s["run"]["plots"][:-1])
                new.append(s2)
            yield dict(case, steps=new)


# ---- MANIFEST texts ------------------------------------------------------------------------
TRUSTED = [
    "Lean 4.33.0 kernel; axioms limited to propext, Classical.choice, Quot.sound (audited by #print axioms on every run; "
    "the concrete witnesses are evaluated by the kernel with `decide +kernel`, no native_decide)",
    "hand transcription of Write.run/_make_filename, MakeFilename.__init__/__call__, RenderLaTeX.run (default selector), "
    "LaTeXToPDF.run, PDFToPNG.run, group_plots, MapGroup.run (on context.output) into "
    "LenaModel/Model/C19.lean, validated by this correspondence check (every branch of every modelled function is hit by "
    "the exhaustive stage cases; whole histories are compared file by file)",
    "the abstraction of the file system (paths -> content + logical modification time, implicit directories), of "
    "context.output as a slot vector, and of converters as functions of the contents they read at launch",
    "stub converters (in-process stand-in for subprocess inside the two lena modules; real sh scripts on a sample) and "
    "the logical clock the harness puts on modification times between runs",
    "posixpath.join / isabs / str.replace as transcribed (pjoin, isAbs, strReplace), validated by the wmf/latex/png cases",
    "the specification-side definitions of the theorems (Model/C19Spec.lean: plotUnit, memberNamed, groupTexPath, "
    "sepCore, grpCore, sourceClosedB, unitFreshB, effective) are executed by the driver on every run of every history and "
    "compared with an independent Python evaluation on the real file system (file names, SourceClosed, freshness) and "
    "with the world of the element-by-element model (specRun); sourceClosedB_iff / unitFreshB_iff tie them to the Props",
    "JSON line protocol encoders (harness/props/c19.py, drivers/C19.lean)",
]
ASSUMPTIONS = [
    "converters are deterministic functions of the text of the file they are given and of the files that text names; a "
    "LaTeX command either succeeds (writes the pdf, return code 0) or fails (writes nothing; ANY non-zero return code: "
    "1, 127, and the negative codes -9 / -15 of a process killed by a signal — rcFailed, schedOfRc); a converter "
    "process resolves the paths of its command line in the working directory it is started in (the in-process stand-in "
    "honours Popen's cwd as a real process does); the pdf is "
    "written at launch, and when a process is seen terminated is decided by the schedule of the case (latexRun / "
    "popReturned model the pool; latexHandle_failed, latexRun_yields_iff_ok).  Whole-pipeline histories and the "
    "freshness theorems assume commands that succeed",
    "EXECUTION ORDER: the theorems about several plots take every plot through the whole pipeline before the next one "
    "(runPlots); the real Sequence is lazy and interleaves plots (LaTeXToPDF pulls the next value before it hands the "
    "previous pdf on).  This is unobservable when plots have files of their own, which is a HYPOTHESIS of the theorems "
    "(UnitsOK / FUnit.Distinct / GroupOK.nodup, distinct: the files of one plot differ, plots share no file) — not a "
    "consequence of the naming functions (e.g. MakeFilename(fileext=\"pdf\") would make a plot's csv file its own pdf; "
    "several plots with one name: compared with the model only).  The order of the yielded values is not part of the "
    "property and is compared only in the LaTeXToPDF flow cases",
    "FRESHNESS WITH existing_unchanged: `exactly the content produced from the current data` is read through "
    "`effective`: a Write(existing_unchanged=True) keeps an existing source file as it is (its documented contract), and "
    "the pdf/png must then match the file on disk; UnitFresh / PlotFresh and the oracle (e_csv, e_tex) are stated so",
    "PATH CLAUSE: for the values the pipeline yields at the end, context.output.fileext is still `tex` and "
    "output.filepath the .tex file (LaTeXToPDF / PDFToPNG update only output.filetype, as documented); `exists at "
    "output_directory/dirname/filename.fileext` is read as: the named file is output_directory/dirname/filename plus "
    "the extension of its kind (csv, tex, pdf, png), all four exist; the literal clause is proved for the values Write "
    "yields (write_path_rule, write_file_at_path).  Judged a reading of the statement, not a defect",
    "HISTORIES: one fixed set of plot names, one layout and one naming configuration per history (the theorems: every "
    "run resolves to the same units `us`); data, template, option settings and the set of deleted files vary.  Two "
    "different pipelines sharing files (a separate run, then a group run over the same csv files) are outside: `files "
    "are only changed by the pipeline and by the deletions of the history`",
    "A run that raises leaves the model world unchanged (`step`); the real code leaves what it wrote before the "
    "exception.  No theorem concludes anything from a raising run (the freshness theorems prove `.ok`), the harness stops "
    "a history at an exception; object_history_eq_fresh passes through that branch identically on both sides",
    "KNOWN FINDING: filed under the known signature are exactly the stale pdfs characterised in Lean "
    "(stale_when_csv_missing, stale_when_tex_missing, grp_stale_when_nothing_rewritten: pdf on disk, a source missing, "
    "LaTeXToPDF(overwrite) off, every source on disk kept by a non-overwriting Write); a pdf that stays stale in later "
    "settled runs is a consequence (pdf_kept_when_sources_settled) and not reported again.  Ctrl-C is not a fault the "
    "property quantifies over: after an interrupted run with unfinished commands only the pool clean-up and the number "
    "of yielded values are judged",
    "files are only changed by the pipeline and by the deletions of the history; modification times are strictly "
    "increasing along writes (mtime granularity is outside the model); an edit of the template file changes its "
    "modification time (jinja2 re-uses a cached template iff the time is the same; the harness sets it explicitly; the "
    "render2 cases compare the stale-cache branch with the real RenderLaTeX)",
    "ToCSV and jinja2 are functions of their input: csvOf(data), texOf(template, paths of the csv files); the csv text "
    "is checked against an independent formula for 1-dim integer histograms: the element's duplicate_last_bin and "
    "header, context.output.duplicate_last_bin (absent / True / False: `takes precedence over this element's value`) "
    "and context.output.to_csv (tocsv cases, toCsvHist; in histories a plot with data id 1x carries "
    "duplicate_last_bin=False and its csv file must hold the text without the duplicated bin); 2-dim histograms, "
    "rows(), separators, row_end stay C12 territory; select_template callables, select_data, from_data and user "
    "environments of RenderLaTeX are not modelled; context.output.template is, per value of a flow (renderflow cases, "
    "renderRun: every value is rendered from the template IT names)",
    "contexts: only context.output (eight keys + write, template, to_csv, duplicate_last_bin) and the key `name` are "
    "modelled; file-name and output-directory templates are literals and {{name}}; non-bool values of output.changed "
    "are outside.  STATIC CONTEXT: a Sequence with SetContext gives MakeFilename a static context; modelled for the key "
    "`name` (fullName: the value's own name, else the static one); separate plots only (for a group the name of the "
    "group value is the intersection of the members' run-time contexts: runSpecStatic is outsideModel there)",
    "ABSOLUTE NAMES: for an absolute output.dirname / output.filename Write documents a warning and `dirname is always "
    "relative to self.output_directory`; the oracle accepts a refusal (exception) or the path below the output "
    "directory with the leading separator(s) dropped, and nothing else (write_path_below_outdir: for all names the "
    "path is the output directory followed by relative parts).  Histories with absolute names are not run on the "
    "file system (a broken normalisation would write into the root directory of the machine); the naming is observed "
    "through Write.run on an object that writes itself and only records the path it is given (Write hands it the "
    "complete path and does not touch the file system for such data)",
    "PUBLIC INTERFACE ONLY: the harness reads, calls and replaces no underscore-named attribute, method or function of "
    "lena (a consistent rename of private names must not change any result).  Write's naming rule (wMakeFilename) is "
    "observed as context.output.{filename, fileext, filepath} after Write.run (the normalised dirname, an "
    "intermediate value of the model, is not compared); the mode of Write(existing_unchanged, overwrite) (writeInit) "
    "by what it does to an existing file with equal and with different data; static contexts are given by "
    "Sequence(SetContext(...), element) (an empty static context is therefore never delivered: Sequence skips it); "
    "the update of a group's context (updateWithGroup) through MapGroup.run with a member sequence that replaces the "
    "member contexts; the pool of LaTeXToPDF is its public attribute `processes` on the object the harness built.  The "
    "in-process converter stand-in replaces the module attribute `subprocess` of lena.output.latex_to_pdf / "
    "pdf_to_png (a public name; real sh-script converters through PATH are run on a sample as well)",
    "OUTPUT DIRECTORY: absolute or relative (the process then works in the temporary directory); the model speaks of "
    "paths relative to the temporary directory in both cases",
    "ADVERSARY ROUND (notes/adversary_C19.md): all six candidates were judged inside the statement and its "
    "quantifier (a name taken from another value / a file outside the output directory / a pdf not generated / a "
    "tex or csv file that does not hold `exactly the content produced from the current data` and its own context / "
    "a yielded pdf that does not exist)",
    "state kept by elements between runs AND between the values of one run: the jinja2 template cache of RenderLaTeX "
    "(PipeState, getTemplate, runObject; run_independent_of_previous_runs; per template name: EnvState, getTemplateN, "
    "renderRun_current) and the process pool of LaTeXToPDF (empty after a completed or interrupted run); MakeFilename "
    "has its static context, which a call must leave as it is (mfObjCall returns the object unchanged: the code "
    "deep-copies it; mfObjRun_eq_map; mfseq cases and histories with unnamed plots); ToCSV, Write, PDFToPNG, MapGroup "
    "keep none",
    "theorems about freshness assume SourceClosed (every existing pdf has its tex and csv files on disk at the start of "
    "a run); without it the statement is false for the code as it is (history_fresh_full_fails = the known finding)",
    "seed round K: an 'existing name' is a key that is present in context.output with a string value, the empty string "
    "included (fileext '' and dirname '' are legitimate: Write treats them as 'no extension' / 'the output directory'); "
    "keys present with a value that is not a string (None, 0, False) are not generated: whether they 'exist' is not said "
    "by the statement, and Write reads a None fileext as absent",
]
RULE = ("stage cases (exhaustive small scopes): MakeFilename arguments x name x incoming output (all valid combinations; "
        "incoming names absent, non-empty and EMPTY strings: fileext '' = no extension, dirname '' = the output directory, "
        "empty prefix/suffix/filename), Sequence(MakeFilename, Write) run twice on a value with every combination of "
        "absent/empty/non-empty filename, dirname, fileext, prefix and filetype (op mfw: the file is where the existing names "
        "say and is not redone), "
        "Write file-name keys x output directories (Write.run on an object that writes itself), Write.run mode x existing file {none, same, different} x incoming "
        "changed {unset, True, False} x data kind, LaTeXToPDF overwrite x changed x tex/pdf presence and mtime order, "
        "PDFToPNG likewise, values without an output context, Write with a formatted output directory and sequences of "
        "static contexts, RenderLaTeX with/without context.output.template, MapGroup with 1-3 results per member, "
        "LaTeXToPDF.run on flows of 2-3 values with per-launch schedules (command succeeds / fails with "
        "return code 1, seen terminated after 0, 1 or many polls) x verbose 0,1,2 x existing pdfs, one RenderLaTeX object over all sequences of 2-3 states (content, mtime) of the template file, "
        "group_plots and MapGroup's update of the group context over {unset, True, False}^(1..3); ONE MakeFilename object (6 argument sets x no / "
        "empty / named static context) naming flows of 2-3 values (named, unnamed, with existing name or prefix); ONE "
        "RenderLaTeX object on flows of 1-3 values that select their template through context.output.template "
        "(absent, other file, same file, empty) or are not selected, and two runs with the template files edited in "
        "between; ONE ToCSV object (duplicate_last_bin x header) on flows of 1-2 histograms x context "
        "duplicate_last_bin {absent, True, False} x to_csv; Write's file names also with absolute file names; "
        "LaTeXToPDF flows with return codes 1, 127, -9, -15.  Histories: one plot, first "
        "run then EVERY step of the alphabet data{keep,change} x template{keep,change} x deletion of any subset of "
        "csv/tex/pdf/png (64), the same with all 36 option settings; a group of two plots with every step of its "
        "256-step alphabet; groups of 1 and 3, 2 and 3 separate plots and seven naming variants with single deletions; "
        "quick adds 900 sampled two-step and 500 random histories (1-3 plots, 2-4 runs, random options), thorough "
        "enumerates all 4096 histories of three runs of one plot (standard options) and samples 130 000 more (four runs, "
        "groups, option settings, random); every history whose runs share their options is run "
        "twice: with new pipeline objects for every run and with ONE Sequence object re-used for all runs (template "
        "file edited in place, same size, modification time bumped explicitly); further kinds: plain values through the group pipeline (MapGroup "
        "scalars), several plots sharing one file name (model comparison only), the output directory removed between "
        "runs, Ctrl-C during LaTeXToPDF's wait with commands that have not terminated (all late/early patterns) followed "
        "by another run of the same or a new object, MakeFilename(overwrite=True), the default "
        "pdflatex command (stub binary); real sh-script converters on a "
        "sample; every 7th history also with a RELATIVE output directory (the process works in the temporary "
        "directory; in-process stand-in that honours Popen's cwd, real processes and the default pdflatex command on "
        "samples); plots without a name with and without a static context of the Sequence (SetContext); plots whose "
        "context carries duplicate_last_bin=False (explicit two-run histories and a quarter of the random ones).  "
        "Non-trivial: a history of at least two completed runs.")
LEVEL_TEXT = ("Lean 4 theorems about a transcribed model of the output pipeline over an abstract file system, for all "
              "converters, pre-states satisfying the stated invariant, data, templates, numbers of plots and option "
              "settings (unbounded): freshness of all files after a run and along histories under SourceClosed "
              "(run_fresh_partial, history_fresh_partial, group_fresh_partial), the proved negation of the unrestricted "
              "statement on the concrete witness (history_fresh_full_fails: a genuine defect that the unedited test-suite "
              "pins, listed as a known finding), idle runs are no-ops, output.changed is sticky, MakeFilename/Write naming "
              "rules, the LaTeXToPDF pool with failing / late commands (any non-zero return code), re-used pipeline objects, "
              "one element object on flows of several values (MakeFilename with a static context, RenderLaTeX with "
              "per-value templates, ToCSV with per-value options), Write paths below the output directory for all "
              "names; 48 theorems carry the "
              "property, 29 more are audited as auxiliary (refinements between Lean definitions, glue); tied to /repo "
              "by a correspondence check that compares file-system snapshots, converter logs and "
              "yielded contexts of whole histories, plus a direct freshness/no-redo oracle on the real code.")
LEVEL_NOTE = ("Hypotheses of the freshness theorems that are not derived: plots have files of their own (UnitsOK), "
              "one set of plot names/layout per history, commands succeed, SourceClosed; existing_unchanged keeps existing "
              "sources (effective); several plots are modelled one after the other (the real Sequence interleaves). "
              "Trusted: Lean kernel (+ propext, Classical.choice, Quot.sound), the hand transcription validated by the "
              "correspondence run, the file-system/converter abstraction, stub converters.  Freshness is proved only for "
              "runs that start SourceClosed; the remaining case is the known finding (checked to be exactly that class).")
TECHNIQUE = "Lean 4 proof over hand-written model + correspondence check on histories in a temporary directory"
DESIGN_REF = "DESIGN.md section 3, C19"
