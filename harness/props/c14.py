"""C14 — variables compose like functions and keep each variable's description.

Real code: lena.variables.Variable / Compose / Combine (lena/variables/variable.py), applied through
lena.core.Sequence and directly.
Model: lean/LenaModel/Model/C14.lean (values), Model/C14Tok.lean (object identities); theorems Props/C14.lean,
Props/C14Tok.lean; driver lean/drivers/C14.lean.

Cases (JSON), by "kind":
  chain (default)  {"chain":[E..], "vals":[{"d":int,"c":P|null}..], "wild":bool}
      Sequence(E..) and Compose(E..) applied twice to every value (one value per flow), then Sequence(E..) and
      Sequence(Compose(E..)) run on ONE flow that holds every value twice (consumed lazily), then the same Sequence
      object once more; after every result has been recorded its context is changed in place (every dict, list, set,
      deque, user object reachable from it) -- nothing the variables own may notice; the var_context of EVERY
      constructed Variable (arguments of Compose/Combine at any depth) is compared with what it was right after its
      construction; model: seqCall / seqRun / mkCompose+call, plus the specification side (chainWFk = chainWFb,
      chainOKk = chainOKb, composeData, argsTypes, fold of UP, Leaf.ctx, leavesOKb)
  attr             {"kind":"attr","expr":E,"ops":[{"get":s}|{"set":s,"v":P}|{"vcset":s,"v":P}|{"vcdel":s}|{"mut":s,"v":P}|
                    {"item":i}|{"call":value}|{"vcn":true}|{"vc":true}..]}
      __getattr__, __setattr__, Combine.__getitem__, the public dictionary var_context (item assignment, deletion) and
      in-place changes of attribute values (`mut`: "v" is the value afterwards) on one variable, in order; every `call`
      records the var_context before it and changes the returned context in place afterwards
  tok              {"kind":"tok","expr":E,"val":value,"reps":k}
      the variable applied k times, each time to the previous result, with id() of every mutable object (token model)
  ctor             {"kind":"ctor","k":"compose"|"combine","args":[E..]}
      Compose(*args) / Combine(*args) on object identities: nothing of an argument is written, the new var_context
      shares no object with an argument (Model/C14X.lean composeInitT for Compose, combineInitT for the `combine` tuple
      of a Combine)
  E = {"k":"var","name":P,"getter":{"tag":i}|"variable"|"notcallable","type":P,"kw":{key:P}}
    | {"k":"compose","args":[E..],"kw":{key:P}} | {"k":"combine","args":[E..],"kw":{key:P}} | {"k":"other"}
  P (a Python value) = int | str | {"l":[P..]} (list) | {"t":[P..]} (tuple) | {"d":{key:P}} (dict) | {"o":name} (None, bool,
      float) | {"s":[P..]} (set) | {"dq":[P..]} (collections.deque) | {"od":{key:P}} (OrderedDict) | {"u":{attr:P}} (user object)
The getter fixture {"tag":i} is `lambda x: (i, x)`: the data of a result spells out which getters were applied in
which order.  Further fixtures: {"pairw":i}: x -> (x, {"w": i}); "first": x -> x[0]; {"const":d}: x -> d (None, a falsy
value, (), nan, an exception object ...); {"sw":[[a,b]..](,"tag":i)}: the scalar a -> b, otherwise x itself resp. (i, x)
(getters that treat None / falsy values specially).  Data are ints, the scalars {"o":name} (None, booleans, floats, '',
an exception object as a value), tuples [..] (also empty) and, inside tuples, dictionaries {"ctx":P}.  `wild` marks cases outside the well-formedness hypotheses of the theorems (error branches, attribute
names that clash with types, ...): they go through the correspondence with the model; of the oracle only the parts
that need no hypothesis apply to them.
Not modelled on purpose: lena/variables/functions.py (abs, Cm) — not part of the statement; both raise
LenaAttributeError for their default call (they use the commented-out Variable.get); recorded as a C20-side judgement.
"""
import collections
import copy
import itertools

from harness.common import exc_name

PID = "C14"
TITLE = "Variables compose like functions and keep each variable's description"
LEAN_MODULES = ["LenaModel.Props.C14", "LenaModel.Props.C14Tok", "LenaModel.Props.C14X"]
LEAN_SOURCES = ["LenaModel/Model/C14.lean", "LenaModel/Lemmas/C14.lean", "LenaModel/Props/C14.lean",
                "LenaModel/Model/C14Tok.lean", "LenaModel/Lemmas/C14Tok.lean", "LenaModel/Props/C14Tok.lean",
                "LenaModel/Model/C14X.lean", "LenaModel/Props/C14X.lean"]
DRIVER = "drivers/C14.lean"
# the theorems that carry the property
THEOREMS = [
    # sentence 1 (Compose = Sequence): false without restriction on attribute names (known finding), proved with it
    "Lena.C14.compose_ne_sequence_attr_clash",
    "Lena.C14.compose_eq_sequence_partial",
    "Lena.C14.UP_assoc",
    "Lena.C14.updateVar_eq_UP",
    "Lena.C14.compose_eq_sequence_expr_partial",
    "Lena.C14.evalExpr_wf",
    "Lena.C14.evalArgs_wf",
    "Lena.C14.mkVariable_wf",
    "Lena.C14.mkComposeK_wf",
    "Lena.C14.mkCombine_wf",
    # sentence 3 (types persist, compose lists the types in order) for the Sequence, for Compose, for any variables / trees
    "Lena.C14.seqCall_result",
    "Lena.C14.types_persist",
    "Lena.C14.compose_order",
    "Lena.C14.earlier_types_persist",
    "Lena.C14.types_persist_compose",
    "Lena.C14.compose_order_general",
    "Lena.C14.compose_order_expr",
    # sentence 2 (context.variable carries the name and attributes)
    "Lena.C14.call_carries_attributes",
    "Lena.C14.mkVariable_attributes",
    "Lena.C14.combine_context",
    "Lena.C14.setAttr_reaches_context",
    "Lena.C14.getAttr_mkVariable",
    "Lena.C14.combine_getitem",
    "Lena.C14.mkCompose_rejects",
    "Lena.C14.mkCombine_rejects",
    "Lena.C14.compose_name_keyword_ignored",
    # last sentence (the variable and the rest of the value's context are not changed), on object identities
    "Lena.C14.Tok.deepcopyT_spec",
    "Lena.C14.Tok.callT_spec",
    "Lena.C14.Tok.callT_other_untouched",
    "Lena.C14.Tok.callT_variable_untouched",
    "Lena.C14.Tok.callsT_variable_untouched",
    "Lena.C14.Tok.seqT_variables_untouched",
    "Lena.C14.Tok.callT_frame",
    "Lena.C14.Tok.callT_erase",
    "Lena.C14.Tok.callT_results_equal",
    # adversary round (Props/C14X.lean): flows of several values; attributes changed through the public dictionary /
    # in place; constructing a Compose changes none of its arguments (object identities)
    "Lena.C14.seqRun_get",
    "Lena.C14.seqRun_equal_values",
    "Lena.C14.seqRun_eq_compose_partial",
    "Lena.C14.current_attribute_reaches_context",
    "Lena.C14.delAttr_leaves_context",
    "Lena.C14.Tok.composeInitT_args_untouched",
    "Lena.C14.Tok.composeInitT_result_fresh",
    # the name of a Combine: the keyword whatever its value ('' too), else the joined names; it reaches context.variable
    "Lena.C14.combine_name",
    "Lena.C14.combine_name_reaches_context",
    # constructing a Combine changes none of its arguments (object identities)
    "Lena.C14.Tok.combineInitT_fresh",
    # seed round I/J: the data of Compose and Sequence agree for ANY getters (no hypothesis; an intermediate None included),
    # no getter is skipped; every attribute of a typed variable / a typed Combine is under its type, whatever its name
    "Lena.C14.compose_data_eq_sequence_data",
    "Lena.C14.compose_applies_every_getter",
    "Lena.C14.type_subcontext_complete",
    "Lena.C14.combine_typed_subcontext",
]
# audited too, but not obligations of the property: true by definition of the model (the clauses they stand for are
# carried by the correspondence and the oracle), soundness of the Boolean checks, and theorems about code that is not in
# /repo (fx=false: the tree before 0eafe05; mkComposeN: the unapplied notes/C14_defect_2.patch)
AUX_THEOREMS = [
    "Lena.C14.compose_getter",
    "Lena.C14.combine_tuple",
    "Lena.C14.call_data",
    "Lena.C14.seqCall_data",
    "Lena.C14.call_frame",
    "Lena.C14.seqCall_frame",
    "Lena.C14.mkVariable_rejects",
    "Lena.C14.getAttr_setAttr",
    "Lena.C14.getAttr_setAttr_ne",
    "Lena.C14.getAttr_private",
    "Lena.C14.getAttr_missing",
    "Lena.C14.rawValue_spec",
    "Lena.C14.exprTypes_sub",
    "Lena.C14.chainWFb_sound",
    "Lena.C14.leavesOKb_sound",
    "Lena.C14.namesOK2b_sound",
    "Lena.C14.typesOKb_sound",
    "Lena.C14.Tok.sepB_sound",
    "Lena.C14.compose_eq_sequence_pinned_partial",
    "Lena.C14.compose_ne_sequence_pinned",
    "Lena.C14.compose_name_keyword",
    "Lena.C14.mkComposeN_no_name",
    "Lena.C14.seqRun_eq_map",
    "Lena.C14.seqCall_single",
    "Lena.C14.getAttr_delAttr",
    "Lena.C14.getAttr_delAttr_ne",
    "Lena.C14.chainWFk_eq",
    "Lena.C14.chainOKk_eq",
    "Lena.C14.Tok.composeInitT_start",
]
TRUSTED = [
    "Lean 4.33.0 kernel; axioms limited to propext, Classical.choice, Quot.sound (audited by #print axioms on every run)",
    "hand transcription of Variable.__init__/__call__/_update_context/__getattr__/__setattr__, Compose.__init__, "
    "Combine.__init__/__getitem__ and get_data_context into LenaModel/Model/C14.lean, validated by this correspondence check "
    "(var_contexts, outputs, attribute reads, exception class/phase of Sequence(v1..vn) and Compose(v1..vn) on every case)",
    "the second transcription of __call__/_update_context with object identities (Model/C14Tok.lean): proved to erase to the "
    "first one (callT_erase); its identities (which objects are written, which objects the result is made of) validated "
    "against id() of the real objects on every tok case; likewise Compose.__init__ (composeInitT) and the `combine` tuple of "
    "Combine.__init__ (combineInitT) on every ctor case",
    "dictionaries as slot vectors over the key alphabet of the case (DESIGN.md section 2); copy.deepcopy is the identity on "
    "values and renames every mutable object (values without internal sharing)",
    "the getter fixtures (x -> (i, x), constants, case distinctions on scalars) on both sides -- Python closures in the "
    "harness, Lean functions in drivers/C14.lean (toGetter); data scalars that are not ints as int codes; JSON line protocol "
    "encoders (harness/props/c14.py, drivers/C14.lean)",
    "attribute values that are mutable but neither list nor dict (set, deque, user object) are held by the model as lists "
    "that start with a tag (the code never looks inside an attribute value; the token model gives them an identity like any "
    "list); an OrderedDict is held as a dictionary (value equality); var.var_context[a] = x and an in-place change of an "
    "attribute value are, on values, setAttr with the new value; lena.core.Sequence(...).run(flow) on a flow of several "
    "values is seqRun (every value through seqCall, an exception ends the flow) -- validated on every chain case",
]
ASSUMPTIONS = [
    "KNOWN FINDING (notes/C14_defect_3.md, known_findings.json): sentence 1 is false of /repo when an attribute of a variable "
    "(or of the pre-existing context.variable) is named like a type of the run -- inside the property's quantifier "
    "('arbitrary extra attributes'); machine-checked: Lena.C14.compose_ne_sequence_attr_clash refutes "
    "compose_eq_sequence_full; the proved theorem compose_eq_sequence_partial has the hypothesis NoClash. Such cases are "
    "generated in the non-wild stream; their Compose/Sequence difference and the lost sub-context are reported under the "
    "known signature, every other failure of such a case is a VIOLATION",
    "getters are total functions of the data (an exception RAISED by a user's getter is outside the statement); data are ints, "
    "scalars that are not ints (None, False, True, 0.0, 1.5, nan, inf, '', an exception object used as a value -- int codes "
    "beyond +-10^6 in the model, which like the code never looks at data), tuples (also the empty one) and tuples that "
    "look like a (data, context) pair; getter fixtures x->(i,x), x->(x,{'w':i}), x->x[0], x->d (a constant: None, a falsy "
    "value, (), nan ...), and finite case distinctions on scalars ('0. if part is None else ...') that otherwise return "
    "the very object they were given or (i,x); a getter's test of its argument is type-and-value equality (`x is None`, "
    "an int is not a bool is not a float, nan is nan), only scalars and () are tested for; "
    "_has_context is transcribed (Lean rawValue) and every input is given to the model as the raw value",
    "JUDGEMENTS of seed round I/J (notes/adversary_C14.md): (I) 'vn.getter(...v1.getter(x)...)' holds for every getter: "
    "None, falsy values, empty containers, nan are values like any other, a Compose that stops at an intermediate None "
    "violates sentence 1. (J) 'arbitrary extra attributes': `dim`, `combine` and `variable` are legitimate names of a "
    "user's attributes of a plain Variable and of a Compose (lena sets dim/combine in Combine only, variable nowhere); "
    "they are generated in the non-wild stream and every clause of the oracle applies to them (they are outside the "
    "Boolean hypothesis kwOKb of the Lean theorems about expressions, so spec_wf is false for them; the theorems "
    "type_subcontext_complete / types_persist / earlier_types_persist have no such restriction). Out of scope stay: "
    "`dim`/`combine` as keywords of a Combine (dim is refused by an assert, combine overwritten: they are lena's there), "
    "`compose` (the key the statement itself defines), `name`/`type`/`getter` (parameters of the constructors). For a "
    "Combine with a type, 'its attributes' are its public var_context (name, keywords, dim, combine): all of them must be "
    "under its type",
    "contexts hold ints, None/bool/float (opaque scalars: encoded as int codes beyond +-10^6 in the model, which observes "
    "them like the code does -- truthiness, hashability, 'not a str/list/dict'), strings, lists, tuples and string-keyed "
    "dictionaries; a `type` is a string; attribute names come from a pool with the documented names (latex_name, unit, "
    "range) and a few identifiers; dictionaries with non-string keys are not generated",
    "one Variable object may occur several times in a chain (Sequence(v, v), Compose(v, w, v), Sequence(v, Compose(v, w))): "
    "generated; the value model has no object identity for variables, so this is checked by the oracle and the "
    "correspondence only",
    "in-place mutation is stated and proved in the token model (Props/C14Tok.lean) under the hypothesis Sep (the variable's "
    "objects are older than the counter and none of them is an object of the value; values without internal sharing); "
    "checked on the real objects by snapshots (chain kind) and id() graphs (tok kind); two aliasing cases (Sep false) are "
    "generated: there the theorems do not apply, model and code must still agree and the variable must not change. The "
    "identity structure of the result (same context object, moved sub-objects, which old objects are written) is compared "
    "with the model only while the implementation updates the caller's context in place, as line 216 does; an "
    "implementation that returns a copy of the context satisfies the property and passes",
    "the state an exception leaves behind (line 208 creates cvar['compose'] before a failing assert in line 210) is not "
    "modelled: after an exception nothing is claimed",
    "lena.core.Sequence applies its elements one after the other through the adapter lena.core.Call (el(value)); the model's "
    "seqCall is that composition; validated by the correspondence, not proved (C01/C05 are about Sequence itself)",
    "lena/variables/functions.py (abs, Cm) is anchored but NOT exercised (0 lines covered): both call the commented-out "
    "Variable.get and raise LenaAttributeError for their default call, Cm cannot replace the getter at all; they are not "
    "part of the statement (recorded as a C20-side judgement); any edit of that file is invisible to this check",
    "strings outside the key alphabet of a case share one padded slot in the model (key = names.length): the harness "
    "builds the alphabet from every string of the case, so this never happens on a generated case; theorems about single "
    "keys (getAttr_setAttr_ne, mkVariable_attributes) are stated on slot numbers",
    "the model carries both versions of the condition in line 196 of variable.py (fx) and of the name keyword of Compose "
    "(nk: notes/C14_defect_2.patch, not applied); the harness determines on one fixed input each which the tree implements "
    "and asks the driver for that one (recorded in the evidence notes); theorems about the variants that are not in /repo "
    "are in AUX_THEOREMS",
    "theorem hypotheses (NamesOK, ChainWF, chainOKb, LeavesOK, sepB) are Boolean functions evaluated by the driver on every "
    "generated case (ChainWF and chainOKb through chainWFk / chainOKk, proved equal in Props/C14X.lean: they look the key "
    "numbers of the types up once instead of once per slot); every case the harness classifies as inside the hypotheses "
    "(spec_wf) must satisfy them",
    "JUDGEMENTS of the adversary round (notes/adversary_C14.md): (1) var_context is the documented public dictionary of the "
    "variable's attributes ('var_context is the dictionary of attributes of the variable. It is added to context.variable "
    "during __call__'): 'context.variable carries the attributes of the resulting variable' means the attributes the "
    "variable has WHEN it is applied, however they were set (dot notation, var_context[a] = x, an in-place change of a "
    "value, deletion); a copy of var_context cached across applications violates it. (2) 'keep each variable's "
    "description' / 'changes neither the variable': constructing a Compose/Combine from a variable, giving the composition "
    "keywords, setting attributes of the composition and applying it must not change the var_context of the argument "
    "variables (checked on values for every constructed Variable, and on object identities in the ctor kind). (3) the "
    "statement's last sentence is evaluated by changing the RETURNED contexts in place (what later elements of an analysis "
    "do with the context of their value): no var_context may change and later results must be equal; whether objects are "
    "shared is not demanded as such in the chain/attr kinds (only its observable consequence is), the tok/ctor kinds state it "
    "on identities because the token theorems do. (4) Combine(..., name='') has the name '' (documented: the joined "
    "name is used 'if not provided'; Lean combine_name). (5) deleting var_context['name'] makes every error message of __getattr__ recurse "
    "(RecursionError): a variable without a name is outside the statement ('variables have name'), not generated",
    "the state a Sequence keeps between runs: a Sequence object is run on a flow of several values and then once more on a "
    "flow of one value; longer histories of runs of one Sequence object are not generated",
]
RULE = ("Every chain case: Sequence and Compose on every value twice, then on one flow holding every value twice, then the same "
        "Sequence object again; returned contexts are changed in place after recording; var_context of every constructed "
        "Variable watched. chain: exhaustive chains of 1..3 leaf variables, each untyped / typed with a fresh type / typed with the shared type "
        "'ta', with and without an attribute, x 7 input values (bare, context without variable, untyped variable, typed "
        "variable, composed variable, typed-then-untyped variable, composed variable whose type equals a chain type); Combine "
        "of 1..4 leaves x typed/untyped pattern x name/type keyword, alone and between typed variables; Compose with keywords; "
        "chains whose getters return / consume data that looks like a (data, context) pair, on raw pair-shaped inputs; "
        "for each of 11 data scalars (None, False, 0, 0.0, '', (), nan, an exception object, True, 1, 1.5) 7 chains whose getters "
        "return it / map it to another value / return the object they were given, in chains, Compose and Combine, on inputs "
        "that are that scalar too; attributes named dim / combine / variable on typed and untyped variables and Compose, "
        "Combine with a type between typed variables; the "
        "documented attributes latex_name/unit/range (also None/bool/float values) on every variable of a chain; one Variable "
        "object used twice (Sequence(v,v), Compose(v,w,v), Sequence(v,Compose(v,w)), Combine(v,v)); attributes named like a type "
        "(known finding); attribute values that are sets, deques, OrderedDicts, user objects, falsy values; names '', 'x y', "
        "'0', '_', duplicates for variables and Combine; Compose of ONE variable with keywords, alone and in chains. Seeded "
        "random chains of 1..5 expressions (leaves, nested Compose/Combine to depth 2 below the chain, "
        "attributes from a pool of 8 names with nested values incl. None/bool/float/nan/inf/set/deque/OrderedDict/user object, "
        "5 getter fixtures (28% constants / case distinctions on None, falsy values, (), nan), int / scalar / tuple / pair-shaped "
        "data, 5% attributes named like a type, 6% named dim/combine/variable, 12% shared objects, 10% a "
        "documented attribute on every leaf, 6% odd names; quick 1200, thorough 40000) and 'wild' cases (quick 800, thorough 30000: reserved words as types and attribute names, "
        "non-list compose, non-dict context.variable, bad getters, non-Variable arguments, empty Compose/Combine, "
        "getter/dim/type/name keywords); every value applied twice. attr: every index -n-2..n+1 of Combine of 1..4 variables, "
        "every kind of attribute name on a leaf / Combine / Compose, applications with changes of the attributes in between (dot notation, var_context[a] = x, in-place "
        "change of a value, deletion) on a flat untyped leaf / typed leaf / Combine / Compose of one and two variables, "
        "random get/set/vcset/vcdel/mut/item/call sequences (55% of them call-change-call templates; quick 600, thorough "
        "8000). ctor: Compose/Combine of 1..3 leaves x typed/untyped x 4 attribute sets on object identities, nested "
        "arguments, random (quick 150, thorough 4000). tok: single variables and chains of 2..4 different variables x input values x up to 3 rounds with object "
        "identities, two aliasing cases, random (quick 300, thorough 8000). Non-trivial: a chain of >= 2 variables whose result "
        "has a compose list, a Combine, an exception; attr: a value or an exception; tok: an object changed in place.")
CASE_TIMEOUT = 10

RESERVED = ["name", "type", "compose", "variable", "dim", "combine", "getter"]
# reserved words that are nevertheless legitimate names of a user's attributes of a plain Variable / a Compose
STRUCTURE_ATTRS = ("dim", "combine", "variable")

# ---------------------------------------------------------------------------------------------
# encoding of Python values


# opaque scalars: Python values the code observes only through truthiness / hashability / "not a str, list, dict";
# the model holds them as int codes beyond +-10^6 (codes <= -10^6 are the falsy ones), see Model/C14.lean `truthy`
OPAQUE = {"None": -1000001, "False": -1000002, "0.0": -1000003, "True": 1000001, "1.5": 1000002, "-2.5": 1000003,
          "nan": 1000004, "inf": 1000005}
_OPAQUE_PY = {"None": None, "False": False, "0.0": 0.0, "True": True, "1.5": 1.5, "-2.5": -2.5, "nan": float("nan"),
              "inf": float("inf")}
_OPAQUE_REV = {v: k for k, v in OPAQUE.items()}


class _Obj:
    """a user-defined attribute value: a mutable object with attributes of its own, compared by value"""

    def __init__(self, **kw):
        self.__dict__.update(kw)

    def __eq__(self, other):
        return type(other) is _Obj and self.__dict__ == other.__dict__

    __hash__ = None

    def __repr__(self):
        return "_Obj(%s)" % ", ".join("%s=%r" % kv for kv in sorted(self.__dict__.items()))


# mutable attribute values that are neither list nor dict ("arbitrary extra attributes"): the code never looks inside an
# attribute value, so the model holds them as LISTS that start with a tag (the token model gives them an identity like
# any list): a set, a collections.deque, a user object (tag, then its attribute dictionary).  An OrderedDict is a
# dictionary (compared by value, like the code's `==` does).
TAG_SET, TAG_DEQUE, TAG_OBJ = "<set>", "<deque>", "<obj>"


def _sort_key(p):
    import json
    return json.dumps(p, sort_keys=True)


def enc(o):
    if o is None or isinstance(o, (bool, float)):
        r = repr(o)
        return {"o": r} if r in OPAQUE else {"obj": type(o).__name__ + ":" + r}
    if isinstance(o, int):
        return o
    if isinstance(o, str):
        return o
    if isinstance(o, list):
        return {"l": [enc(x) for x in o]}
    if isinstance(o, tuple):
        return {"t": [enc(x) for x in o]}
    if isinstance(o, dict):
        return {"d": {(k if isinstance(k, str) else "<non-string key %r>" % (k,)): enc(v) for k, v in o.items()}}
    if isinstance(o, (set, frozenset)):
        return {"s": [x for _, x in sorted({_sort_key(enc(x)): enc(x) for x in o}.items())]}
    if isinstance(o, collections.deque):
        return {"dq": [enc(x) for x in o]}
    if isinstance(o, _Obj):
        return {"u": {k: enc(v) for k, v in o.__dict__.items()}}
    return {"obj": type(o).__name__}


def dec(p):
    if isinstance(p, (int, str)):
        return p
    if "o" in p:
        return _OPAQUE_PY[p["o"]]
    if "l" in p:
        return [dec(x) for x in p["l"]]
    if "t" in p:
        return tuple(dec(x) for x in p["t"])
    if "d" in p:
        return {k: dec(v) for k, v in p["d"].items()}
    if "od" in p:
        return collections.OrderedDict((k, dec(v)) for k, v in p["od"].items())
    if "s" in p:
        return set(dec(x) for x in p["s"])
    if "dq" in p:
        return collections.deque(dec(x) for x in p["dq"])
    if "u" in p:
        return _Obj(**{k: dec(v) for k, v in p["u"].items()})
    raise ValueError(p)


def canon_p(p):
    """the encoding of the Python value a case literal stands for (an OrderedDict is compared as a dictionary, the
    elements of a set in a fixed order)"""
    if isinstance(p, (int, str)):
        return p
    if "o" in p:
        return p
    if "l" in p:
        return {"l": [canon_p(x) for x in p["l"]]}
    if "t" in p:
        return {"t": [canon_p(x) for x in p["t"]]}
    if "d" in p or "od" in p:
        return {"d": {k: canon_p(v) for k, v in p.get("d", p.get("od")).items()}}
    if "s" in p:
        return {"s": [x for _, x in sorted({_sort_key(canon_p(x)): canon_p(x) for x in p["s"]}.items())]}
    if "dq" in p:
        return {"dq": [canon_p(x) for x in p["dq"]]}
    if "u" in p:
        return {"u": {k: canon_p(v) for k, v in p["u"].items()}}
    return p


def canon_kw(kw):
    return {k: canon_p(v) for k, v in kw.items()}


# data scalars that are not ints ("getters are arbitrary functions": a getter may return None for a missing particle,
# a flag, a float, an empty string, an exception object as a value ...): the code never looks at data, the model holds
# them as int codes beyond +-10^6 (Raw.int), like the opaque scalars of contexts
DATA_OPAQUE = dict(OPAQUE, **{"''": -1000004, "exc": 1000006})
_EXC = ValueError("missing")          # an exception object used as a VALUE (one object: exceptions compare by identity)
_DATA_OPAQUE_PY = dict(_OPAQUE_PY, **{"''": "", "exc": _EXC})
_DATA_OPAQUE_REV = {v: k for k, v in DATA_OPAQUE.items()}


def enc_data(o):
    """data: ints, scalars that are not ints (None, booleans, floats, '', an exception object), tuples (also the empty
    one), and dictionaries inside tuples (data that looks like a (data, context) pair)"""
    if isinstance(o, tuple):
        return [enc_data(x) for x in o]
    if isinstance(o, int) and not isinstance(o, bool):
        return o
    if isinstance(o, dict):
        return {"ctx": enc(o)}
    if o is None or isinstance(o, (bool, float)):
        r = repr(o)
        return {"o": r} if r in OPAQUE else {"obj": type(o).__name__ + ":" + r}
    if isinstance(o, str) and o == "":
        return {"o": "''"}
    if type(o) is ValueError and o.args == _EXC.args:
        return {"o": "exc"}
    return {"obj": type(o).__name__}


def dec_data(p):
    if isinstance(p, list):
        return tuple(dec_data(x) for x in p)
    if isinstance(p, dict):
        if "o" in p:
            return _DATA_OPAQUE_PY[p["o"]]
        return dec(p["ctx"])
    return p


def data_to_model(p, names):
    if isinstance(p, list):
        return [data_to_model(x, names) for x in p]
    if isinstance(p, dict):
        if "o" in p:
            return DATA_OPAQUE[p["o"]]
        return {"ctx": to_model(p["ctx"], names)}
    return p


def data_from_model(m, names):
    if isinstance(m, list):
        return [data_from_model(x, names) for x in m]
    if isinstance(m, dict):
        return {"ctx": from_model(m["ctx"], names)}
    if isinstance(m, int) and m in _DATA_OPAQUE_REV:
        return {"o": _DATA_OPAQUE_REV[m]}
    return m


def _data_strings(p, acc):
    if isinstance(p, list):
        for x in p:
            _data_strings(x, acc)
    elif isinstance(p, dict) and "ctx" in p:
        _strings(p["ctx"], acc)


def py_split(v):
    """Python reference of get_data_context on a case value: (data, context or None).  {"d":d,"c":c} is the tuple
    (d, c); {"d":d} is the raw value d, which is itself a (data, context) pair if it is a 2-tuple whose second element
    is a dictionary"""
    if v.get("c") is not None:
        return v["d"], v["c"]
    d = v["d"]
    if isinstance(d, list) and len(d) == 2 and isinstance(d[1], dict) and "ctx" in d[1]:
        return d[0], d[1]["ctx"]
    return d, None


def norm(v):
    d, c = py_split(v)
    return {"d": d, "c": c}


def _canon_val(v):
    """a value of a case with its context in the form `enc` gives the real objects (OrderedDict as a dictionary, ...)"""
    return {"d": v["d"], "c": None if v.get("c") is None else canon_p(v["c"])}


def _strings(p, acc):
    """all strings of an encoded value (keys and string values)"""
    if isinstance(p, str):
        acc.add(p)
    elif isinstance(p, dict):
        for kk in ("d", "od", "u"):
            if kk in p:
                for k, v in p[kk].items():
                    acc.add(k)
                    _strings(v, acc)
                return
        if "o" not in p:
            for x in p.get("l", p.get("t", p.get("s", p.get("dq", [])))):
                _strings(x, acc)


def _expr_strings(e, acc):
    if e["k"] == "other":
        return
    for k, v in e["kw"].items():
        acc.add(k)
        _strings(v, acc)
    if e["k"] == "var":
        _strings(e["name"], acc)
        _strings(e["type"], acc)
        g = e["getter"]
        if isinstance(g, dict):
            for lit in ([g["const"]] if "const" in g else []) + [x for pr in g.get("sw", []) for x in pr]:
                _data_strings(lit, acc)
    else:
        for a in e["args"]:
            _expr_strings(a, acc)


def alphabet(case):
    acc = set(RESERVED) | {"w"}        # "w": the key of the dictionary the getter fixture `pairw` returns
    for v in case.get("vals", []) + ([case["val"]] if "val" in case else []):
        _data_strings(v["d"], acc)
    if case.get("kind") == "tok":
        for e in _tok_exprs(case):
            _expr_strings(e, acc)
        if case.get("alias"):
            acc.add(case["alias"][0])
            acc.add(case["alias"][2])
        if case["val"].get("c") is not None:
            _strings(case["val"]["c"], acc)
        return sorted(acc)
    if case.get("kind") == "ctor":
        for e in case["args"]:
            _expr_strings(e, acc)
        return sorted(acc)
    if case.get("kind") == "attr":
        _expr_strings(case["expr"], acc)
        for o in case["ops"]:
            for k in ("get", "set", "vcset", "vcdel", "mut"):
                if k in o:
                    acc.add(o[k])
            if "v" in o:
                _strings(o["v"], acc)
            if "call" in o:
                _data_strings(o["call"]["d"], acc)
                if o["call"].get("c") is not None:
                    _strings(o["call"]["c"], acc)
        return sorted(acc)
    for e in case["chain"]:
        _expr_strings(e, acc)
    for v in case["vals"]:
        if v.get("c") is not None:
            _strings(v["c"], acc)
    return sorted(acc)


def to_model(p, names):
    """encoded value -> model JSON (dictionaries as slot arrays over names; sets, deques, user objects as tagged lists)"""
    if isinstance(p, (int, str)):
        return p
    if "o" in p:
        return OPAQUE[p["o"]]
    if "l" in p:
        return {"l": [to_model(x, names) for x in p["l"]]}
    if "t" in p:
        return {"t": [to_model(x, names) for x in p["t"]]}
    if "s" in p:
        return {"l": [TAG_SET] + [to_model(x, names) for x in canon_p(p)["s"]]}
    if "dq" in p:
        return {"l": [TAG_DEQUE] + [to_model(x, names) for x in p["dq"]]}
    if "u" in p:
        return {"l": [TAG_OBJ, to_model({"d": p["u"]}, names)]}
    d = p["d"] if "d" in p else p["od"]
    # a dictionary: only the keys present, as [key number, value], in the order of the alphabet
    return {"D": [[i, to_model(d[k], names)] for i, k in enumerate(names) if k in d]}


def from_model(m, names):
    if isinstance(m, int) and m in _OPAQUE_REV:
        return {"o": _OPAQUE_REV[m]}
    if isinstance(m, (int, str)):
        return m
    if isinstance(m, dict):
        if "D" in m:
            if any(i >= len(names) for i, _ in m["D"]):
                return {"bad-slots": max(i for i, _ in m["D"]) + 1}
            return {"d": {names[i]: from_model(x, names) for i, x in m["D"]}}
        if "l" in m:
            l = m["l"]
            if l and l[0] == TAG_SET:
                return {"s": [from_model(x, names) for x in l[1:]]}
            if l and l[0] == TAG_DEQUE:
                return {"dq": [from_model(x, names) for x in l[1:]]}
            if len(l) == 2 and l[0] == TAG_OBJ:
                return {"u": from_model(l[1], names).get("d", {})}
            return {"l": [from_model(x, names) for x in l]}
        return {"t": [from_model(x, names) for x in m["t"]]}
    if len(m) > len(names):
        return {"bad-slots": len(m)}
    return {"d": {names[i]: from_model(x, names) for i, x in enumerate(m) if x is not None}}


def expr_to_model(e, names):
    if e["k"] == "other":
        return {"k": "other"}
    kw = to_model({"d": e["kw"]}, names)
    if e["k"] == "var":
        g = e["getter"]
        if isinstance(g, dict) and "pairw" in g:
            g = {"pairw": g["pairw"], "k": names.index("w"), "n": len(names)}
        elif isinstance(g, dict) and "const" in g:
            g = {"const": data_to_model(g["const"], names)}
        elif isinstance(g, dict) and "sw" in g:
            g = dict(g, sw=[[data_to_model(a, names), data_to_model(b, names)] for a, b in g["sw"]])
        return {"k": "var", "name": to_model(e["name"], names), "getter": g, "type": to_model(e["type"], names),
                "kw": kw}
    return {"k": e["k"], "args": [expr_to_model(a, names) for a in e["args"]], "kw": kw}


# ---------------------------------------------------------------------------------------------
# the real code


class _NotAVariable:
    """an argument of Compose/Combine that is not a Variable"""

    def __call__(self, x):
        return x


def build(e, env=None, nodes=None, path="v"):
    """construct the real object of an expression (may raise); expressions that carry the same "id" are ONE object
    (`env` maps ids to the objects built so far): Sequence(v, v), Compose(v, w, v), Sequence(v, Compose(v, w)).
    `nodes` (a list) receives (path, object, encoding of its var_context right after ITS construction) for every
    Variable constructed, arguments before the Compose/Combine they are given to"""
    from lena.variables import Variable, Compose, Combine
    k = e["k"]
    if k == "other":
        return _NotAVariable()
    if env is not None and e.get("id") is not None and e["id"] in env:
        return env[e["id"]]
    kw = {key: dec(v) for key, v in e["kw"].items()}
    if k == "var":
        g = e["getter"]
        if g == "variable":
            getter = Variable("g", lambda x: x)
        elif g == "notcallable":
            getter = 5
        else:
            getter = _getter(g)
        obj = Variable(dec(e["name"]), getter, type=dec(e["type"]), **kw)
    else:
        args = [build(a, env, nodes, "%s.%d" % (path, i)) for i, a in enumerate(e["args"])]
        obj = (Compose if k == "compose" else Combine)(*args, **kw)
    if env is not None and e.get("id") is not None:
        env[e["id"]] = obj
    if nodes is not None:
        nodes.append((path, obj, enc(obj.var_context)))
    return obj


def _nodes_changed(nodes, top=()):
    """[path, var_context as constructed, var_context now] of the first constructed Variable (not one of `top`) whose
    var_context differs from what it was right after its construction, else None"""
    for path, obj, snap in nodes:
        if any(obj is t for t in top):
            continue
        try:
            now = enc(obj.var_context)
        except Exception as e:
            now = {"e": exc_name(e)}
        if now != snap:
            return [path, snap, now]
    return None


def _same(x, a):
    """is the datum `x` the scalar literal `a` (as a getter would test it: `x is None`, `x is False`, `x == 0` for an int,
    `x == ()` ...; an int is not a bool is not a float; nan is nan)"""
    if a is _EXC:
        return type(x) is ValueError and x.args == a.args
    if a is None or isinstance(a, bool):
        return x is a
    if isinstance(a, float):
        return type(x) is float and (x == a or (x != x and a != a))
    return type(x) is type(a) and x == a


def _getter(g):
    """the getter fixtures: {"tag":i}: x -> (i, x); {"pairw":i}: x -> (x, {"w": i}) (data that looks like a
    (data, context) pair); "first": x -> x[0] for a non-empty tuple, else x; {"const":d}: x -> d (whatever it is given:
    None, a falsy value, an empty tuple, nan, an exception object ...); {"sw":[[a,b]..]} / {"sw":[[a,b]..],"tag":i}:
    x -> b for the first pair whose scalar `a` x is, otherwise x -- the very object it was given -- resp. (i, x)
    (a getter that treats None, falsy values, () specially: `0. if part is None else ...`)"""
    if g == "first":
        return lambda x: x[0] if isinstance(x, tuple) and x else x
    if "pairw" in g:
        return lambda x, i=g["pairw"]: (x, {"w": i})
    if "const" in g:
        return lambda x, v=dec_data(g["const"]): v
    if "sw" in g:
        table = [(dec_data(a), dec_data(b)) for a, b in g["sw"]]
        tag = g.get("tag")

        def sw(x):
            for a, b in table:
                if _same(x, a):
                    return b
            return x if tag is None else (tag, x)
        return sw
    return (lambda x, i=g["tag"]: (i, x))


def _has_ctx(x):
    """Python reference of lena.flow._has_context"""
    return isinstance(x, tuple) and len(x) == 2 and isinstance(x[1], dict)


def _mkval(v):
    return dec_data(v["d"]) if v.get("c") is None else (dec_data(v["d"]), dec(v["c"]))


_SIZE_LIMIT = 20000


def _too_big(o, budget=None):
    """more than _SIZE_LIMIT nodes (lists, tuples, dicts and their items), counted with early exit"""
    budget = budget or [_SIZE_LIMIT]
    stack = [o]
    while stack:
        x = stack.pop()
        budget[0] -= 1
        if budget[0] < 0:
            return True
        if isinstance(x, dict):
            stack.extend(x.values())
        elif isinstance(x, (list, tuple)):
            stack.extend(x)
    return False


PROBE = "probe\u2620"


def _scramble(o, seen=None):
    """change, in place, every mutable object reachable from `o` (a context some application returned): what a later
    element of the analysis is free to do with the context of ITS value.  Nothing the variable owns may notice."""
    seen = set() if seen is None else seen
    stack = [o]
    while stack:
        x = stack.pop()
        if isinstance(x, tuple):
            stack.extend(x)
            continue
        if id(x) in seen:
            continue
        if isinstance(x, dict):
            seen.add(id(x))
            stack.extend(list(x.values()))
            x[PROBE] = 1
        elif isinstance(x, list):
            seen.add(id(x))
            stack.extend(x)
            x.append(PROBE)
        elif isinstance(x, set):
            seen.add(id(x))
            x.add(PROBE)
        elif isinstance(x, collections.deque):
            seen.add(id(x))
            stack.extend(list(x))
            x.append(PROBE)
        elif isinstance(x, _Obj):
            seen.add(id(x))
            stack.extend(list(x.__dict__.values()))
            setattr(x, "probe", 1)


def _enc_result(r):
    if _too_big(r):
        return {"bad": "the result has more than %d nodes" % _SIZE_LIMIT}
    if isinstance(r, tuple) and len(r) == 2:
        return {"d": enc_data(r[0]), "c": enc(r[1])}
    return {"bad": enc(r)}


class _Watch:
    """the var_contexts of a list of Variable objects, watched for changes of their VALUE (compared with deep copies;
    encoded only when a change has to be reported)"""

    def __init__(self, objs):
        self.objs = objs
        self.snap = [copy.deepcopy(o.var_context) for o in objs]

    def changed(self):
        try:
            return any(o.var_context != s for o, s in zip(self.objs, self.snap))
        except Exception:
            return True

    def report(self):
        """[var_context before, var_context now] of the first variable that changed"""
        for o, s in zip(self.objs, self.snap):
            a, b = enc(s), enc(o.var_context)
            if a != b:
                return [a, b]
        return [None, None]


def _apply(fn, vals, watch):
    """apply fn twice to fresh copies of every value; record the result and the input's context afterwards.  After a
    result has been recorded, every mutable object of the returned context is changed in place (`_scramble`).
    `watch` (_Watch) holds the variables' var_contexts: the first time one differs from its initial value the case is
    abandoned (the oracle reports the changed var_context) -- a variable that shares its var_context with the contexts
    it produces can grow exponentially under repeated application.
    Returns (outs, probe): probe = [var_context before, after] if it was the change of a RETURNED context that changed
    a var_context."""
    outs = []
    for v in vals:
        reps = []
        outs.append(reps)
        for _ in range(2):
            x = _mkval(v)
            r = None
            try:
                r = fn(x)
                o = _enc_result(r)
            except Exception as e:
                o = {"e": exc_name(e)}
            if _has_ctx(x):
                o["in_after"] = enc(x[1])
            reps.append(o)
            # a variable that keeps state between calls can grow exponentially: stop at the first sign
            if "bad" in o or watch.changed() or (len(reps) == 2 and _strip(reps[0]) != _strip(reps[1])):
                return outs, None
            if isinstance(r, tuple) and len(r) == 2:
                _scramble(r[1])
                if watch.changed():
                    return outs, watch.report()
    return outs, None


def _flow(seq_args, vals, watch):
    """lena.core.Sequence(*seq_args).run(flow) on a flow of SEVERAL values (every value of the case twice, fresh
    copies), consumed one value at a time; every result is recorded when it arrives and its context is then changed in
    place (`_scramble`) before the next value is asked for.  Returns the list of results (an exception ends the flow)."""
    import lena.core
    out = []
    try:
        seq = lena.core.Sequence(*seq_args)
        flow = [_mkval(v) for v in vals for _ in range(2)]
        for r in seq.run(iter(flow)):
            o = _enc_result(r)
            out.append(o)
            if "bad" in o or len(out) > len(flow):
                break
            if isinstance(r, tuple) and len(r) == 2:
                _scramble(r[1])
            if watch.changed():
                out.append({"vc_changed": watch.report()})
                break
        else:
            if len(out) == len(flow) and vals:
                # the same Sequence object run a second time, on a flow of one value
                for r in seq.run([_mkval(vals[0])]):
                    out.append(_enc_result(r))
    except Exception as e:
        out.append({"e": exc_name(e)})
    return out


def _seq_fn(vars_):
    import lena.core

    def fn(x):
        res = list(lena.core.Sequence(*vars_).run([x]))
        if len(res) != 1:
            raise RuntimeError("Sequence yielded %d values for one" % len(res))
        return res[0]
    return fn


def _chain_run_impl(case):
    res = {"fx": detect_fx(), "nk": detect_nk()}
    # the variables in a Sequence
    nodes = []
    try:
        env = {}
        vars_ = [build(e, env, nodes, "v%d" % i) for i, e in enumerate(case["chain"])]
    except Exception as e:
        res["S"] = {"e": exc_name(e), "phase": "init"}
        vars_ = None
    if vars_ is not None:
        before = [enc(v.var_context) for v in vars_]
        names = []
        for v in vars_:
            try:
                names.append(enc(v.name))
            except Exception as e:
                names.append({"e": exc_name(e)})
        watch = _Watch([o for _, o, _ in nodes])
        outs, probe = _apply(_seq_fn(vars_), case["vals"], watch)
        res["S"] = {"vcs": before, "outs": outs, "vcs_after": [enc(v.var_context) for v in vars_], "names": names}
        if probe:
            res["S"]["probe"] = probe
        ch = _nodes_changed(nodes)
        if ch:
            res["S"]["node_changed"] = ch
        elif not probe and res["S"]["vcs_after"] == before:
            res["S"]["flow"] = _flow(vars_, case["vals"], watch)
    # Compose of (fresh copies of) the same variables
    cargs, args_before, args_init = None, None, None
    nodes = []
    try:
        from lena.variables import Compose
        env = {}
        cargs = [build(e, env, nodes, "v%d" % i) for i, e in enumerate(case["chain"])]
        args_before = [enc(a.var_context) for a in cargs]
        comp = Compose(*cargs)
        args_init = [enc(a.var_context) for a in cargs]
    except Exception as e:
        res["C"] = {"e": exc_name(e), "phase": "init"}
        comp = None
    if comp is not None:
        before = enc(comp.var_context)
        try:
            nm = enc(comp.name)
        except Exception as e:
            nm = {"e": exc_name(e)}
        watch = _Watch([comp] + [o for _, o, _ in nodes])
        outs, probe = _apply(comp, case["vals"], watch)
        res["C"] = {"vcs": [before], "outs": outs, "vcs_after": [enc(comp.var_context)], "names": [nm],
                    "args": [args_before, args_init, [enc(a.var_context) for a in cargs]]}
        if probe:
            res["C"]["probe"] = probe
        ch = _nodes_changed(nodes)
        if ch:
            res["C"]["node_changed"] = ch
        elif not probe and res["C"]["vcs_after"] == [before]:
            # the Compose as the only element of a Sequence, on a flow
            res["C"]["flow"] = _flow([comp], case["vals"], watch)
    return res


_FX = None


def detect_fx():
    """Which condition does `_update_context` of the tree under test implement (line 196)?  One fixed input: an untyped
    variable applied to a value whose context.variable has `compose` but no `type`.  True = the history is continued
    (notes/C14_defect_1.patch), False = it is dropped (pinned)."""
    global _FX
    if _FX is None:
        try:
            from lena.variables import Variable
            ctx = {"variable": {"name": "z", "compose": ["t0"], "t0": {"name": "y"}}}
            out = Variable("v", lambda x: x)((0, ctx))
            _FX = "compose" in out[1].get("variable", {})
        except Exception:
            _FX = False
    return _FX


_NK = None


def detect_nk():
    """Does `Compose` of the tree under test honour its documented keyword `name` (notes/C14_defect_2.patch)?"""
    global _NK
    if _NK is None:
        try:
            from lena.variables import Variable, Compose
            _NK = Compose(Variable("a", lambda x: x), name="zz").var_context.get("name") == "zz"
        except Exception:
            _NK = False
    return _NK


# ---------------------------------------------------------------------------------------------
# model side


def _chain_model_requests(case):
    names = alphabet(case)
    vals = [{"d": data_to_model(v["d"], names), "c": None if v.get("c") is None else to_model(v["c"], names)}
            for v in case["vals"]]
    chain = [expr_to_model(e, names) for e in case["chain"]]
    # one request, two replies: "S" the variables one after the other (with the specification side), "C" their Compose
    return [{"op": "run", "names": names, "fx": detect_fx(), "nk": detect_nk(), "spec": True, "both": True, "flow": True,
             "exprs": chain, "vals": vals}]


def _model_out(m, names):
    if "e" in m:
        return {"e": m["e"]}
    return {"d": data_from_model(m["d"], names), "c": from_model(m["c"], names)}


def _strip(o):
    return {k: v for k, v in o.items() if k != "in_after"}


def _chain_compare(case, res, replies):
    names = alphabet(case)
    if "err" in replies[0]:
        return f"model driver error: {replies[0]['err']}"
    for which in ("S", "C"):
        r, m = res[which], replies[0][which]
        if "err" in m:
            return f"model driver error ({which}): {m['err']}"
        if "e" in m or "e" in r:
            if m.get("e") != r.get("e") or m.get("phase") != r.get("phase"):
                return f"{which}: construction: impl {r if 'e' in r else 'ok'} vs model {m if 'e' in m else 'ok'}"
            continue
        if which == "S":
            msg = _spec_side(case, r, m, names)
            if msg:
                return msg
        mv = [from_model(x, names) for x in m["vcs"]]
        if mv != r["vcs"]:
            return f"{which}: var_context: impl {r['vcs']} vs model {mv}"
        for i, (reps, mo) in enumerate(zip(r["outs"], m["outs"])):
            mo = _model_out(mo, names)
            if _strip(reps[0]) != mo:
                return f"{which}: value {case['vals'][i]}: impl {_strip(reps[0])} vs model {mo}"
        if "flow" in r and "flow" in m:
            # Sequence(...).run(flow) on the flow that holds every value twice vs Lean `seqRun`; the driver reports a
            # result that equals `outs[i]` (compared with the implementation above) as the number i
            for k, mo in enumerate(m["flow"]):
                g = r["flow"][k] if k < len(r["flow"]) else None
                if isinstance(mo, int):
                    if g != _strip(r["outs"][mo][0]):
                        return (f"{which}: flow, value number {k}: impl {g} vs model seqRun = the result for the value "
                                f"alone, {_strip(r['outs'][mo][0])}")
                elif g != _model_out(mo, names):
                    return f"{which}: flow, value number {k}: impl {g} vs model seqRun {_model_out(mo, names)}"
    return None


def ref_types(e):
    """the types an expression contributes to `compose` (Python reference of Lean `exprTypes`)"""
    if e["k"] == "var":
        return [e["type"]] if _is_type(e["type"]) else []
    if e["k"] == "compose":
        return [t for a in e["args"] for t in ref_types(a)]
    if e["k"] == "combine":
        t = e["kw"].get("type", "")
        return [t] if _is_type(t) else []
    return []


def _spec_side(case, r, m, names):
    """The specification-side Lean definitions (hypotheses as Boolean checks, `composeData`, `chainData`, `argsTypes`,
    the fold of `UP` of `seqCall_result`, `Leaf.ctx`) against the real code / independent Python references."""
    chain, vals = case["chain"], [norm(v) for v in case["vals"]]
    wf = spec_wf(case)
    if wf and not (m.get("namesok") and all(m.get("wf", [False])) and all(m.get("cok", [False]))):
        return (f"the case is well-formed by the harness's rule (spec_wf) but outside the hypotheses of the Lean theorems: "
                f"NamesOK={m.get('namesok')} ChainWF per value={m.get('wf')} chainOKb per value={m.get('cok')}")
    if any(m.get("cok", [])) and not wf and not case.get("wild"):
        pass    # chainOKb may accept more than spec_wf; nothing to compare
    if [from_model(t, names) for t in m["stypes"]] != ref_types({"k": "compose", "args": chain, "kw": {}}):
        return f"Lean argsTypes {m['stypes']} differs from the Python reference {ref_types({'k': 'compose', 'args': chain, 'kw': {}})}"
    plain = all(l["getter"] not in ("variable", "notcallable") for e in chain for l in _leaves(e)) and \
        all(x["k"] != "other" for e in chain for x in _all_exprs(e))
    for i, (v, reps) in enumerate(zip(vals, r["outs"])):
        o = reps[0]
        sdata, cdata = data_from_model(m["sdata"][i], names), data_from_model(m["cdata"][i], names)
        if plain:
            x = dec_data(v["d"])
            for e in chain:
                x = ref_data(e, x)
            if sdata != enc_data(x):
                return f"Lean composeData {sdata} differs from the Python reference {enc_data(x)} on {v}"
        if "d" in o and (cdata != o["d"] or (plain and sdata != o["d"])):
            return f"value {v}: impl data {o['d']} vs Lean chainData {m['cdata'][i]} / composeData {m['sdata'][i]}"
        if m["sup"][i] is not None and "c" in o:
            sup = from_model(m["sup"][i], names)
            var = o["c"]["d"].get("variable") if "d" in o["c"] else None
            if sup != var:
                return f"value {v}: impl context.variable {var} vs the fold of UP (seqCall_result) {sup}"
    leaves_only = all(e["k"] == "var" for e in chain)
    if leaves_only and wf and all(_is_type(e["type"]) for e in chain) and len(set(e["type"] for e in chain)) == len(chain) \
            and not m.get("lok"):
        return "a chain of plain variables with distinct types (spec_wf) is outside the hypothesis LeavesOK (leavesOKb false)"
    if m.get("lok"):
        lctx = [from_model(x, names) for x in m["lctx"]]
        if lctx != r["vcs"]:
            return f"var_context of the plain variables: impl {r['vcs']} vs Lean Leaf.ctx {lctx}"
    return None


# ---------------------------------------------------------------------------------------------
# the property's statement on the real code


def ref_data(e, x):
    """vn.getter(...v1.getter(x)...) / the tuple of the getters' results, from the specification alone (on real Python
    data)"""
    if e["k"] == "var":
        return _getter(e["getter"])(x)
    if e["k"] == "compose":
        for a in e["args"]:
            x = ref_data(a, x)
        return x
    return tuple(ref_data(a, x) for a in e["args"])


def _leaves(e):
    if e["k"] == "var":
        yield e
    elif e["k"] != "other":
        for a in e["args"]:
            yield from _leaves(a)


def _all_exprs(e):
    yield e
    if e["k"] in ("compose", "combine"):
        for a in e["args"]:
            yield from _all_exprs(a)


def _is_type(p):
    return isinstance(p, str) and p != ""


def _hist_of(c):
    """composition history of an encoded context.variable of a well-formed input value"""
    if not (isinstance(c, dict) and "d" in c):
        return []
    var = c["d"].get("variable")
    if not (isinstance(var, dict) and "d" in var):
        return []
    d = var["d"]
    if "compose" in d:
        return list(d["compose"]["l"])
    if "type" in d:
        return [d["type"]]
    return []


def _spec(case):
    """(in_scope, clash, structural): `in_scope` = the case is inside the property's quantifier, decided on the
    specification alone: well-formed constructor calls; types are non-empty strings that are not reserved words; no
    attribute named name/type/getter/compose (except name/type keywords of Compose/Combine) and no `dim`/`combine`
    keyword of a Combine; `structural` = some attribute of a plain variable or a Compose is named `dim`, `combine` or
    `variable` (legitimate attribute names -- "arbitrary extra attributes" -- but outside the Boolean hypotheses of the
    Lean theorems about expressions, `kwOKb`); a pre-existing context.variable is absent or a
    dictionary whose `compose` (if any) is a non-empty list of such type strings and whose `type` (if any) is one.
    `clash` = some attribute (of a variable of the chain, or of the pre-existing context.variable) is named like a type
    of the case: outside the hypotheses of the Lean theorems (`NoClash`), but inside the property ("arbitrary extra
    attributes")."""
    if case.get("wild") or _kind(case) != "chain":
        return False, False, False
    attrs, types, structural = set(), set(), False
    for e0 in case["chain"]:
        for e in _all_exprs(e0):
            if e["k"] == "other":
                return False, False, False
            kw = dict(e["kw"])
            if e["k"] == "var":
                if e["getter"] in ("variable", "notcallable") or not isinstance(e["name"], str):
                    return False, False, False
                if e["type"] != "":
                    if not _is_type(e["type"]):
                        return False, False, False
                    types.add(e["type"])
            else:
                if not e["args"]:
                    return False, False, False
                if "name" in kw and not isinstance(kw.pop("name"), str):
                    return False, False, False
                if e["k"] == "combine":
                    if "type" in kw:
                        t = kw.pop("type")
                        if not _is_type(t):
                            return False, False, False
                        types.add(t)
            # lena's own keys as names of a user's attributes: `dim` and `combine` are set by Combine only (there they
            # are not the user's: `dim` is refused, `combine` overwritten), `variable` by nobody; `name`, `type`, `getter`
            # are parameters of the constructors, `compose` is the key the statement itself speaks about
            free = ("variable",) if e["k"] == "combine" else STRUCTURE_ATTRS
            if set(kw) & (set(RESERVED) - set(free)):
                return False, False, False
            if set(kw) & set(RESERVED):
                structural = True
            attrs |= set(kw)
    for v in case["vals"]:
        c = norm(v)["c"]
        if c is None:
            continue
        if "d" not in c:
            return False, False, False
        var = c["d"].get("variable")
        if var is None:
            continue
        if not (isinstance(var, dict) and "d" in var):
            return False, False, False
        d = var["d"]
        if "compose" in d:
            cl = d["compose"]
            if not (isinstance(cl, dict) and "l" in cl and cl["l"] and all(_is_type(t) for t in cl["l"])):
                return False, False, False
        if "type" in d and not _is_type(d["type"]):
            return False, False, False
        hist = set(_hist_of(c))
        types |= hist
        attrs |= set(k for k in d if k not in hist and k not in ("name", "type", "compose"))
    if types & set(RESERVED):
        return False, False, False
    return True, bool(types & attrs), structural


def spec_wf(case):
    """inside the property's quantifier AND inside the hypotheses of the Lean theorems (no attribute named like a type)"""
    ok, clash, structural = _spec(case)
    return ok and not clash and not structural


def spec_scope(case):
    """inside the property's quantifier (attributes may be named like types)"""
    return _spec(case)[0]


def _var_of(o):
    c = o.get("c")
    if isinstance(c, dict) and "d" in c:
        v = c["d"].get("variable")
        if isinstance(v, dict) and "d" in v:
            return v["d"]
    return None


def _flat_leaf_chain(chain):
    """the leaves of a chain in application order if the chain is built from leaves and Compose only, else None"""
    out = []
    for e in chain:
        if e["k"] == "var":
            out.append(e)
        elif e["k"] == "compose" and not e["kw"]:
            sub = _flat_leaf_chain(e["args"])
            if sub is None:
                return None
            out.extend(sub)
        else:
            return None
    return out


def _flow_check(which, r, vals):
    """`Sequence(...).run(flow)` on a flow that holds every value of the case twice: result number k must be what the
    same value gives when it is applied alone (repeated application to equal values gives equal results; with
    sentence 1, which is evaluated on the single applications: Compose and Sequence agree on every value of a flow)"""
    exp = []
    for reps in r["outs"]:
        if not reps:
            break
        o = _strip(reps[0])
        if "e" in o or "bad" in o:
            exp.append(o)
            break
        exp += [o, o]
    else:
        if exp and r["outs"] and len(exp) == 2 * len(r["outs"]):
            exp.append(exp[0])      # the second run of the same Sequence object, on the first value
    flow = r["flow"]
    for k, w in enumerate(exp):
        v = vals[k // 2] if k // 2 < len(vals) else vals[0]
        if k >= len(flow):
            return f"{which} on a flow of {len(exp)} values yields only {len(flow)} results"
        g = flow[k]
        if "vc_changed" in g:
            a, b = g["vc_changed"]
            return (f"{which} on a flow: after value number {k} (its context was then changed by the consumer) the "
                    f"var_context of a variable changed: {a} -> {b}")
        if "e" in w:
            if g.get("e") != w["e"]:
                return f"{which} on a flow: value number {k} ({v}) gives {g}, applied alone it raises {w['e']}"
            return None
        if "bad" in w:
            return None
        if g != w:
            return (f"{which} on a flow of several values: value number {k} ({v}) gives {str(g)[:600]}, the same value "
                    f"applied alone gives {str(w)[:600]}")
    if len(flow) > len(exp):
        g = flow[len(exp)]
        if "vc_changed" in g:
            a, b = g["vc_changed"]
            return f"{which} on a flow: the var_context of a variable changed: {a} -> {b}"
        return f"{which} on a flow of {len(exp)} values yields more results: {str(g)[:300]}"
    return None


def _chain_oracle(case, res):
    scope, clash, _ = _spec(case)    # scope: inside the property's quantifier (attributes may be named like types)
    wf = scope and not clash         # ... and no attribute named like a type (attributes named dim/combine/variable are fine)
    S, C = res["S"], res["C"]
    chain, vals = case["chain"], [_canon_val(norm(v)) for v in case["vals"]]     # data / context by the Python reference of _has_context
    if scope:
        for which, r in (("Sequence", S), ("Compose", C)):
            if "e" in r:
                return f"constructing the variables of a well-formed chain ({which}) raised {r['e']}"
    # ---- per variant: data, name and attributes, frame, repetition, var_context unchanged -------------------
    for which, r in (("Sequence", S), ("Compose", C)):
        if "e" in r:
            continue
        if r["vcs_after"] != r["vcs"]:
            return f"{which}: applying the variables changed a var_context: {r['vcs']} -> {r['vcs_after']}"
        if "args" in r and not (r["args"][0] == r["args"][1] == r["args"][2]):
            when = "constructing" if r["args"][0] != r["args"][1] else "applying"
            return (f"{when} Compose(v1..vn) changed the var_context of one of the variables v1..vn: "
                    f"{r['args'][0]} -> {r['args'][1]} -> {r['args'][2]}")
        if r.get("node_changed"):
            path, a, b = r["node_changed"]
            return (f"{which}: constructing or applying the variables changed the var_context of the variable at {path} "
                    f"(an argument of a Compose/Combine keeps its own description): {a} -> {b}")
        if r.get("probe"):
            a, b = r["probe"]
            return (f"{which}: changing the context an application RETURNED changed the var_context of a variable (the "
                    f"variable shares mutable objects with the contexts it produces): {a} -> {b}")
        last_vc, last_name = r["vcs"][-1]["d"], r["names"][-1]
        for v, reps in zip(vals, r["outs"]):
            if any("bad" in o and isinstance(o["bad"], str) for o in reps):
                return f"{which} applied to {v}: {[o['bad'] for o in reps if 'bad' in o][0]}"
            if len(reps) == 2 and _strip(reps[0]) != _strip(reps[1]):
                return (f"{which}: two applications to equal values {v} give different results: "
                        f"{str(_strip(reps[0]))[:600]} / {str(_strip(reps[1]))[:600]}")
            o = reps[0]
            if "e" in o or "bad" in o:
                if scope:
                    return f"{which} applied to {v} gives {o}"
                continue
            # same data as vn.getter(...v1.getter(x)...)
            x = dec_data(v["d"])
            for e in chain:
                x = ref_data(e, x)
            if o["d"] != enc_data(x):
                return f"{which} on {v}: data {o['d']} but the getters applied in order give {enc_data(x)}"
            # nothing of the value's context changes except context.variable (output and the input object)
            cin = {} if v.get("c") is None else v["c"]["d"]
            for label, cout in (("result", o["c"]), ("the input value's context", o.get("in_after"))):
                if cout is None:
                    continue
                if "d" not in cout:
                    return f"{which} on {v}: {label} is {cout}"
                a = {k: w for k, w in cin.items() if k != "variable"}
                b = {k: w for k, w in cout["d"].items() if k != "variable"}
                if a != b:
                    return f"{which} on {v}: {label} differs outside context.variable: {a} -> {b}"
            # context.variable carries the name and the attributes of the resulting variable
            var = _var_of(o)
            if var is None:
                return f"{which} on {v}: no dictionary context.variable in {o['c']}"
            if isinstance(last_name, (int, str)) and var.get("name") != last_name:
                return f"{which} on {v}: context.variable.name {var.get('name')!r}, the variable's name is {last_name!r}"
            if wf:
                for k, w in last_vc.items():
                    if k == "compose":
                        cl = var.get("compose")
                        tail = w["l"]
                        if not (isinstance(cl, dict) and "l" in cl and cl["l"][len(cl["l"]) - len(tail):] == tail):
                            return f"{which} on {v}: compose {cl} does not end with the variable's own compose {tail}"
                    elif var.get(k) != w:
                        return (f"{which} on {v}: attribute {k!r} of the resulting variable is {w} but "
                                f"context.variable has {var.get(k)}")
    # ---- a flow of several values through lena.core.Sequence: every value as if it were applied alone --------------
    for which, r in (("Sequence", S), ("Compose as the element of a Sequence", C)):
        if "e" in r or "flow" not in r:
            continue
        msg = _flow_check(which, r, vals)
        if msg:
            return msg
    if "e" in S or "e" in C:
        return None
    # ---- leaf variables carry the name and attributes they were given ----------------------------------------
    if wf:
        for e, vc in zip(chain, S["vcs"]):
            if e["k"] == "var":
                want = canon_kw(dict(e["kw"], name=e["name"]))
                got = vc["d"]
                for k, w in want.items():
                    if got.get(k) != w:
                        return f"Variable({e['name']!r}, type={e['type']!r}, **{e['kw']}).var_context[{k!r}] is {got.get(k)}"
    # ---- the keyword arguments of Compose / Combine are attributes of the resulting variable (`name` of Combine too) --
    if wf:
        for e, vc, nm in zip(chain, S["vcs"], S["names"]):
            if e["k"] in ("compose", "combine"):
                for k, w in canon_kw(e["kw"]).items():
                    if k == "name":
                        if e["k"] == "combine" and nm != w:
                            return f"Combine(..., name={w!r}) has the name {nm!r}"
                    elif vc["d"].get(k) != w:
                        return (f"{e['k'].capitalize()}(..., {k}={w}): attribute {k!r} of the resulting variable is "
                                f"{vc['d'].get(k)}")
    # ---- Compose(v1..vn) and the Sequence (v1..vn) give the same data and context ----------------------------
    if scope:
        for v, rs, rc in zip(vals, S["outs"], C["outs"]):
            if _strip(rs[0]) != _strip(rc[0]):
                return (f"Compose and Sequence of the same {len(chain)} variables differ on {v}: "
                        f"Compose {_strip(rc[0])}, Sequence {_strip(rs[0])}")
    # ---- distinct non-empty types: every type sub-context persists, compose lists the types in order -----------
    if scope:
        leaves = _flat_leaf_chain(chain)
        if leaves is not None and all(l["type"] != "" for l in leaves):
            types = [l["type"] for l in leaves]
            for v, rs, rc in zip(vals, S["outs"], C["outs"]):
                hist = _hist_of(v.get("c"))
                allt = hist + types
                if len(set(allt)) != len(allt):
                    continue
                pre = _var_of({"c": v.get("c")}) or {}
                for which, o in (("Sequence", rs[0]), ("Compose", rc[0])):
                    var = _var_of(o)
                    for l in leaves:
                        want = {"d": canon_kw(dict(l["kw"], name=l["name"]))}
                        if var.get(l["type"]) != want:
                            return (f"{which} on {v}: attributes of the variable of type {l['type']!r} are "
                                    f"{var.get(l['type'])}, expected {want}")
                    for t in hist:
                        if t in pre and var.get(t) != pre[t]:
                            return f"{which} on {v}: sub-context of the earlier type {t!r} is {var.get(t)}, was {pre[t]}"
                    if len(allt) >= 2 or "compose" in var:
                        if var.get("compose") != {"l": allt}:
                            return f"{which} on {v}: compose is {var.get('compose')}, types in application order are {allt}"
                    if var.get("type") != types[-1]:
                        return f"{which} on {v}: type is {var.get('type')}, the last variable has type {types[-1]!r}"
    # ---- ... for EVERY typed element of the chain (a plain variable or a Combine with a type, between whatever other
    # variables): all the attributes the variable has (its public var_context: name, keywords, and for a Combine `dim`
    # and `combine`) are available under its type, whatever their names
    if wf:
        types = ref_types({"k": "compose", "args": chain, "kw": {}})
        for v, rs, rc in zip(vals, S["outs"], C["outs"]):
            allt = _hist_of(v.get("c")) + types
            if len(set(allt)) != len(allt):
                continue
            for e, vc in zip(chain, S["vcs"]):
                ty = e["type"] if e["k"] == "var" else e["kw"].get("type", "") if e["k"] == "combine" else ""
                if not _is_type(ty):
                    continue
                want = {"d": {k: w for k, w in vc["d"].items() if k not in ("type", ty)}}
                for which, o in (("Sequence", rs[0]), ("Compose", rc[0])):
                    var = _var_of(o)
                    if var is None or var.get(ty) != want:
                        return (f"{which} on {v}: attributes of the variable of type {ty!r} are "
                                f"{None if var is None else var.get(ty)}, the variable has {want}")
    return None


# ---------------------------------------------------------------------------------------------
# generation

ATTR = ["a", "b", "u", "latex_name", "unit", "range", "x_1", "Q2"]     # incl. the documented attribute names
TYPES = ["ta", "tb", "tc", "td", "te", "tf", "tg"]
PRETYPES = ["p0", "p1", "p2"]
NAMES = ["", "x y", "v1", "0", "_", "E_{kin}"]     # names a variable / a Combine may be given, besides v<i>


def _leaf(i, ty, kw=None):
    return {"k": "var", "name": "v%d" % i, "getter": {"tag": i}, "type": ty, "kw": kw or {}}


def _sub(name, kw=None):
    return {"d": dict(kw or {}, name=name)}


def _pre_vals(shared="ta"):
    """the input values of the exhaustive part"""
    typed = {"d": {"name": "z", "u": 7, "type": "p0", "p0": _sub("z", {"u": 7})}}
    composed = {"d": {"name": "z", "type": "p1", "p1": _sub("z"), "compose": {"l": ["p0", "p1"]}, "p0": _sub("y", {"a": 1})}}
    typed_untyped = {"d": {"name": "w", "compose": {"l": ["p0"]}, "p0": _sub("z")}}
    clash = {"d": {"name": "z", "type": shared, shared: _sub("z"), "compose": {"l": ["p0", shared]}, "p0": _sub("y")}}
    return [
        {"d": 5, "c": None},
        {"d": 5, "c": {"d": {"x": 1, "y": {"d": {"a": {"l": [1, 2]}}}}}},
        {"d": 5, "c": {"d": {"variable": {"d": {"name": "z", "a": 3}}}}},
        {"d": 5, "c": {"d": {"x": 1, "variable": typed}}},
        {"d": 5, "c": {"d": {"variable": composed}}},
        {"d": 5, "c": {"d": {"variable": typed_untyped, "x": {"d": {}}}}},
        {"d": 5, "c": {"d": {"variable": clash}}},
    ]


def _rand_hashable(rng):
    r = rng.random()
    if r < 0.5:
        return rng.randint(0, 3)
    if r < 0.8:
        return rng.choice(["mu", "e", "s"])
    return {"t": [rng.randint(0, 3) for _ in range(rng.randint(0, 2))]}


def _rand_value(rng, depth=0, keys=ATTR):
    r = rng.random()
    if r < 0.27:
        return rng.randint(0, 3)
    if r < 0.38:
        # None, booleans, floats (also nan/inf), kept apart from ints
        return {"o": rng.choice(list(OPAQUE))}
    if r < 0.52:
        return rng.choice(["", "s", "mm", "e^+"])
    if r < 0.64:
        return {"l": [_rand_value(rng, depth + 1, keys) for _ in range(rng.randint(0, 2))]}
    if r < 0.72:
        return {"t": [_rand_value(rng, depth + 1, keys) for _ in range(rng.randint(0, 2))]}
    if r < 0.84:
        # mutable values that are neither list nor dict: a set, a deque, an OrderedDict, a user object
        q = rng.random()
        if q < 0.4:
            return canon_p({"s": [_rand_hashable(rng) for _ in range(rng.randint(0, 3))]})
        if q < 0.6:
            return {"dq": [_rand_value(rng, depth + 1, keys) for _ in range(rng.randint(0, 2))]}
        if depth < 2:
            kk = "od" if q < 0.8 else "u"
            return {kk: {rng.choice(keys): _rand_value(rng, depth + 1, keys) for _ in range(rng.randint(0, 2))}}
        return {"s": []}
    if depth < 2:
        return {"d": {rng.choice(keys): _rand_value(rng, depth + 1, keys) for _ in range(rng.randint(0, 2))}}
    return 1


# data scalars a getter may return / be given: None (a missing value), falsy values of every type, the empty tuple, nan,
# an exception object, and a few truthy ones
DATA_SCALARS = [{"o": "None"}, {"o": "False"}, 0, {"o": "0.0"}, {"o": "''"}, [], {"o": "nan"}, {"o": "exc"},
                {"o": "True"}, 1, {"o": "1.5"}]


def _rand_scalar(rng):
    return {"o": "None"} if rng.random() < 0.3 else rng.choice(DATA_SCALARS)


def _rand_getter(rng, i):
    r = rng.random()
    if r < 0.56:
        return {"tag": i}
    if r < 0.66:
        return {"pairw": i}        # returns data that looks like a (data, context) pair
    if r < 0.72:
        return "first"
    if r < 0.84:
        return {"const": _rand_scalar(rng)}      # None / a falsy value / () / nan ... whatever it is given
    # treats some scalars specially (`0. if part is None else ...`), otherwise returns what it was given or (i, x)
    g = {"sw": [[_rand_scalar(rng), rng.choice(DATA_SCALARS + [[7, 8]])] for _ in range(rng.randint(0, 2))]}
    if rng.random() < 0.5:
        g["tag"] = i
    return g


def _rand_data(rng):
    """input data: mostly an int; sometimes a tuple, sometimes a tuple that looks like a (data, context) pair, sometimes
    None / a falsy value / () / nan"""
    r = rng.random()
    if r < 0.6:
        return rng.randint(0, 9)
    if r < 0.72:
        return _rand_scalar(rng)
    if r < 0.8:
        return [rng.randint(0, 9), rng.randint(0, 9)]
    if r < 0.9:
        return [rng.randint(0, 9), {"ctx": {"d": {"w": rng.randint(0, 3)}}}]
    return [[rng.randint(0, 9), {"ctx": {"d": {}}}], rng.randint(0, 3)]


def _rand_kw(rng, keys=ATTR, pmax=2):
    return {k: _rand_value(rng) for k in rng.sample(keys, rng.randint(0, min(pmax, len(keys))))}


class _Gen:
    def __init__(self, rng):
        self.rng = rng
        self.n = 0

    def leaf(self, types):
        self.n += 1
        rng = self.rng
        ty = "" if rng.random() < 0.25 else rng.choice(types)
        kw = _rand_kw(rng)
        if rng.random() < 0.05:
            # "arbitrary extra attributes": one that happens to be called like a type (notes/C14_defect_3.md)
            kw[rng.choice(TYPES[:3] + PRETYPES)] = _rand_value(rng)
        if rng.random() < 0.06:
            # ... or like one of lena's own keys (`dim`, `combine` are set by Combine only, `variable` by nobody)
            kw[rng.choice(STRUCTURE_ATTRS)] = _rand_value(rng)
        l = dict(_leaf(self.n, ty, kw), getter=_rand_getter(rng, self.n))
        if rng.random() < 0.06:
            # names are arbitrary strings: empty, not an identifier, equal to another variable's
            l["name"] = rng.choice(NAMES)
        return l

    def expr(self, types, depth=0):
        rng = self.rng
        r = rng.random()
        if depth >= 2 or r < 0.62:
            return self.leaf(types)
        args = [self.expr(types, depth + 1) for _ in range(rng.randint(1, 3 if depth else 4))]
        if r < 0.8:
            kw = _rand_kw(rng, pmax=1) if rng.random() < 0.3 else {}
            if rng.random() < 0.05:
                kw[rng.choice(STRUCTURE_ATTRS)] = _rand_value(rng)
            return {"k": "compose", "args": args, "kw": kw}
        kw = _rand_kw(rng, pmax=1) if rng.random() < 0.3 else {}
        if rng.random() < 0.35:
            kw["name"] = rng.choice(["xy", "c"] + NAMES)
        if rng.random() < 0.3:
            kw["type"] = rng.choice(types)
        return {"k": "combine", "args": args, "kw": kw}

    def pre_value(self):
        """a value as earlier variables would have left it (or a plain one)"""
        rng = self.rng
        r = rng.random()
        if r < 0.2:
            return {"d": _rand_data(rng), "c": None}
        ctx = {k: _rand_value(rng) for k in rng.sample(["x", "y", "a"], rng.randint(0, 2))}
        if r < 0.35:
            return {"d": _rand_data(rng), "c": {"d": ctx}}
        hist = rng.sample(PRETYPES + TYPES[:2], rng.randint(0, 3))
        var = {"name": rng.choice(["z", "w"])}
        var.update(_rand_kw(rng, pmax=1))
        for t in hist:
            if rng.random() < 0.85:
                var[t] = _sub("n" + t, _rand_kw(rng, pmax=1))
        if hist:
            typed = rng.random() < 0.7
            if typed:
                var["type"] = hist[-1]
            if len(hist) > 1 or not typed or rng.random() < 0.3:
                var["compose"] = {"l": list(hist)}
        ctx["variable"] = {"d": var}
        return {"d": _rand_data(rng), "c": {"d": ctx}}


WILD_KEYS = ["a", "b", "ta", "tb", "compose", "name", "type", "u", "dim", "getter", "combine", "variable"]
WILD_TYPES = ["", "ta", "tb", "tc", "a", "name", "type", "compose", "variable", "dim"]


def _wild_value(rng, depth=0):
    r = rng.random()
    if r < 0.25:
        return rng.randint(0, 2)
    if r < 0.45:
        return rng.choice(WILD_KEYS + ["", "xtypex", "recompose", "z"])
    if r < 0.65:
        return {"l": [rng.choice(WILD_TYPES) if rng.random() < 0.8 else _wild_value(rng, depth + 1)
                      for _ in range(rng.randint(0, 3))]}
    if r < 0.72:
        return {"t": [_wild_value(rng, depth + 1) for _ in range(rng.randint(0, 2))]}
    if depth < 2:
        return {"d": {rng.choice(WILD_KEYS): _wild_value(rng, depth + 1) for _ in range(rng.randint(0, 3))}}
    return 1


def _wild_expr(rng, cnt, depth=0):
    r = rng.random()
    cnt[0] += 1
    i = cnt[0]
    if depth >= 2 or r < 0.6:
        kw = {k: _wild_value(rng) for k in rng.sample([k for k in WILD_KEYS if k not in ("name", "type", "getter")],
                                                      rng.randint(0, 2))}
        g = {"tag": i}
        if rng.random() < 0.04:
            g = rng.choice(["variable", "notcallable"])
        name = "v%d" % i if rng.random() < 0.9 else _wild_value(rng)
        ty = rng.choice(WILD_TYPES) if rng.random() < 0.93 else _wild_value(rng)
        if isinstance(ty, int) and ty != 0:
            ty = "ta"       # a truthy non-string hashable type would become a non-string key (outside the model)
        if isinstance(ty, dict) and "t" in ty:
            ty = {"l": ty["t"]}
        return {"k": "var", "name": name, "getter": g, "type": ty, "kw": kw}
    args = [(_wild_expr(rng, cnt, depth + 1) if rng.random() < 0.95 else {"k": "other"})
            for _ in range(rng.randint(0 if rng.random() < 0.1 else 1, 3))]
    kind = "compose" if r < 0.8 else "combine"
    pool = [k for k in WILD_KEYS if not (kind == "combine" and k == "type")]
    kw = {k: _wild_value(rng) for k in rng.sample(pool, rng.randint(0, 2))} if rng.random() < 0.5 else {}
    if kind == "combine" and rng.random() < 0.3:
        t = rng.choice(WILD_TYPES + [0, {"l": []}])
        kw["type"] = t
    return {"k": kind, "args": args, "kw": kw}


def _wild_case(rng):
    cnt = [0]
    chain = [_wild_expr(rng, cnt) for _ in range(rng.randint(1, 3))]
    vals = []
    for _ in range(2):
        r = rng.random()
        if r < 0.2:
            vals.append({"d": 5, "c": None})
        elif r < 0.45:
            vals.append({"d": 5, "c": {"d": {"variable": _wild_value(rng)}}})
        else:
            vals.append({"d": 5, "c": {"d": {"x": 1, "variable": {"d": {rng.choice(WILD_KEYS): _wild_value(rng)
                                                                       for _ in range(rng.randint(0, 4))}}}}})
    return {"chain": chain, "vals": vals, "wild": True}


def _exhaustive_cases(maxlen):
    cases = []
    kinds = [("", {}), ("", {"a": 1}), ("fresh", {}), ("fresh", {"a": 1, "u": {"l": [0, 100]}}), ("ta", {}), ("ta", {"b": 2})]
    vals = _pre_vals()
    for n in range(1, maxlen + 1):
        for combo in itertools.product(kinds, repeat=n):
            chain = []
            for i, (ty, kw) in enumerate(combo):
                chain.append(_leaf(i, TYPES[i + 1] if ty == "fresh" else ty, kw))
            cases.append({"chain": chain, "vals": vals})
    # Combine tuples of 1..4 variables: typed/untyped patterns, name/type keywords, alone and between typed variables
    vals2 = [vals[0], vals[3], vals[5]]
    for n in range(1, 5):
        for pat in itertools.product([False, True], repeat=n):
            args = [_leaf(10 + i, TYPES[i] if t else "", {"u": i} if i % 2 else {}) for i, t in enumerate(pat)]
            for kw in ({}, {"name": "xy"}, {"type": "tg"}, {"name": "xy", "type": "tg", "a": {"l": [0, 1]}}, {"name": ""},
                       {"name": "", "a": 0, "u": ""}):
                comb = {"k": "combine", "args": args, "kw": kw}
                cases.append({"chain": [comb], "vals": vals2})
                if n <= 3:
                    cases.append({"chain": [_leaf(1, "te"), comb, _leaf(2, "tf", {"a": 1})], "vals": vals2})
                    cases.append({"chain": [comb, {"k": "compose", "args": [_leaf(3, "te"), comb], "kw": {}}], "vals": vals2})
    # data that looks like a (data, context) pair: getters that return (x, {"w": i}) / take x[0], inputs that are pairs
    pw = lambda i, ty="": dict(_leaf(i, ty), getter={"pairw": i})
    first = lambda i, ty="": dict(_leaf(i, ty), getter="first")
    pvals = [{"d": 7, "c": None}, {"d": [7, {"ctx": {"d": {"w": 2}}}], "c": None}, {"d": [3, 4], "c": None},
             {"d": [7, {"ctx": {"d": {}}}], "c": {"d": {"x": 1}}}, vals[3]]
    for chain in ([pw(1), _leaf(2, "ta")], [pw(1, "ta"), first(2, "tb")], [pw(1), pw(2), _leaf(3, "")],
                  [_leaf(1, "ta"), pw(2), first(3), first(4)],
                  [{"k": "combine", "args": [pw(1), _leaf(2, "tb")], "kw": {}}, first(3, "tc")],
                  [pw(1), {"k": "compose", "args": [_leaf(2, "ta"), pw(3)], "kw": {}}, _leaf(4, "tb")]):
        cases.append({"chain": chain, "vals": pvals})
    # the documented attributes on every variable of a chain (latex_name, unit, range), also None / bool / float values
    doc = [{"latex_name": "e^+", "unit": "mm", "range": {"l": [0, 100]}}, {"latex_name": "x", "unit": "cm"},
           {"latex_name": "E_{kin}", "unit": {"o": "None"}, "range": {"t": [{"o": "0.0"}, {"o": "1.5"}]}, "b": {"o": "True"}}]
    for tys in (("ta", "tb"), ("ta", "", "tc"), ("", ""), ("ta", "tb", "tc")):
        chain = [_leaf(i + 1, ty, doc[i % 3]) for i, ty in enumerate(tys)]
        cases.append({"chain": chain, "vals": vals2})
        cases.append({"chain": [{"k": "compose", "args": chain, "kw": {"latex_name": "c"}}, _leaf(9, "tg", doc[1])], "vals": vals2})
    # attribute values that are mutable but neither list nor dict (a set, a deque, an OrderedDict, a user object), falsy
    # values and odd names
    odd = [{"triggers": {"s": ["e", "mu"]}, "cuts": {"od": {"min": 0, "max": 10}}},
           {"history": {"dq": [1, {"l": [2]}]}, "axis": {"u": {"unit": "mm", "range": {"l": [0, 1]}}}},
           {"a": 0, "b": "", "u": {"l": []}, "unit": {"d": {}}, "range": {"t": []}, "x_1": {"s": []}, "Q2": {"o": "False"}}]
    for tys in (("",), ("ta",), ("ta", "tb"), ("", "tb", "")):
        chain = [_leaf(i + 1, ty, odd[i % 3]) for i, ty in enumerate(tys)]
        cases.append({"chain": chain, "vals": vals2})
        cases.append({"chain": [{"k": "combine", "args": chain, "kw": {"flags": odd[0]["triggers"]}}], "vals": vals2})
    for nm in NAMES:
        cases.append({"chain": [dict(_leaf(1, "ta"), name=nm), dict(_leaf(2, ""), name=nm), _leaf(3, "tb")], "vals": vals2})
        cases.append({"chain": [{"k": "combine", "args": [dict(_leaf(1, "ta"), name=nm), _leaf(2, "")], "kw": {}}], "vals": vals2})
    # a Compose of ONE variable with attributes of its own, alone and in chains (the variable keeps its description)
    for ty in ("", "ta"):
        x = _leaf(1, ty, {"a": 1})
        c1 = {"k": "compose", "args": [x], "kw": {"unit": "mm", "latex_name": "x_{mm}"}}
        for chain in ([c1], [_leaf(2, "tb"), c1], [c1, _leaf(2, "tb")], [dict(x, id="x"), {"k": "compose", "args": [dict(x, id="x")],
                      "kw": {"unit": "mm"}}], [{"k": "combine", "args": [c1, x], "kw": {"unit": "cm"}}]):
            cases.append({"chain": chain, "vals": vals2})
    # one Variable object used twice: Sequence(v, v), Compose(v, w, v), Sequence(v, Compose(v, w)), Combine(v, v)
    for ty in ("", "ta"):
        v = dict(_leaf(1, ty, {"a": {"l": [1]}}), id="v")
        w = _leaf(2, "tb")
        for chain in ([v, v], [v, w, v], [v, {"k": "compose", "args": [v, w], "kw": {}}],
                      [{"k": "combine", "args": [v, v], "kw": {}}, v]):
            cases.append({"chain": chain, "vals": vals2})
    # an attribute named like a type the value carries (notes/C14_defect_3.md; Lean `compose_ne_sequence_attr_clash`)
    clash_val = {"d": 1, "c": {"d": {"variable": {"d": {"name": "z", "type": "p0", "p0": _sub("z")}}}}}
    cases.append({"chain": [_leaf(1, "ta", {"p0": 3}), _leaf(2, "tb")], "vals": [clash_val]})
    cases.append({"chain": [_leaf(1, "ta"), _leaf(2, "tb", {"ta": {"l": [1]}}), _leaf(3, "tc")], "vals": [vals[0], clash_val]})
    # getters are arbitrary functions: results that are None (a missing value), falsy, (), nan, an exception object, and
    # later getters that map exactly those to something else / return the object they were given / wrap it
    def gl(i, g, ty=""):
        return dict(_leaf(i, ty), getter=g)
    ident = {"sw": []}
    for k, sc in enumerate(DATA_SCALARS):
        to = DATA_SCALARS[(k + 3) % len(DATA_SCALARS)]
        svals = [{"d": 5, "c": None}, {"d": sc, "c": None}, {"d": sc, "c": vals[3]["c"]}]
        const, back = {"const": sc}, {"sw": [[sc, to]], "tag": 2}
        for chain in ([gl(1, const, "ta"), gl(2, back, "tb")],
                      [gl(1, const), gl(2, {"tag": 2}, "ta"), gl(3, "first")],
                      [gl(1, {"sw": [[5, sc]]}, "ta"), gl(2, ident), gl(3, {"sw": [[sc, to]]}, "tb")],
                      [gl(1, {"sw": [[sc, to]], "tag": 1})],
                      [{"k": "combine", "args": [gl(1, const, "ta"), gl(2, back), gl(3, ident)], "kw": {}}, gl(4, "first", "tb")],
                      [{"k": "compose", "args": [gl(1, const, "ta"), gl(2, back, "tb")], "kw": {}}, gl(3, {"sw": [[to, 9]]}, "tc")],
                      [{"k": "combine", "args": [{"k": "compose", "args": [gl(1, const), gl(2, back)], "kw": {}}, gl(3, const)],
                        "kw": {}}]):
            cases.append({"chain": chain, "vals": svals})
    # attributes named like lena's own keys (`dim`, `combine` are set by Combine only; `variable` by nobody), on plain
    # variables and Compose, typed and untyped; a Combine with a type between typed variables
    st = [{"dim": 3, "unit": "cm"}, {"combine": {"t": [{"d": {"name": "x"}}]}, "dim": {"o": "None"}}, {"variable": {"d": {"name": "q"}}, "combine": 0}]
    for tys in (("ta",), ("",), ("ta", "tb"), ("ta", "", "tc"), ("ta", "tb", "tc")):
        chain = [_leaf(i + 1, ty, st[i % 3]) for i, ty in enumerate(tys)]
        cases.append({"chain": chain, "vals": vals2})
        cases.append({"chain": [{"k": "compose", "args": chain, "kw": {"dim": 2}}, _leaf(9, "tg", st[1])], "vals": vals2})
        cases.append({"chain": [{"k": "combine", "args": chain, "kw": {"type": "tf", "variable": 1}}, _leaf(9, "tg", st[0])], "vals": vals2})
        cases.append({"chain": [_leaf(8, "te", st[2]), {"k": "combine", "args": chain, "kw": {"type": "tf"}}, _leaf(9, "")], "vals": vals2})
    # keyword arguments of Compose (the `name` keyword has no effect: Lean `compose_name_keyword_ignored`)
    for kw in ({"name": "foo"}, {"name": "foo", "a": 1}, {"a": {"l": [1]}, "u": "mm"}, {"type": "tg"}):
        for args in ([_leaf(1, "ta")], [_leaf(1, "ta", {"a": 2}), _leaf(2, "tb")], [_leaf(1, ""), _leaf(2, "tb"), _leaf(3, "")]):
            cases.append({"chain": [{"k": "compose", "args": args, "kw": kw}], "vals": vals2, "wild": True})
            cases.append({"chain": [_leaf(0, "te"), {"k": "compose", "args": args, "kw": kw}], "vals": vals2, "wild": True})
    return cases


def _share(rng, chain):
    """re-use of one Variable object: a leaf of the chain occurs a second time (same "id" = same object), at top level
    or inside a later Compose/Combine"""
    leaves = [e for e in chain if e["k"] == "var"]
    if not leaves:
        return
    v = rng.choice(leaves)
    v["id"] = "shared"
    later = [e for e in chain[chain.index(v) + 1:] if e["k"] in ("compose", "combine")]
    if later and rng.random() < 0.5:
        rng.choice(later)["args"].insert(rng.randint(0, 1), v)
    else:
        chain.insert(rng.randint(chain.index(v) + 1, len(chain)), v)


def gen_cases(ctx):
    """a generator (the thorough scope is enumerated lazily)"""
    rng = ctx.rng
    quick = ctx.tier == "quick"
    ctx.exhaustive = False
    fx, nk = detect_fx(), detect_nk()
    ctx.notes = list(getattr(ctx, "notes", [])) + [
        f"model variant compared with this tree: fx={fx} (line 196 continues the history on `compose`: the main theorems "
        f"assume True), nk={nk} (Compose honours `name`: /repo does not)"
        + ("" if fx and not nk else "  -- DIFFERS from the variant the theorems in THEOREMS are about")]
    yield from _exhaustive_cases(3)
    yield from _attr_exhaustive()
    yield from _tok_exhaustive()
    yield from _ctor_exhaustive()
    g = _Gen(rng)
    n_chain, n_wild, n_attr, n_tok, n_ctor = (1200, 800, 600, 300, 150) if quick else (40000, 30000, 8000, 8000, 4000)
    # interleaved, so that a prefix of the thorough stream is a sample of all parts
    total = n_chain + n_wild + n_attr + n_tok + n_ctor
    attr = _attr_cases(rng, n_attr)
    tok = _tok_cases(rng, n_tok)
    ctor = _ctor_cases(rng, n_ctor)
    for i in range(total):
        r = rng.random() * total
        if r < n_chain:
            n = rng.randint(1, 5)
            types = TYPES if rng.random() < 0.7 else TYPES[:2]
            g.n = 0
            chain = [g.expr(types) for _ in range(n)]
            if rng.random() < 0.12:
                _share(rng, chain)
            if rng.random() < 0.1:
                # one documented attribute on every leaf of the chain
                k = rng.choice(["latex_name", "unit", "range"])
                for e0 in chain:
                    for l in _leaves(e0):
                        l["kw"][k] = rng.choice(["e^+", "x", "mm", {"o": "None"}, {"l": [0, 1]}])
            yield {"chain": chain, "vals": [g.pre_value() for _ in range(2)]}
        elif r < n_chain + n_wild:
            yield _wild_case(rng)
        elif r < n_chain + n_wild + n_attr:
            c = next(attr, None)
            if c is not None:
                yield c
        elif r >= total - n_ctor:
            c = next(ctor, None)
            if c is not None:
                yield c
        else:
            c = next(tok, None)
            if c is not None:
                yield c


# ---------------------------------------------------------------------------------------------


def _chain_nontrivial(case, res):
    S = res["S"]
    if "e" in S or "e" in res["C"]:
        return True
    if any(e["k"] == "combine" for e0 in case["chain"] for e in _all_exprs(e0)):
        return True
    for reps in S["outs"]:
        if "e" in reps[0]:
            return True
        var = _var_of(reps[0])
        if len(case["chain"]) >= 2 and var and "compose" in var:
            return True
    return False


def _chain_classify(case, res):
    labels = ["wild" if case.get("wild") else ("wf" if spec_wf(case) else "not-wf"), "len=%d" % len(case["chain"])]
    kinds = set(e["k"] for e0 in case["chain"] for e in _all_exprs(e0))
    labels += ["has:" + k for k in sorted(kinds)]
    if any(l["type"] == "" for e in case["chain"] for l in _leaves(e)):
        labels.append("untyped-leaf")
    for l in (l for e in case["chain"] for l in _leaves(e)):
        if isinstance(l["getter"], dict) and ("const" in l["getter"] or "sw" in l["getter"]):
            labels.append("getter:" + ("const" if "const" in l["getter"] else "sw"))
    if any(set(e.get("kw", {})) & set(STRUCTURE_ATTRS) for e0 in case["chain"] for e in _all_exprs(e0)):
        labels.append("attr:dim/combine/variable")
    for reps in res["S"].get("outs", []) if "e" not in res["S"] else []:
        if reps and isinstance(reps[0].get("d"), dict) and "o" in reps[0]["d"]:
            labels.append("data:" + reps[0]["d"]["o"])
    for which in ("S", "C"):
        r = res[which]
        if "e" in r:
            labels.append(f"{which}:init:{r['e']}")
        else:
            for reps in r["outs"]:
                labels.append(f"{which}:call:" + (reps[0]["e"] if "e" in reps[0] else "ok"))
    for v in case["vals"]:
        c = norm(v)["c"]
        if v.get("c") is None and c is not None:
            labels.append("val:raw-pair")
        if c is None:
            labels.append("val:bare")
        elif "variable" not in c["d"]:
            labels.append("val:ctx")
        else:
            var = c["d"]["variable"]
            if isinstance(var, dict) and "d" in var:
                labels.append("val:var:" + ("+".join(k for k in ("type", "compose") if k in var["d"]) or "plain"))
            else:
                labels.append("val:var:non-dict")
    return labels


KNOWN_CLASH_SIGNATURE = "attribute named like a type: Compose and Sequence differ"
# the failures an attribute named like a type causes on the code as it is (known finding, notes/C14_defect_3.md): the two
# paths differ, and the sub-context stored under the clashing type name is lost; every other failure of such a case
# (data, frame, changed var_context, exceptions, ...) is reported as usual
_CLASH_FAILURES = ("Compose and Sequence of the same", "sub-context of the earlier type", "attributes of the variable of type")


_ATTR_SIGS = ("must reach the context", "when it is applied", "shares mutable objects", "the application changed",
              "changed the var_context of its argument", "private names", "missing attribute", "was constructed with",
              "Combine of", "raised")


def signature(case, failure):
    """one report per kind of failure (the text before the first colon, without the variant's name); every failure of a
    case in which an attribute is named like a type is the finding of notes/C14_defect_3.md"""
    if _kind(case) == "chain" and _spec(case)[1] and any(w in (failure or "") for w in _CLASH_FAILURES):
        return KNOWN_CLASH_SIGNATURE
    if _kind(case) == "tok":
        return "tok|" + (failure or "").split(":", 1)[-1].strip()[:60].split("tokens")[0]
    if _kind(case) == "attr":
        for w in _ATTR_SIGS:
            if w in (failure or ""):
                return "attr|" + w
        return "attr|" + (failure or "").split(":", 1)[-1].strip()[:50]
    if _kind(case) == "ctor":
        return "ctor|" + (failure or "")[:40]
    if (failure or "").startswith("Combine(..., name="):
        return "Combine(..., name=) has another name"      # one report, whatever the names of the case
    for w, sig in (("but the getters applied in order give", "data differs from the getters applied in order"),
                   ("attributes of the variable of type", "attributes of a variable not available under its type")):
        if w in (failure or ""):
            return sig
    head = (failure or "").split(":")[0]
    for w in ("Sequence ", "Compose "):
        if head.startswith(w):
            head = head[len(w):]
    return head.split(" on {")[0][:80]


def _chain_shrink(case):
    chain, vals = case["chain"], case["vals"]
    if len(vals) > 1:
        for i in range(len(vals)):
            yield dict(case, vals=[vals[i]])
    if len(chain) > 1:
        for i in range(len(chain)):
            yield dict(case, chain=chain[:i] + chain[i + 1:])
    for i, e in enumerate(chain):
        if e["k"] in ("compose", "combine"):
            for a in e["args"]:
                if a["k"] != "other":
                    yield dict(case, chain=chain[:i] + [a] + chain[i + 1:])
            if len(e["args"]) > 1:
                for j in range(len(e["args"])):
                    yield dict(case, chain=chain[:i] + [dict(e, args=e["args"][:j] + e["args"][j + 1:])] + chain[i + 1:])
        for k in list(e.get("kw", {})):
            kw = dict(e["kw"])
            del kw[k]
            yield dict(case, chain=chain[:i] + [dict(e, kw=kw)] + chain[i + 1:])
    for i, v in enumerate(vals):
        c = v.get("c")
        if c is not None and "d" in c:
            for k in list(c["d"]):
                if k != "variable":
                    d = dict(c["d"])
                    del d[k]
                    yield dict(case, vals=vals[:i] + [dict(v, c={"d": d})] + vals[i + 1:])
            var = c["d"].get("variable")
            if isinstance(var, dict) and "d" in var:
                for k in list(var["d"]):
                    if k not in ("type", "compose", "name"):
                        d = dict(var["d"])
                        del d[k]
                        yield dict(case, vals=vals[:i] + [dict(v, c={"d": dict(c["d"], variable={"d": d})})] + vals[i + 1:])


# ---------------------------------------------------------------------------------------------
# kind "attr": attribute access (__getattr__, __setattr__, Combine.__getitem__) on one variable
#   {"kind":"attr","expr":E,"ops":[{"get":s} | {"set":s,"v":P} | {"item":i} | {"call":value} | {"vc":true} ..]}

_REAL_ATTRS = ("getter", "var_context")      # found by normal lookup, never reach __getattr__


def mutated(p):
    """the encoded value after the in-place change `_mutate` makes to the object (None: the value is immutable)"""
    if isinstance(p, dict):
        if "l" in p:
            return {"l": p["l"] + [7]}
        if "dq" in p:
            return {"dq": p["dq"] + [7]}
        if "s" in p:
            return canon_p({"s": [x for x in p["s"] if x != 7] + [7]})
        for kk in ("d", "od", "u"):
            if kk in p:
                return {kk: dict(p[kk], m=7)}
    return None


def _mutate(o):
    if isinstance(o, list):
        o.append(7)
    elif isinstance(o, collections.deque):
        o.append(7)
    elif isinstance(o, set):
        o.add(7)
    elif isinstance(o, dict):
        o["m"] = 7
    elif isinstance(o, _Obj):
        o.m = 7


def _attr_run_impl(case):
    nodes = []
    try:
        v = build(case["expr"], None, nodes)
    except Exception as e:
        return {"e": exc_name(e), "phase": "init"}
    objs = [o for _, o, _ in nodes]
    out = []
    for o in case["ops"]:
        try:
            if "get" in o:
                out.append({"r": enc(getattr(v, o["get"]))})
            elif "set" in o:
                setattr(v, o["set"], dec(o["v"]))
                out.append({"r": None})
            elif "vcset" in o:
                # the documented public dictionary of the variable's attributes
                v.var_context[o["vcset"]] = dec(o["v"])
                out.append({"r": None})
            elif "vcdel" in o:
                v.var_context.pop(o["vcdel"], None)
                out.append({"r": None})
            elif "mut" in o:
                # an attribute value changed in place (var.range.append(...))
                _mutate(v.var_context.get(o["mut"]))
                out.append({"r": None})
            elif "item" in o:
                w = v[o["item"]]
                ks = [k for k, u in enumerate(v._vars) if u is w]
                out.append({"r": ks[0] if ks else -1, "vc": enc(w.var_context)})
            elif "call" in o:
                vcb = enc(v.var_context)
                watch = _Watch(objs)
                r = v(_mkval(o["call"]))
                res = {"d": enc_data(r[0]), "c": enc(r[1]), "vcb": vcb}
                if watch.changed():
                    res["call_changed"] = watch.report()
                else:
                    # what a later element may do with the context of its value must not reach the variable
                    _scramble(r[1])
                    if watch.changed():
                        res["probe"] = watch.report()
                out.append(res)
                if "probe" in res or "call_changed" in res:
                    break
            elif "vcn" in o:
                # Python reference of notes/C14_defect_2.patch: the var_context as constructed, `name` = the keyword
                e = case["expr"]
                ref = enc(build(e).var_context)
                if e["k"] == "compose" and "name" in e["kw"]:
                    ref["d"]["name"] = canon_p(e["kw"]["name"])
                out.append({"vc": ref})
            else:
                out.append({"vc": enc(v.var_context)})
        except Exception as e:
            out.append({"e": exc_name(e)})
    res = {"r": out}
    ch = _nodes_changed(nodes, top=[v])
    if ch:
        res["node_changed"] = ch
    return res


def _attr_model_requests(case):
    names = alphabet(case)
    ops = []
    for o in case["ops"]:
        if "set" in o or "vcset" in o or "mut" in o:
            # `var_context[k] = x` is what __setattr__ does; an in-place change of an attribute value is, on values,
            # the assignment of the changed value
            ops.append({"set": o.get("set", o.get("vcset", o.get("mut"))), "v": to_model(o["v"], names)})
        elif "call" in o:
            c = o["call"]
            ops.append({"call": {"d": data_to_model(c["d"], names),
                                 "c": None if c.get("c") is None else to_model(c["c"], names)}})
        else:
            ops.append(o)
    return [{"op": "attr", "names": names, "fx": detect_fx(), "nk": detect_nk(), "expr": expr_to_model(case["expr"], names),
             "ops": ops}]


def _attr_compare(case, res, replies):
    names = alphabet(case)
    m = replies[0]
    if "err" in m:
        return f"model driver error: {m['err']}"
    if "e" in m or "e" in res:
        if m.get("e") != res.get("e") or m.get("phase") != res.get("phase"):
            return f"construction: impl {res if 'e' in res else 'ok'} vs model {m if 'e' in m else 'ok'}"
        return None
    for i, (a, b) in enumerate(zip(res["r"], m["r"])):
        if "err" in b:
            return f"model driver error at op {i}: {b['err']}"
        a = {k: w for k, w in a.items() if k not in ("vcb", "probe", "call_changed")}
        b = dict(b)
        for k in ("vc", "c"):
            if k in b:
                b[k] = from_model(b[k], names)
        if "d" in b:
            b["d"] = data_from_model(b["d"], names)
        if "r" in b and not ("item" in case["ops"][i]) and b["r"] is not None:
            b["r"] = from_model(b["r"], names)
        if a != b:
            return f"op {i} {case['ops'][i]}: impl {a} vs model {b}"
    return None


def _attr_types(case):
    """every type string of an attr case (of the expression and of the values it is applied to)"""
    ts = set()
    for e in _all_exprs(case["expr"]):
        if e["k"] == "var" and isinstance(e["type"], str):
            ts.add(e["type"])
        elif e["k"] == "combine" and isinstance(e["kw"].get("type"), str):
            ts.add(e["kw"]["type"])
    for o in case["ops"]:
        if "call" in o:
            ts |= set(t for t in _hist_of(norm(o["call"])["c"]) if isinstance(t, str))
    return ts


def _attr_oracle(case, res):
    """__getattr__/__setattr__/__getitem__ against their documentation, from the specification alone; an application
    gives context.variable the attributes the variable has at that moment (however they were set), and shares nothing
    with the variable."""
    if "e" in res:
        return None
    if res.get("node_changed"):
        path, a, b = res["node_changed"]
        return (f"using the variable changed the var_context of its argument at {path} (an argument of a Compose/Combine "
                f"keeps its own description): {a} -> {b}")
    e = case["expr"]
    types = _attr_types(case)
    latest = {}
    for i, (o, r) in enumerate(zip(case["ops"], res["r"])):
        if "set" in o or "vcset" in o or "mut" in o:
            a = o.get("set", o.get("vcset", o.get("mut")))
            if "e" in r:
                return f"op {i}: setting the attribute {a!r} raised {r['e']}"
            latest[a] = canon_p(o["v"])
        elif "vcdel" in o:
            latest.pop(o["vcdel"], None)
        elif "get" in o:
            a = o["get"]
            if a.startswith("_"):
                if r.get("e") != "Other:AttributeError":
                    return f"op {i}: var.{a} gives {r}, private names must raise AttributeError"
            elif a in latest:
                if r.get("r") != latest[a]:
                    return f"op {i}: var.{a} is {r} after var.{a} = {latest[a]}"
            elif a == "zz":
                if r.get("e") != "LenaAttributeError":
                    return f"op {i}: missing attribute var.zz gives {r}, documented: LenaAttributeError"
            elif any("vcdel" in q for q in case["ops"][:i]):
                pass
            elif e["k"] == "var" and a == "name" and e["type"] != "name":
                if r.get("r") != canon_p(e["name"]):
                    return f"op {i}: var.name is {r}, the variable was constructed with name {e['name']!r}"
            elif e["k"] == "var" and a in e["kw"] and a != e["type"]:
                if r.get("r") != canon_p(e["kw"][a]):
                    return f"op {i}: var.{a} is {r}, the variable was constructed with {a}={e['kw'][a]}"
        elif "item" in o:
            if e["k"] == "combine":
                n = len(e["args"])
                try:
                    want = list(range(n))[o["item"]]
                except IndexError:
                    want = None
                if want is None:
                    if r.get("e") != "Other:IndexError":
                        return f"op {i}: Combine of {n} variables [{o['item']}] gives {r}, expected IndexError"
                elif r.get("r") != want:
                    return f"op {i}: Combine of {n} variables [{o['item']}] is variable number {r.get('r')}, expected {want}"
        elif "call" in o:
            if "e" in r:
                continue
            if r.get("call_changed"):
                return f"op {i}: the application changed a var_context: {r['call_changed'][0]} -> {r['call_changed'][1]}"
            if r.get("probe"):
                return (f"op {i}: changing the context the application returned changed a var_context (the variable shares "
                        f"mutable objects with the contexts it produces): {r['probe'][0]} -> {r['probe'][1]}")
            var = _var_of(r)
            if var is None:
                return f"op {i}: no dictionary context.variable in {r}"
            for a, x in latest.items():
                if a != "compose" and var.get(a) != x:
                    return (f"op {i}: after var.{a} = {x} the attribute must reach the context, "
                            f"context.variable[{a!r}] is {var.get(a)}")
            # context.variable carries the attributes the variable has when it is applied
            vcb = r.get("vcb", {}).get("d", {})
            for a, x in vcb.items():
                if a != "compose" and a not in types and var.get(a) != x:
                    return (f"op {i}: the variable's attribute {a!r} is {x} when it is applied, "
                            f"context.variable[{a!r}] is {var.get(a)}")
    return None


def _known_attrs(e):
    """the attribute values of a freshly constructed variable that follow from the constructor call alone"""
    if e["k"] == "var":
        return {k: canon_p(v) for k, v in e["kw"].items() if k != e["type"]}
    return {k: canon_p(v) for k, v in e["kw"].items() if k not in ("name", "type", "dim", "combine", "compose", "getter")}


def _rand_mod(rng, known):
    """a change of the variable's attributes between two applications: var.a = x, var.var_context[a] = x, an in-place
    change of an attribute value, del var.var_context[a]; `known` (attribute -> encoded value) is updated"""
    pool = ["a", "b", "u", "unit", "range", "latex_name"]
    q = rng.random()
    muts = [k for k, w in known.items() if mutated(w) is not None]
    if q < 0.3 and muts:
        k = rng.choice(sorted(muts))
        known[k] = mutated(known[k])
        return {"mut": k, "v": known[k]}
    dels = sorted(k for k in known if k != "name")      # without `name` every error message of __getattr__ recurses
    if q < 0.4 and dels:
        k = rng.choice(dels)
        del known[k]
        return {"vcdel": k}
    k = rng.choice(pool + (["name", "dim", "ta"] if rng.random() < 0.15 else []))
    x = _rand_value(rng) if rng.random() < 0.6 else rng.choice([{"l": [0, 100]}, {"s": ["e", "mu"]}, {"d": {"min": 0}}, {"u": {"a": {"l": [1]}}}])
    known[k] = canon_p(x)
    return {("set" if rng.random() < 0.5 else "vcset"): k, "v": x}


def _attr_cases(rng, n):
    g = _Gen(rng)
    pool_get = ["name", "type", "dim", "combine", "compose", "a", "b", "u", "zz", "_priv", "_vars_", "ta", "tb"]
    for _ in range(n):
        g.n = 0
        r = rng.random()
        if r < 0.45:
            e = g.leaf(TYPES)
            if rng.random() < 0.3:
                # flat: strings and numbers only
                e["kw"] = {k: rng.choice([0, 1, "mm", "", {"o": "1.5"}, {"o": "None"}]) for k in e["kw"]}
        elif r < 0.75:
            args = [g.leaf(TYPES) for _ in range(rng.randint(1, 4))]
            kw = _rand_kw(rng, pmax=1)
            if rng.random() < 0.3:
                kw["name"] = rng.choice(["xy", ""])
            e = {"k": "combine", "args": args, "kw": kw}
        else:
            e = {"k": "compose", "args": [g.leaf(TYPES) for _ in range(rng.randint(1, 3))],
                 "kw": ({"name": "foo"} if rng.random() < 0.3 else (_rand_kw(rng, pmax=1) if rng.random() < 0.4 else {}))}
        known = _known_attrs(e)
        ops = []
        if rng.random() < 0.55:
            # applications with changes of the attributes in between
            for _ in range(rng.randint(1, 3)):
                if rng.random() < 0.8:
                    ops.append({"call": g.pre_value()})
                for _ in range(rng.randint(1, 2)):
                    ops.append(_rand_mod(rng, known))
                if rng.random() < 0.3:
                    ops.append({"get": rng.choice(pool_get + sorted(known))})
            ops.append({"call": g.pre_value()})
            if rng.random() < 0.3:
                ops.append({"vc": True})
        else:
            for _ in range(rng.randint(2, 7)):
                q = rng.random()
                if q < 0.4:
                    ops.append({"get": rng.choice(pool_get + list(e["kw"]))})
                elif q < 0.6:
                    ops.append(_rand_mod(rng, known))
                elif q < 0.75:
                    ops.append({"item": rng.randint(-6, 5)})
                elif q < 0.9:
                    ops.append({"call": g.pre_value()})
                elif q < 0.95:
                    ops.append({"vcn": True})
                else:
                    ops.append({"vc": True})
        yield {"kind": "attr", "expr": e, "ops": ops}


def _attr_exhaustive():
    """every index of Combine of 1..4 variables; every kind of attribute name on a leaf, a Combine and a Compose"""
    cases = []
    for n in range(1, 5):
        args = [_leaf(i, TYPES[i] if i % 2 else "", {"u": i}) for i in range(n)]
        cases.append({"kind": "attr", "expr": {"k": "combine", "args": args, "kw": {}},
                      "ops": [{"item": i} for i in range(-n - 2, n + 2)] + [{"get": "dim"}, {"get": "name"}]})
    exprs = [_leaf(1, "ta", {"a": 1, "u": "mm"}), _leaf(1, "", {"a": {"l": [0, 1]}}),
             {"k": "combine", "args": [_leaf(1, "ta"), _leaf(2, "")], "kw": {"name": "xy", "b": 2}},
             {"k": "compose", "args": [_leaf(1, "ta"), _leaf(2, "tb", {"u": "cm"})], "kw": {"name": "foo", "b": 2}}]
    val = {"d": 5, "c": {"d": {"x": 1, "variable": {"d": {"name": "z", "type": "p0", "p0": _sub("z")}}}}}
    # applications with changes of the attributes in between: through dot notation, through the public dictionary
    # var_context, in place; on a flat untyped variable, a typed one, a Combine, a Compose of one and of two variables
    exprs3 = exprs + [_leaf(1, "", {"unit": "MeV"}), _leaf(1, "", {}),
                      {"k": "compose", "args": [_leaf(1, "ta", {"a": 1})], "kw": {}},
                      {"k": "compose", "args": [_leaf(1, "", {"a": 1})], "kw": {"unit": "mm"}},
                      {"k": "combine", "args": [_leaf(1, "", {"a": 1})], "kw": {}}]
    val0 = {"d": 5, "c": None}
    for e in exprs3:
        rng_ = {"l": [0, 100]}
        cases.append({"kind": "attr", "expr": e, "ops": [
            {"call": val0}, {"set": "range", "v": rng_}, {"call": val}, {"mut": "range", "v": mutated(rng_)}, {"call": val0},
            {"vcset": "unit", "v": "cm"}, {"get": "unit"}, {"call": val}, {"vcset": "cuts", "v": {"od": {"min": 0}}},
            {"mut": "cuts", "v": mutated({"od": {"min": 0}})}, {"call": val0}, {"set": "triggers", "v": {"s": ["e", "mu"]}},
            {"call": val}, {"mut": "triggers", "v": mutated({"s": ["e", "mu"]})}, {"call": val0}, {"vcdel": "range"},
            {"get": "range"}, {"call": val}, {"set": "axis", "v": {"u": {"unit": "mm"}}}, {"call": val0}, {"vc": True}]})
    for e in exprs:
        cases.append({"kind": "attr", "expr": e,
                      "ops": [{"get": a} for a in ("name", "type", "a", "b", "u", "ta", "compose", "dim", "zz", "_x", "__len__")]
                      + [{"vcn": True}, {"item": 0}, {"set": "a", "v": 7}, {"get": "a"}, {"set": "unit", "v": "cm"}, {"get": "unit"},
                         {"call": val}, {"set": "name", "v": "renamed"}, {"get": "name"}, {"call": {"d": 1, "c": None}}, {"vc": True}]})
    return cases


# ---------------------------------------------------------------------------------------------
# kind "tok": object identities (Model/C14Tok.lean)
#   {"kind":"tok","expr":E,"val":{"d":int,"c":P|null},"reps":k}
# The variable is applied k times, each time to the value the previous application returned.  Mutable objects
# (dict, list) are numbered by id() in pre-order (sorted keys): first those of var_context, then those of the
# value's context, then, step by step, the new objects in the order they appear in the result.

def _is_mut(o):
    return isinstance(o, (dict, list, set, collections.deque, _Obj))


def _children(o):
    """the values an object holds, in the order the token model lists them (a set holds immutable values only; a user
    object holds its attribute dictionary)"""
    if isinstance(o, dict):
        return [o[k] for k in sorted(o)]
    if isinstance(o, _Obj):
        return [o.__dict__]
    if isinstance(o, set):
        return []
    return list(o)


def _tv(o, ids, alive):
    """encode with tokens; objects not seen before get the next token.  Sets, deques and user objects are tagged lists
    (TAG_SET, ...), as in the value encoding of the model"""
    if o is None or isinstance(o, (bool, float, int, str)):
        return enc(o)
    if isinstance(o, tuple):
        return {"t": [_tv(x, ids, alive) for x in o]}
    if _is_mut(o):
        if id(o) not in ids:
            ids[id(o)] = len(ids)
            alive.append(o)
        k = ids[id(o)]
        if isinstance(o, list):
            return {"l": [_tv(x, ids, alive) for x in o], "k": k}
        if isinstance(o, set):
            return {"l": [TAG_SET] + enc(o)["s"], "k": k}
        if isinstance(o, collections.deque):
            return {"l": [TAG_DEQUE] + [_tv(x, ids, alive) for x in o], "k": k}
        if isinstance(o, _Obj):
            return {"l": [TAG_OBJ, _tv(o.__dict__, ids, alive)], "k": k}
        return {"dd": {key: _tv(o[key], ids, alive) for key in sorted(o)}, "k": k}
    return {"obj": type(o).__name__}


def _reach(o, acc):
    if isinstance(o, tuple):
        for x in o:
            _reach(x, acc)
    elif _is_mut(o) and id(o) not in acc:
        acc.add(id(o))
        for x in _children(o):
            _reach(x, acc)
    return acc


def _ref(o):
    if _is_mut(o):
        return ("id", id(o))
    if isinstance(o, tuple):
        return ("t", tuple(_ref(x) for x in o))
    return ("v", repr(o))


def _shallow(o):
    if isinstance(o, dict):
        return tuple(sorted((str(k), _ref(v)) for k, v in o.items()))
    if isinstance(o, set):
        return tuple(sorted(repr(x) for x in o))
    if isinstance(o, _Obj):
        return _shallow(o.__dict__)
    return tuple(_ref(v) for v in o)


def _tok_exprs(case):
    return case["exprs"] if "exprs" in case else [case["expr"]]


def _tok_run_impl(case):
    try:
        vs = [build(e) for e in _tok_exprs(case)]
    except Exception as e:
        return {"e": exc_name(e), "phase": "init"}
    ids, alive = {}, []
    res = {"vcs": [_tv(v.var_context, ids, alive) for v in vs]}
    var_objs = set()
    for v in vs:
        _reach(v.var_context, var_objs)
    x = _mkval(case["val"])
    if case.get("alias") and _has_ctx(x):
        ck, vi, vk = case["alias"]
        if vk in vs[vi].var_context:
            x[1][ck] = vs[vi].var_context[vk]
    if _has_ctx(x):
        _tv(x[1], ids, alive)
    res["next"] = len(ids)
    steps = []
    for v in vs * case["reps"]:
        before = {id(o): _shallow(o) for o in alive}
        ctx_in = x[1] if _has_ctx(x) else None
        frame_in = {k: (id(w) if _is_mut(w) else None, copy.deepcopy(w)) for k, w in (ctx_in or {}).items() if k != "variable"}
        known = len(ids)
        ctoks = sorted(ids[i] for i in _reach(ctx_in, set())) if ctx_in is not None else []
        try:
            out = v(x)
        except Exception as e:
            steps.append({"e": exc_name(e)})
            break
        st = {"c": _tv(out[1], ids, alive), "erased": enc(out[1]), "ctoks": ctoks}
        changed = [ids[i] for i, snap in before.items() if _shallow(alive[ids[i]]) != snap]
        st["changed"] = sorted(changed)
        st["var_changed"] = sorted(ids[i] for i in var_objs if ids[i] in changed)
        st["shared"] = sorted(ids[i] for i in _reach(out[1], set()) if i in var_objs)
        st["same_ctx"] = ctx_in is None or out[1] is ctx_in
        st["frame"] = [k for k, (i, w) in frame_in.items() if k not in out[1] or enc(out[1][k]) != enc(w)] + \
                      [k for k in out[1] if k != "variable" and k not in frame_in]
        st["frame_id"] = [k for k, (i, w) in frame_in.items()
                          if k in out[1] and i is not None and id(out[1][k]) != i]
        if ctx_in is not None:
            st["in_frame"] = [k for k, (i, w) in frame_in.items() if k not in ctx_in or enc(ctx_in[k]) != enc(w)] + \
                             [k for k in ctx_in if k != "variable" and k not in frame_in]
        steps.append(st)
        x = out
    res["steps"] = steps
    return res


def _tok_model_requests(case):
    names = alphabet(case)
    v = case["val"]
    req = {"op": "tok", "names": names, "fx": detect_fx(), "nk": detect_nk(),
           "exprs": [expr_to_model(e, names) for e in _tok_exprs(case)],
           "val": {"d": data_to_model(v["d"], names), "c": None if v.get("c") is None else to_model(v["c"], names)},
           "reps": case["reps"]}
    if case.get("alias"):
        req["alias"] = case["alias"]
    return [req]


def _tv_from_model(m, names, ren):
    """model TV -> the harness encoding; tokens renamed by `ren` (a token seen for the first time gets the next number)"""
    if isinstance(m, int) and m in _OPAQUE_REV:
        return {"o": _OPAQUE_REV[m]}
    if isinstance(m, (int, str)):
        return m
    if "t" in m:
        return {"t": [_tv_from_model(x, names, ren) for x in m["t"]]}
    if m["k"] not in ren:
        ren[m["k"]] = len(ren)
    k = ren[m["k"]]
    if "l" in m:
        return {"l": [_tv_from_model(x, names, ren) for x in m["l"]], "k": k}
    return {"dd": {names[i]: _tv_from_model(x, names, ren) for i, x in m["D"]}, "k": k}


def _vc_tokens(res):
    acc = set()

    def walk(t):
        if isinstance(t, dict):
            if "k" in t:
                acc.add(t["k"])
            for x in (t.get("l") or t.get("t") or list((t.get("dd") or {}).values())):
                walk(x)
    for t in res["vcs"]:
        walk(t)
    return acc


def _tok_compare(case, res, replies):
    names = alphabet(case)
    m = replies[0]
    if "err" in m:
        return f"model driver error: {m['err']}"
    if "e" in m or "e" in res:
        if m.get("e") != res.get("e") or m.get("phase") != res.get("phase"):
            return f"construction: impl {res if 'e' in res else 'ok'} vs model {m if 'e' in m else 'ok'}"
        return None
    ren = {i: i for i in range(m["next"])}
    if m["next"] != res["next"] or [_tv_from_model(x, names, ren) for x in m["vcs"]] != res["vcs"]:
        return f"numbering of the objects: impl next={res['next']} vcs={res['vcs']} vs model next={m['next']} vcs={m['vcs']}"
    if len(m["r"]) != len(res["steps"]):
        return f"{len(res['steps'])} steps in the implementation, {len(m['r'])} in the model"
    nexts = []
    for i, (a, b) in enumerate(zip(res["steps"], m["r"])):
        if "e" in a or "e" in b:
            if a.get("e") != b.get("e"):
                return f"step {i}: impl {a} vs model {b}"
            nexts.append(b["e"])
            continue
        nexts.append(b["next"])
        if bool(b["sep"]) == bool(case.get("alias") and set(a["ctoks"]) & _vc_tokens(res)):
            return (f"step {i}: the hypothesis sepB of the token theorems is {b['sep']}; expected "
                    f"{'false (aliasing case)' if b['sep'] else 'true'}")
        if from_model(b["erased"], names) != a["erased"]:
            return f"step {i}: erased result {b['erased']} vs impl {a['erased']}"
        if not a["same_ctx"] or a["frame_id"]:
            # the implementation returned a new context object / new objects under the other keys: allowed by the
            # property; the identity structure (which the token theorems describe for the in-place implementation of
            # line 216) cannot be compared any further
            return None
        old = set(ren.values())
        if sorted(ren.get(t, -1) for t in b["ctoks"]) != a["ctoks"]:
            return f"step {i}: objects of the value's context: impl {a['ctoks']} vs model ctxTokens {b['ctoks']}"
        c = _tv_from_model(b["c"], names, ren)
        if c != a["c"]:
            return f"step {i}: identities of the result: impl {a['c']} vs model {c}"
        w = set(ren[t] for t in b["w"] if t in ren)
        if not set(a["changed"]) <= w:
            return f"step {i}: objects changed {a['changed']} but the model writes only {sorted(w)}"
        sp = set(ren[t] for t in b["spine"] if t in ren)
        if not set(t for t in a["changed"] if t in old) <= sp | set(t for t in w if t not in old):
            return f"step {i}: objects changed {a['changed']}, spine {sorted(sp)}"
    if m["calls"] != nexts or (m.get("calls1") is not None and m["calls1"] != nexts):
        return f"seqT {m['calls']} / callsT {m.get('calls1')} differ from the step-wise iteration {nexts}"
    return None


def _tok_oracle(case, res):
    """Applying a variable changes neither the variable nor any part of the value's context other than
    context.variable -- on the objects of the VARIABLE (no object of var_context is written to, none is reachable from
    the returned context, whose later changes would then change the variable) and on the VALUES of the other keys (of
    the returned context and of the caller's context object).  Whether the implementation updates the caller's context
    in place or returns a copy is not part of the statement (it is compared with the model in `_tok_compare` only as
    long as the implementation works in place)."""
    if "e" in res:
        return None
    for i, st in enumerate(res["steps"]):
        if "e" in st:
            continue
        if st["var_changed"]:
            return f"application {i + 1}: objects of the variable's var_context were changed in place: tokens {st['var_changed']}"
        if st["shared"] and not case.get("alias"):
            return (f"application {i + 1}: the returned context shares mutable objects with the variable's var_context "
                    f"(tokens {st['shared']}): a later change of the context changes the variable")
        if st["frame"]:
            return f"application {i + 1}: keys {st['frame']} of the returned context other than 'variable' changed"
        if st.get("in_frame"):
            return f"application {i + 1}: keys {st['in_frame']} of the value's own context other than 'variable' changed"
    return None


def _tok_cases(rng, n):
    g = _Gen(rng)
    for _ in range(n):
        g.n = 0
        r = rng.random()
        if r < 0.45:
            yield {"kind": "tok", "exprs": [g.expr(TYPES)], "val": g.pre_value(), "reps": rng.randint(1, 3)}
        elif r < 0.85:
            # a chain of different variables: objects move from one step's context into the next one's
            yield {"kind": "tok", "exprs": [g.expr(TYPES) for _ in range(rng.randint(2, 4))], "val": g.pre_value(),
                   "reps": rng.randint(1, 2)}
        else:
            w = _wild_case(rng)
            e, val = w["chain"][0], w["vals"][0]
            if e["k"] == "other":
                continue
            yield {"kind": "tok", "exprs": [e], "val": val, "reps": rng.randint(1, 3)}


def _tok_exhaustive():
    cases = []
    exprs = [_leaf(1, "", {"a": {"l": [0, 1]}}), _leaf(1, "ta", {"a": {"d": {"u": {"l": [1]}}}}),
             {"k": "compose", "args": [_leaf(1, "ta", {"u": {"l": [7]}}), _leaf(2, "tb")], "kw": {}},
             {"k": "compose", "args": [_leaf(1, "ta"), _leaf(2, "")], "kw": {}},
             {"k": "combine", "args": [_leaf(1, "ta", {"u": {"l": [7]}}), _leaf(2, "")], "kw": {}},
             {"k": "combine", "args": [_leaf(1, "ta"), _leaf(2, "tb")], "kw": {"type": "tg", "a": {"l": [1]}}}]
    exprs2 = [_leaf(1, "", {"a": {"s": [1, 2]}, "b": {"u": {"u": {"l": [1]}}}}),
              _leaf(1, "ta", {"a": {"dq": [{"l": [1]}, 2]}, "u": {"od": {"b": {"s": ["e"]}}}}),
              {"k": "compose", "args": [_leaf(1, "ta", {"u": {"s": [7]}}), _leaf(2, "tb", {"a": {"u": {}}})], "kw": {"b": {"dq": []}}}]
    for e in exprs2:
        for val in _pre_vals()[:4]:
            cases.append({"kind": "tok", "exprs": [e], "val": val, "reps": 2})
    for e in exprs:
        for val in _pre_vals():
            cases.append({"kind": "tok", "exprs": [e], "val": val, "reps": 3})
    for val in _pre_vals():
        cases.append({"kind": "tok", "exprs": [exprs[1], exprs[4], _leaf(5, "tc", {"b": {"l": [2]}})], "val": val, "reps": 2})
    # aliasing: the value's context holds an object of the variable (sepB is false: outside the token theorems; the
    # model and the implementation must still agree, and the variable must still not be changed)
    val = {"d": 5, "c": {"d": {"x": 1, "variable": {"d": {"name": "z", "type": "p0", "p0": _sub("z")}}}}}
    cases.append({"kind": "tok", "exprs": [exprs[0]], "val": val, "reps": 2, "alias": ["x", 0, "a"]})
    cases.append({"kind": "tok", "exprs": [exprs[1], exprs[2]], "val": val, "reps": 1, "alias": ["y", 0, "ta"]})
    return cases


# ---------------------------------------------------------------------------------------------
# kind "ctor": the constructors on object identities (Model/C14X.lean `composeInitT`)
#   {"kind":"ctor","k":"compose"|"combine","args":[E..]}
# Compose(*args) / Combine(*args) is constructed from different Variable objects; the objects of the arguments'
# var_contexts are numbered by id() in pre-order, then the new objects of the result's var_context.

def _ctor_run_impl(case):
    try:
        args = [build(e) for e in case["args"]]
    except Exception as e:
        return {"e": exc_name(e), "phase": "init"}
    ids, alive = {}, []
    res = {"args": [_tv(a.var_context, ids, alive) for a in args]}
    res["next"] = len(ids)
    arg_objs = set()
    for a in args:
        _reach(a.var_context, arg_objs)
    before = {id(o): _shallow(o) for o in alive}
    snap = [enc(a.var_context) for a in args]
    try:
        from lena.variables import Compose, Combine
        comp = (Compose if case["k"] == "compose" else Combine)(*args)
    except Exception as e:
        res["e2"] = exc_name(e)
        return res
    if case["k"] == "combine":
        # the tuple var_context["combine"] first: its objects are numbered in the order the constructor copies them
        res["comb"] = _tv(comp.var_context.get("combine"), ids, alive)
    res["res"] = _tv(comp.var_context, ids, alive)
    res["erased"] = enc(comp.var_context)
    res["shared"] = sorted(ids[i] for i in _reach(comp.var_context, set()) if i in arg_objs)
    res["changed"] = sorted(ids[i] for i, sn in before.items() if _shallow(alive[ids[i]]) != sn)
    res["args_changed"] = [[a, b] for a, b in zip(snap, [enc(a.var_context) for a in args]) if a != b]
    return res


def _ctor_model_requests(case):
    names = alphabet(case)
    return [{"op": "ctor", "k": case["k"], "names": names, "fx": detect_fx(), "nk": detect_nk(),
             "args": [expr_to_model(e, names) for e in case["args"]]}]


def _ctor_compare(case, res, replies):
    names = alphabet(case)
    m = replies[0]
    if "err" in m:
        return f"model driver error: {m['err']}"
    if "phase" in m or "phase" in res:
        if m.get("e") != res.get("e") or m.get("phase") != res.get("phase"):
            return f"construction of the arguments: impl {res if 'e' in res else 'ok'} vs model {m if 'e' in m else 'ok'}"
        return None
    ren = {i: i for i in range(m["next"])}
    if m["next"] != res["next"] or [_tv_from_model(x, names, ren) for x in m["args"]] != res["args"]:
        return f"numbering of the objects: impl next={res['next']} args={res['args']} vs model next={m['next']} args={m['args']}"
    if case["k"] == "combine":
        # Model/C14X.lean combineInitT: the tuple var_context["combine"] (the exceptions of Combine.__init__ are compared
        # on values in the chain kind, mkCombine)
        if "e2" in res:
            return None
        if not m["fresh"]:
            return "the model's Combine shares objects with its arguments (combineInitT_fresh must exclude this)"
        if res["shared"] or res["changed"]:
            return None       # the oracle reports it
        c = _tv_from_model(m["comb"], names, ren)
        if c != res.get("comb"):
            return f"identities of var_context['combine']: impl {res.get('comb')} vs model combineInitT {c}"
        return None
    err = [st["e"] for st in m["steps"] if "e" in st]
    if err or "e2" in res:
        if (err[0] if err else None) != res.get("e2"):
            return f"Compose(*args): impl {res.get('e2', 'ok')} vs model composeInitT {err[0] if err else 'ok'}"
        return None
    if not m["fresh"]:
        return "the model's Compose shares objects with its arguments (composeInitT_result_fresh must exclude this)"
    if m["res"] is None:
        return "the model gives no var_context"
    if res["shared"] or res["changed"]:
        return None       # the oracle reports it; the identities of a sharing implementation cannot be compared further
    c = _tv_from_model(m["res"], names, ren)
    if c != res["res"]:
        return f"identities of the new var_context: impl {res['res']} vs model composeInitT {c}"
    return None


def _ctor_oracle(case, res):
    """Constructing Compose(v1..vn) / Combine(v1..vn) keeps each variable's description: it changes no var_context of
    an argument, writes to none of their objects, and the new variable's var_context shares no mutable object with
    them (otherwise a later change of the composition -- an attribute set on it, a keyword -- would change them)."""
    if "e" in res or "e2" in res:
        return None
    what = case["k"].capitalize()
    if res["args_changed"]:
        a, b = res["args_changed"][0]
        return f"constructing {what}(v1..vn) changed the var_context of an argument: {a} -> {b}"
    if res["changed"]:
        return f"constructing {what}(v1..vn) wrote to objects of the arguments' var_contexts: tokens {res['changed']}"
    if res["shared"]:
        return (f"the var_context of the new {what} shares mutable objects with the var_context of its arguments (tokens "
                f"{res['shared']}): a later change of the {what}'s attributes changes the argument")
    return None


def _ctor_cases(rng, n):
    g = _Gen(rng)
    for _ in range(n):
        g.n = 0
        r = rng.random()
        if r < 0.85:
            args = [g.expr(TYPES, depth=1) for _ in range(rng.randint(1, 4))]
        else:
            args = [e for e in _wild_case(rng)["chain"] if e["k"] != "other"] or [g.leaf(TYPES)]
        yield {"kind": "ctor", "k": "compose" if rng.random() < 0.7 else "combine", "args": args}


def _ctor_exhaustive():
    cases = []
    kws = [{}, {"a": 1}, {"a": {"l": [0, 1]}, "u": {"d": {"b": {"l": [1]}}}}, {"a": {"s": [1]}, "b": {"u": {"u": {"l": []}}}, "u": {"dq": [{"l": [1]}]}}]
    for k in ("compose", "combine"):
        for n in (1, 2, 3):
            for tys in itertools.product(("", "t"), repeat=n):
                for kw in kws:
                    args = [_leaf(i + 1, TYPES[i] if t else "", kw if i % 2 == 0 else {}) for i, t in enumerate(tys)]
                    cases.append({"kind": "ctor", "k": k, "args": args})
        inner = {"k": "compose", "args": [_leaf(1, "ta", kws[2]), _leaf(2, "")], "kw": {"b": {"l": [2]}}}
        cases.append({"kind": "ctor", "k": k, "args": [inner]})
        cases.append({"kind": "ctor", "k": k, "args": [inner, {"k": "combine", "args": [_leaf(3, "tc", kws[3])], "kw": {}}]})
    return cases


# ---------------------------------------------------------------------------------------------
# dispatch on the kind of a case

def _kind(case):
    return case.get("kind", "chain")


_KINDS = {"attr": 0, "tok": 1, "ctor": 2}


def run_impl(case):
    return {"attr": _attr_run_impl, "tok": _tok_run_impl, "ctor": _ctor_run_impl}.get(_kind(case), _chain_run_impl)(case)


def model_requests(case):
    return {"attr": _attr_model_requests, "tok": _tok_model_requests,
            "ctor": _ctor_model_requests}.get(_kind(case), _chain_model_requests)(case)


def compare(case, res, replies):
    return {"attr": _attr_compare, "tok": _tok_compare, "ctor": _ctor_compare}.get(_kind(case), _chain_compare)(case, res, replies)


def oracle(case, res):
    return {"attr": _attr_oracle, "tok": _tok_oracle, "ctor": _ctor_oracle}.get(_kind(case), _chain_oracle)(case, res)


def nontrivial(case, res):
    if _kind(case) == "ctor":
        return True
    if _kind(case) == "tok":
        return "e" in res or any("e" in st or st.get("changed") for st in res["steps"])
    if _kind(case) == "attr":
        return "e" in res or any("e" in r or r.get("r") is not None for r in res["r"])
    return _chain_nontrivial(case, res)


def classify(case, res):
    if _kind(case) == "ctor":
        return ["ctor", "ctor:" + case["k"], "ctor:" + (res.get("e") or res.get("e2") or "ok"), "ctor:n=%d" % len(case["args"])]
    if _kind(case) == "tok":
        if "e" in res:
            return ["tok", "tok:init:" + res["e"]]
        return (["tok", "tok:chain" if len(_tok_exprs(case)) > 1 else "tok:" + _tok_exprs(case)[0]["k"]]
                + (["tok:alias"] if case.get("alias") else [])
                + ["tok:step:" + (st["e"] if "e" in st else ("ok" if st["same_ctx"] else "context-copied"))
                   for st in res["steps"]])
    if _kind(case) == "attr":
        if "e" in res:
            return ["attr", "attr:init:" + res["e"]]
        labels = ["attr", "attr:" + case["expr"]["k"]]
        for o, r in zip(case["ops"], res["r"]):
            op = next(k for k in ("get", "set", "item", "call", "vcn", "vc") if k in o)
            labels.append(f"attr:{op}:" + (r["e"] if "e" in r else "ok"))
        return labels
    return _chain_classify(case, res)


def shrink(case):
    if _kind(case) == "ctor":
        args = case["args"]
        if len(args) > 1:
            for i in range(len(args)):
                yield dict(case, args=args[:i] + args[i + 1:])
        for i, e in enumerate(args):
            if e["k"] in ("compose", "combine"):
                for a in e["args"]:
                    if a["k"] != "other":
                        yield dict(case, args=args[:i] + [a] + args[i + 1:])
            for k in list(e.get("kw", {})):
                kw = dict(e["kw"])
                del kw[k]
                yield dict(case, args=args[:i] + [dict(e, kw=kw)] + args[i + 1:])
        return
    if _kind(case) == "tok":
        if case["reps"] > 1:
            yield dict(case, reps=case["reps"] - 1)
        es = _tok_exprs(case)
        base = {k: v for k, v in case.items() if k != "expr"}
        if len(es) > 1 and not case.get("alias"):
            for i in range(len(es)):
                yield dict(base, exprs=es[:i] + es[i + 1:])
        for i, e in enumerate(es):
            if e["k"] in ("compose", "combine") and not case.get("alias"):
                for a in e["args"]:
                    if a["k"] != "other":
                        yield dict(base, exprs=es[:i] + [a] + es[i + 1:])
            for k in list(e.get("kw", {})):
                kw = dict(e["kw"])
                del kw[k]
                yield dict(base, exprs=es[:i] + [dict(e, kw=kw)] + es[i + 1:])
        return
    if _kind(case) == "attr":
        ops = case["ops"]
        for i in range(len(ops)):
            yield dict(case, ops=ops[:i] + ops[i + 1:])
        e = case["expr"]
        for k in list(e.get("kw", {})):
            kw = dict(e["kw"])
            del kw[k]
            yield dict(case, expr=dict(e, kw=kw))
        return
    yield from _chain_shrink(case)


# ---- MANIFEST texts ------------------------------------------------------------------------
LEVEL_TEXT = ("Lean 4 theorems about a transcribed model of Variable.__init__/__call__/_update_context/__getattr__/__setattr__, "
              "Compose.__init__ and Combine.__init__/__getitem__, for all chains of variables (any length, expression trees of "
              "any nesting depth of Compose/Combine by mutual induction, any attributes within the stated, executable "
              "well-formedness hypotheses -- among them 'no attribute named like a type', without which sentence 1 is false of "
              "/repo: refuted in Lean and reported as a known finding) and all input values, plus a token-level model of __call__ (which objects are "
              "written, which objects the result is made of) proved to refine the value model; both are tied to /repo by a "
              "correspondence check (var_contexts, outputs, attribute reads, exception class and phase, id() graphs; every "
              "specification-side definition of the theorems is executed by the driver and compared) plus a direct oracle "
              "that evaluates the property's sentences on the real code.")
LEVEL_NOTE = ("Sentence 1 is proved only under 'no attribute named like a type' (its unrestricted form is refuted in Lean and "
              "reported as a known finding of /repo). The clauses 'same data', 'Combine gives the tuple', 'frame' are true by "
              "definition of the model (AUX_THEOREMS) and are carried by the correspondence and the oracle's independent "
              "reference. "
              "Trusted: Lean kernel (+ propext, Classical.choice, Quot.sound), the hand transcription validated by the "
              "correspondence run, dictionaries as slot vectors, deepcopy as renaming of objects, the getter fixture, the JSON "
              "protocol. lena/variables/functions.py (abs, Cm) is deliberately not modelled (not in the statement).")
TECHNIQUE = "Lean 4 proof over hand-written model + correspondence check (exhaustive small chains + seeded random)"
DESIGN_REF = "DESIGN.md section 3, C14"
