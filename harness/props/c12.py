"""C12 — histogram and graph arithmetic, scaling and conversions keep every cell.

Real code: lena.structures.histogram (scale, add, get_nevents, set_nevents, _update_context),
lena.structures.hist_functions (integral, iter_bins, iter_bins_with_edges, iter_cells, hist_to_graph),
lena.structures.graph (__init__, _parse_error_names, scale, rows, __add__), lena.output.ToCSV / hist1d_to_csv / hist2d_to_csv,
lena.flow.scale_to / GroupScale, lena.structures.ScaleTo.
Model: lean/LenaModel/Model/C12.lean (+ NArr.lean), theorems lean/LenaModel/Props/C12.lean.

Numbers.  A case holds every number as the string "n/d" of an exact rational; the real code receives a Python int
(kind "int", integral values) or the float with exactly that value (all generated values are dyadic with few bits).
Results of the real code are converted back with fractions.Fraction (exact for ints and floats) and compared with ==
against the model, which computes in Lean's exact rationals.  This is sound for the cases marked "exact": there the
target scale / number of events / weight is chosen such that every floating-point operation of the real code is exact
(target = dyadic ratio * old scale).  Cases with an arbitrary target ("exact": false) are not sent to the model; for
them the oracle checks the property's own "up to rounding" clause with a bound that is far above any accumulated
rounding error and far below the effect of a wrong factor.
"""
import copy
import hashlib
import itertools
import math
import warnings
from fractions import Fraction as F

from harness.common import exc_name, jdump

PID = "C12"
TITLE = "Histogram and graph arithmetic, scaling and conversions keep every cell"
LEAN_MODULES = ["LenaModel.Props.C12", "LenaModel.Props.C12Ext", "LenaModel.Props.C12Alias", "LenaModel.Props.C12Call"]
LEAN_SOURCES = ["LenaModel/Model/NArr.lean", "LenaModel/Model/C12.lean", "LenaModel/Model/C12Ext.lean",
                "LenaModel/Model/C12Spec.lean", "LenaModel/Lemmas/C12Spec.lean", "LenaModel/Props/C12Ext.lean",
                "LenaModel/Model/C12Alias.lean", "LenaModel/Props/C12Alias.lean",
                "LenaModel/Lemmas/C12.lean",
                "LenaModel/Lemmas/C12Hist.lean", "LenaModel/Lemmas/C12Graph.lean", "LenaModel/Lemmas/C12Csv.lean",
                "LenaModel/Props/C12.lean", "LenaModel/Model/C12Call.lean", "LenaModel/Props/C12Call.lean"]
DRIVER = "drivers/C12.lean"
THEOREMS = [
    "Lena.C12.graphLoopSt_once_in_order",
    "Lena.C12.hist_to_graph_calls",
    "Lena.C12.graphLoopSt_pure",
    "Lena.C12.graphLoopSt_pure_state",
    "Lena.C12.histToGraphSt_pure",
    "Lena.C12.hist_scale",
    "Lena.C12.hist_scale_recomputed_partial",
    "Lena.C12.hist_scale_zero",
    "Lena.C12.hist_scale_total",
    "Lena.C12.set_nevents_spec",
    "Lena.C12.set_nevents_total",
    "Lena.C12.add_cellwise",
    "Lena.C12.add_cell",
    "Lena.C12.add_rejects_edges",
    "Lena.C12.add_only_equal_edges",
    "Lena.C12.iter_bins_with_edges_agrees",
    "Lena.C12.iter_cells_agrees",
    "Lena.C12.iterators_agree",
    "Lena.C12.iter_cells_ranges",
    "Lena.C12.iter_cells_bad_range",
    "Lena.C12.graph_scale",
    "Lena.C12.hist_to_graph_points",
    "Lena.C12.csv_rows_1d",
    "Lena.C12.csv_rows_2d",
    "Lena.C12.csv_rows_2d_count",
    "Lena.C12.scale_loop_spec",
    "Lena.C12.mkHist_wf",
    "Lena.C12.add_defined",
    "Lena.C12.graph_valid_naming",
    "Lena.C12.hist_to_graph_defined",
    "Lena.C12.csv_one_row_per_cell_1d",
    "Lena.C12.csv_one_row_per_cell_2d",
    "Lena.C12.graph_add_spec",
    "Lena.C12.graph_add_error_fields",
    "Lena.C12.iter_cells_coord_ranges",
    "Lena.C12.coord_range_axis_selects",
    "Lena.C12.get_bin_edges_nested",
    "Lena.C12.get_bin_edges_flat",
    "Lena.C12.get_bin_on_index_cells",
    "Lena.C12.fmt_precision",
    "Lena.C12.scale_none_reads_only",
    "Lena.C12.add_then_scale",
    "Lena.C12.add_then_rescale",
    "Lena.C12.hist_scale_recomputed_full_false",
    "Lena.C12.integral_spec",
    "Lena.C12.hist_scale_value",
    "Lena.C12.addU_cellwise",
    "Lena.C12.addU_defined",
    "Lena.C12.csv_rows_1d_any",
    "Lena.C12.csv_rows_valid_1d",
    "Lena.C12.csv_rows_valid_2d",
    "Lena.C12.parse_fmt",
    "Lena.C12.graph_scale_aliasing",
    "Lena.C12.rescaleRefs_spec",
    "Lena.C12.mdMapH_spec",
    "Lena.C12.hist_scale_aliasing",
    "Lena.C12.set_nevents_aliasing",
    "Lena.C12.rescaleInPlace_differs",
    "Lena.C12.mdMapInPlace_differs",
]
# true by unfolding one branch of the model / glue between definitions / decision procedures of the vocabulary: audited, but
# not counted as proof obligations of the property
AUX_THEOREMS = [
    "Lena.C12.scale_to_number",
    "Lena.C12.group_scale_call",
    "Lena.C12.graph_add_not_graph",
    "Lena.C12.iter_cells_both_ranges",
    "Lena.C12.csv_text_spec",
    "Lena.C12.csv_text_of_rows",
    "Lena.C12.hist_to_graph_element",
    "Lena.C12.csv_not_converted",
    "Lena.C12.csv_dim3_unchanged",
    "Lena.C12.csv_graph_rows",
    "Lena.C12.hist_to_graph_bad_mode",
    "Lena.C12.get_nevents_spec",
    "Lena.C12.set_nevents_zero",
    "Lena.C12.graph_scale_unknown_or_zero",
    "Lena.C12.add_rejects_nbins",
    "Lena.C12.scale_to_selector",
    "Lena.C12.scale_to_call_spec",
    "Lena.C12.scale_to_call_errors",
    "Lena.C12.getCoord_spec",
    "Lena.C12.wfB_iff",
    "Lena.C12.validB_iff",
    "Lena.C12.inRangeB_iff",
    "Lena.C12.validRangesB_iff",
    "Lena.C12.errorFieldOfB_iff",
    "Lena.C12.nonEmptyAxesB_iff",
    "Lena.C12.mkHistU_eq",
    "Lena.C12.addU_eq",
    "Lena.C12.toCsvHistU_eq",
    "Lena.C12.mkHistU_some",
    "Lena.C12.addWith_cellwise",
    "Lena.C12.readCols_append",
    "Lena.C12.readBins_append",
    "Lena.C12.readBins_node",
    "Lena.C12.readCells_mono",
    "Lena.C12.cellNums_spec",
    "Lena.C12.mdMapSubs_spec",
]
TRUSTED = [
    "Lean 4.33.0 kernel; axioms limited to propext, Classical.choice, Quot.sound (audited by #print axioms on every run)",
    "hand transcription of the functions listed in the headers of LenaModel/Model/C12.lean, C12Ext.lean and C12Alias.lean (and "
    "NArr.lean: iter_bins, get_bin_on_index, md_map, init_bins; C06.lean: get_bin_on_value_1d), validated by this "
    "correspondence check on the generated cases only (generator quality bounds the assurance)",
    "the Python reference computations of the oracle and of the vocabulary checks (ref_cells, ref_integral, RefHist, "
    "RefGraph, ref_parse_names, _ref_csv_rows, parse_csv)",
    "CPython's '{:f}' prints the correctly rounded (ties to even) six-decimal value of a float: fmtF is that function on "
    "exact rationals; compared character by character on the generated numbers (incl. ties k/128)",
    "JSON line protocol encoders (harness/props/c12.py, drivers/C12.lean); numbers as exact rationals 'n/d'",
]
ASSUMPTIONS = [
    "the value of a cell in 'one point per cell ... with that cell's value' is what the user's make_value returns for "
    "that cell when it is called once per cell in cell order: the number and the order of the calls of the user's "
    "callable are observable behaviour (a make_value that keeps state - a running sum, a counter, a consumed iterator - "
    "gives other points after an additional call; seed C12-L). In flows through ONE HistToGraph element and in gchain "
    "the make_value is pure (the state would go on from one histogram to the next).",
    "exact rational arithmetic stands for Python int/float arithmetic: rounding is outside the model. The correspondence "
    "uses cases on which every float operation is exact (small dyadic numbers; targets chosen as dyadic ratio x current "
    "value), so the int/float TYPE of a result is not observed; cases with arbitrary floats (hscale/nevents targets, add "
    "with thirds/tenths/long decimals and arbitrary weights, graph rescaling) are judged by the oracle only, with a "
    "rounding bound (add: the rigorous 3*2**-53*(|a|+|w*b|); scale/nevents: 1e-11 relative)",
    "the sentence 'makes the recomputed scale equal s' is false of the code without a side condition "
    "(hist_scale_recomputed_full_false: a stale stored _scale is used as the old scale); it is proved under the "
    "hypothesis that a stored scale equals the integral (hist_scale_recomputed_partial), which holds for every scale "
    "computed or set by lena itself; the oracle makes no claim about scale() / scale(s) of an object whose stored scale "
    "is stale (after set_nevents) until it is recomputed",
    "synthetic states: the harness writes n_out_of_range and _scale through attributes (stale / zero / user-set stored "
    "scales are states a user can reach by filling or set_nevents after scale())",
    "one-dimensional histograms in both formats [x0,...] and [[x0,...]] are modelled and generated (the latter per "
    "notes/C12_defect_4: Model/C12Ext.lean mkHistU/addU/toCsvHistU; Model/C12.lean mkHist still answers 'unmodelled' "
    "for it because Bridge/Hist.lean states theorems about that branch)",
    "'All inputs' in theorem comments means all values of the model types; on states that the constructor rejects "
    "(empty axes: nbinsOf truncates len-1 at 0) the model is not claimed to be the code",
    "iter_cells(coord_ranges=...) is modelled on top of C06's model of get_bin_on_value_1d (Lena.C06.bin1d) run with the "
    "trivial interpolation guess ind_min; by C06's theorem bin1d_guess_independent the result does not depend on the "
    "guess. WHICH cells coord_ranges selects is compared with the model but not judged by the oracle (lena's docstring "
    "and code differ: notes/C12_defect_2.md, recorded as an observation)",
    "graph + graph with error fields raises although the docstring says they are ignored (notes/C12_defect_3.md, "
    "observation); hist_to_graph with fewer field names than numbers per point truncates the points (documented "
    "precondition of the caller): both compared with the model, not judged",
    "Selector is modelled as a class test only (ScaleTarget.selectHist/selectGraph); string / callable / composite "
    "selectors in scale_to are not exercised; the contexts written by HistToGraph (value, variable: C14) and by "
    "graph._update_context are not compared; context.histogram written by ToCSV is",
    "the string form of field_names (splitNames, the regex [^,\\s]+) has no theorem of its own: validated by the "
    "correspondence only (separators ',', ', ', ' ', tab); 'valid naming' in graph_valid_naming is stated through "
    "errMatches, which errMatches_iff proves equivalent to the independent predicate ErrorFieldOf for error fields",
    "relational vocabulary of the scale_to theorems (ItemDone, AllDone, ItemFails, LoopPost) consists of propositions "
    "over the model function structScale and equality only; it is not executed (nothing to validate beyond structScale)",
    "repr() of floats in the CSV of graphs is not modelled (rows of numbers only); '{:f}' of histograms is (fmtF, "
    "parse_fmt, fmt_precision)",
    "bins that do not have the shape of the edges (ragged, deeper) in add / CSV / iterators, assert failures of "
    "graph.__add__, and the deprecated class Graph are outside the statement: compared with the model where it "
    "predicts something ('unmodelled' = no prediction), never judged",
    "operands are not modified / results do not alias operands: not expressible in the pure value model; checked by "
    "snapshots and identity checks on the real objects (lists only: for tuple edges deepcopy returns the same object)",
    "list OBJECTS (adversary round): graphs whose columns are one list object (y = x, symmetric errors given once), "
    "columns that are tuples, histograms whose rows / planes / axes are one list object (bins=[row]*n) and a structure that "
    "is in a group twice are generated; the oracle judges only the values read through the structure after the operation "
    "(never object identity, never the lists the caller passed in). That the value model is adequate for shared objects is "
    "a theorem about the object-level transcription Model/C12Alias.lean (graph.scale and md_map allocate new lists and "
    "write into none: graph_scale_aliasing, mdMapH_spec, hist_scale_aliasing, set_nevents_aliasing; the in-place variants "
    "differ: rescaleInPlace_differs, mdMapInPlace_differs); that transcription is validated by the correspondence on "
    "the aliased exact cases (ops graph_refs, hist_scale_refs, nevents_refs). histogram.add and graph.__add__ on shared "
    "objects are covered by the oracle and the value correspondence only (md_map with two arrays has no object-level model)",
    "call forms (adversary round): every public function / constructor of the statement is called with keyword "
    "arguments, with positional arguments in the order of the documented signature (iter_cells(hist, ranges, coord_ranges); "
    "add(other, weight) - the tolerances always by keyword; hist_to_graph / HistToGraph(make_value, get_coordinate, field_names, "
    "scale); graph(coords, field_names, scale); ToCSV(separator, header) - row_end, last_row_end (documented as keyword arguments) and duplicate_last_bin always by keyword; "
    "hist1d_to_csv / hist2d_to_csv(hist, header, separator, duplicate_last_bin); scale_to / GroupScale(scale_to, [group,] "
    "allow_zero_scale, allow_unknown_scale); scale(other, recompute); set_nevents(nevents, include_out_of_range); "
    "histogram(edges, bins, initial_value)) or mixed: these signatures are a fact about lena's public API that the harness "
    "states (a change of the order is a breaking change of the API and is reported)",
    "kinds of numbers (adversary round): targets, weights, numbers of events and graph scales are ints, floats or "
    "fractions.Fraction (a numbers.Number that is neither; scale_to documents 'a number'); hist_to_graph's scale is None, "
    "True or a number incl. 1 and 1.0 (which equal True but are numbers) and 0. decimal.Decimal (does not mix with float "
    "contents in Python itself) and numpy scalars (numpy is not installed) are not generated",
]
RULE = ("cases per op over histograms of every shape 1..4 (1-dim), 1..3 x 1..3 (2-dim), 1..3 x 1..3 x 1..2 (3-dim) with "
        "integer and dyadic-float contents of both signs (also all-zero and zero-integral ones) and dyadic edges: "
        "hscale (scale(); scale(other); scale(recompute=True)), nevents (get/set_nevents with and without "
        "n_out_of_range), add (equal edges, edges differing far above / far below the tolerance, different shapes, "
        "weights incl. 1, -1, 0, fractions; default and zero tolerances; a non-histogram operand; edges that are a "
        "proper prefix / extension of the other operand's along one axis - equal leading edges, more or fewer bins - for "
        "every shape x axis x both operand orders), iter (iter_bins, "
        "iter_bins_with_edges, iter_cells with None, full, partial, empty and invalid index ranges; bins deeper or "
        "smaller than the edges), h2g (hist_to_graph: left/right/middle/invalid get_coordinate x make_value with 1..3 "
        "values - every make_value a callable object that records its calls; pure ones and three that keep state: a "
        "running sum (cumulative graph), a call counter, a callable consuming an iterator; the oracle and the model "
        "(Model/C12Call.lean) state that make_value is called exactly once per cell, in cell order, and that point i "
        "carries the i-th result - x tuple/string/invalid field names of matching and non-matching count x scale None/True/number), graph "
        "(every naming with 1..3 coordinates and 0..3 error fields drawn from error_<c>, error_<c>_low, error_<c>_high "
        "over all coordinates c, enumerated exhaustively; invalid namings: error before coordinate, unknown coordinate, "
        "ambiguous, duplicates, wrong count, string forms; scale(other) for unknown/zero/non-zero scale), csv (ToCSV.run "
        "for 1-3-dim histograms and graphs x duplicate_last_bin element/context settings x to_csv flag x header x "
        "separator x row_end/last_row_end; the text is parsed back), scale_to / GroupScale / ScaleTo over groups of "
        "histograms, graphs and objects without scale, scale_get (scale(recompute) with fresh, stale and missing stored "
        "scale), graph_add (graph + graph with and without error fields, equal and unequal numbers of points), mk_hist "
        "(valid and invalid constructor arguments). About 15 % of the histograms have their edges as tuples (nested "
        "tuples or a list of tuples); about 15 % of the one-dimensional histograms have their edges nested in a list, "
        "[[x0, ...]]. Calls with every argument left at its default (a.add(b), hist_to_graph(h), HistToGraph(), ToCSV()), "
        "make_value returning a list, groups given as tuples, add with arbitrary floats and weights (judged with a "
        "rigorous rounding bound), add with mid-size edge differences that separate relative from absolute tolerance, "
        "add / CSV with bins that do not have the shape of the edges are part of the mixture. Extension round: iter_coord (iter_cells with coord_ranges: coordinates on edges, "
        "inside bins, outside; single pair / tuple of pairs / wrong count / together with ranges), bin_edges and "
        "bin_on_index (number and tuple indices, in and out of range), csv_text (the complete CSV text incl. header, "
        "separator, row_end, last_row_end and '{:f}' rounding of arbitrary floats, ties k/128, bins that are lists, data "
        "without rows()), csv_flow and h2g_flow (two or three values through ONE ToCSV / HistToGraph element), "
        "chain (multi-step sequences on two histograms with equal edges: scale()/scale(s)/set_nevents/get_nevents/add "
        "with weights 1, 2, -1, 1/2 in random order, operands with computed, user-set/stale, zero or missing stored "
        "scale, incl. histograms with events but zero integral; every step observed, final states compared), h2g_el "
        "(the HistToGraph element: make_value None / Variable / not a Variable, context.histogram.to_graph, "
        "non-histograms), gchain (scale / scale() / + / rows() sequences on ONE graph, given or made by hist_to_graph), GroupScale on a non-sequence, graph + non-graph. Enumerated first: every shape x every "
        "histogram operation, every valid naming, the prefix/extension edges of add; then a seeded random mixture of all "
        "operations (12 k quick / 120 k thorough), produced lazily. Adversary round: every case also draws a call form (keyword / "
        "positional in the documented order / mixed), the kind of its target number (int / float / Fraction), for graphs "
        "whether equal columns are one list object and whether columns are tuples, for 2- and 3-dimensional histograms "
        "whether rows / planes / axes are one list object (about a quarter each; also in chains and groups), a structure "
        "twice in a group, hist_to_graph scale in {None, True, 1, 1.0, 0, 5, 1/2, -2} x kinds, CSV through the line-by-line "
        "functions hist1d_to_csv / hist2d_to_csv directly, and (10 % of the mixture) larger shapes up to 11 bins, 5 x 2, "
        "4 x 3 x 2. The aliased exact cases are also run through the object-level model. With every case the specification vocabulary of the "
        "theorems (Model/C12Spec.lean: wfB, validB, inRangeB, validRangesB, selAll/rangePred, cellEdgesRef, cellRow, "
        "pointOf, rowsFor, bins1d/2d, errorFieldOfB, edgesNotAbove; NArr.map/values/zipWith/get?/indexProd) is executed "
        "by the driver and compared with Python reference computations. Non-trivial: the structure has at least two cells/points and "
        "the operation returned a non-empty result, or an exception was raised.")
CASE_TIMEOUT = 10

REL_DEFAULT = 1e-9   # edges_rel_tol of histogram.add


# ----------------------------------------------------------------------------------------------
# numbers

def enc(x):
    """exact rational string of a Python int / float / Fraction"""
    if isinstance(x, bool):
        return {"bool": x}
    if isinstance(x, float) and not math.isfinite(x):
        return {"nonfinite": repr(x)}
    if isinstance(x, (int, float, F)):
        f = F(x)
        return f"{f.numerator}/{f.denominator}"
    return {"obj": type(x).__name__}


def q(s):
    """Fraction of an encoded number (accepts 'n', 'n/d')"""
    return F(s)


def is_num(s):
    return isinstance(s, str)


def pynum(s, kind):
    """the Python number the real code receives"""
    f = F(s)
    if kind == "int" and f.denominator == 1:
        return int(f)
    if kind == "frac":
        return f                     # a fractions.Fraction (a numbers.Number that is neither int nor float)
    x = float(f)
    assert F(x) == f, ("not exactly representable", s)
    return x


def norm(s):
    return enc(F(s))


def enc_nested(b):
    if isinstance(b, (list, tuple)):
        return [enc_nested(x) for x in b]
    return enc(b)


def py_nested(b, kind):
    if isinstance(b, list):
        return [py_nested(x, kind) for x in b]
    return pynum(b, kind)


def map_nested(f, b):
    if isinstance(b, list):
        return [map_nested(f, x) for x in b]
    return f(b)


def flat_nested(b):
    if isinstance(b, list):
        for x in b:
            yield from flat_nested(x)
    else:
        yield b


# ----------------------------------------------------------------------------------------------
# histograms of a case

def axes_of(hc):
    e = hc["edges"]
    return [e["f"]] if "f" in e else e["n"]


def build_hist(hc):
    import lena.structures
    kind, ekind = hc.get("kind", "float"), hc.get("ekind", "float")
    e = hc["edges"]
    edges = [pynum(x, ekind) for x in e["f"]] if "f" in e else [[pynum(x, ekind) for x in ax] for ax in e["n"]]
    econt = hc.get("econt", "list")
    if econt == "tuple":            # edges as (nested) tuples
        edges = tuple(edges) if "f" in e else tuple(tuple(ax) for ax in edges)
    elif econt == "tuple_axes" and "n" in e:     # a list of tuples
        edges = [tuple(ax) for ax in edges]
    bins = py_nested(hc["bins"], kind)
    if hc.get("alias"):
        # equal sub-lists of the bins (rows, planes) are ONE list object, equal axes of the edges too: bins=[row] * n,
        # a row re-used for several x, edges=[axis, axis] are histograms like any other
        bins = _intern_lists(bins, {})
        if isinstance(edges, list) and edges and isinstance(edges[0], list):
            edges = _intern_lists(edges, {})
    h = lena.structures.histogram(edges, bins=bins)
    h.n_out_of_range = pynum(hc["nout"], kind)
    if hc.get("scale") is not None:
        h._scale = pynum(hc["scale"], "float")
    return h


def _intern_lists(b, seen):
    """the same nested list in which sub-lists with equal contents (and equal types of the numbers) are one object"""
    if not isinstance(b, list):
        return b
    b = [_intern_lists(x, seen) for x in b]
    key = repr(b)
    return seen.setdefault(key, b)


def hist_state(h):
    e = h.edges
    flat = not (len(e) and hasattr(e[0], "__iter__"))
    return {"edges": {"f": [enc(x) for x in e]} if flat else {"n": [[enc(x) for x in ax] for ax in e]},
            "bins": enc_nested(h.bins), "nout": enc(h.n_out_of_range),
            "scale": None if h._scale is None else enc(h._scale)}


def model_hist(hc):
    return {"edges": hc["edges"], "bins": hc["bins"], "nout": hc["nout"], "scale": hc.get("scale")}


def norm_hist(st):
    """canonical form of a hist state / model reply for comparison"""
    e = st["edges"]
    ne = {"f": [norm(x) for x in e["f"]]} if "f" in e else {"n": [[norm(x) for x in ax] for ax in e["n"]]}
    return {"edges": ne, "bins": map_nested(lambda s: norm(s) if is_num(s) else s, st["bins"]),
            "nout": norm(st["nout"]) if is_num(st["nout"]) else st["nout"],
            "scale": None if st.get("scale") is None else (norm(st["scale"]) if is_num(st["scale"]) else st["scale"])}


def shape_of(hc):
    return [len(ax) - 1 for ax in axes_of(hc)]


def ref_cells(hc):
    """independent enumeration of the cells of a well-shaped case histogram: (index, content, ((lo, hi), ...))"""
    axes = [[q(x) for x in ax] for ax in axes_of(hc)]
    out = []
    for idx in itertools.product(*[range(len(ax) - 1) for ax in axes]):
        b = hc["bins"]
        for i in idx:
            b = b[i]
        out.append((idx, q(b), tuple((axes[k][i], axes[k][i + 1]) for k, i in enumerate(idx))))
    return out


def ref_integral(hc):
    tot = F(0)
    for idx, v, ed in ref_cells(hc):
        vol = F(1)
        for lo, hi in ed:
            vol *= hi - lo
        tot += vol * v
    return tot


def well_shaped(hc):
    def chk(b, dims):
        if not dims:
            return not isinstance(b, list)
        return isinstance(b, list) and len(b) == dims[0] and all(chk(x, dims[1:]) for x in b)
    return chk(hc["bins"], shape_of(hc))


# ----------------------------------------------------------------------------------------------
# graphs of a case

def build_graph(gc):
    import lena.structures
    kind = gc.get("kind", "float")
    coords = [[pynum(x, kind) for x in col] for col in gc["coords"]]
    if gc.get("alias"):
        # columns with equal contents are ONE list object (y = x given as the same list, symmetric errors given once
        # for error_y_low and error_y_high)
        seen = {}
        coords = [seen.setdefault(repr(col), col) for col in coords]
    cont = gc.get("colcont")
    if cont:
        # "coords is a list of one-dimensional coordinate and value sequences (usually lists)": tuples are sequences
        coords = [tuple(col) if (cont == "tuple" or (cont == "mixed" and k % 2 == 0)) else col
                  for k, col in enumerate(coords)]
    names = gc["names"]
    if names is None:
        fn = ["x", "y"]          # a list: neither a string nor a tuple
    elif "s" in names:
        fn = names["s"]
    else:
        fn = tuple(names["t"])
    scale = None if gc.get("scale") is None else pynum(gc["scale"], gc.get("skind", "float"))
    form = gc.get("form", "kw")
    if form == "pos":
        return lena.structures.graph(coords, fn, scale)
    if form == "mix":
        return lena.structures.graph(coords, fn, scale=scale)
    return lena.structures.graph(coords, field_names=fn, scale=scale)


def graph_state(g):
    return {"coords": [[enc(x) for x in col] for col in g.coords], "names": list(g.field_names),
            "scale": None if g._scale is None else enc(g._scale), "dim": g.dim,
            "parsed": [[p[1], p[2], p[3]] for p in g._parsed_error_names]}


def norm_graph(st):
    return {"coords": [[norm(x) if is_num(x) else x for x in col] for col in st["coords"]], "names": list(st["names"]),
            "scale": None if st["scale"] is None else (norm(st["scale"]) if is_num(st["scale"]) else st["scale"]),
            "dim": st["dim"], "parsed": [list(p) for p in st["parsed"]]}


def model_graph(gc):
    return {"coords": gc["coords"], "names": gc["names"], "scale": gc.get("scale")}


def names_tuple(names):
    """reference splitting of the field_names argument"""
    import re
    if names is None:
        return None
    if "s" in names:
        return tuple(re.findall(r"[^,\s]+", names["s"]))
    return tuple(names["t"])


def ref_parse_names(names):
    """independent reading of graph field names.  Returns (dim, {error field index: coordinate name}) or None if the
    naming is invalid (error field before a coordinate field, no or several coordinates for an error, duplicates)."""
    if len(set(names)) != len(names):
        return None
    is_err = [n.startswith("error_") for n in names]
    dim = 0
    while dim < len(names) and not is_err[dim]:
        dim += 1
    if not all(is_err[dim:]):
        return None
    if dim == 0:
        return None
    coords = names[:dim]
    owner = {}
    for i in range(dim, len(names)):
        rest = names[i][len("error_"):]
        cands = [c for c in coords if rest == c or rest.startswith(c + "_")]
        if len(cands) != 1:
            return None
        owner[i] = cands[0]
    return dim, owner


# ----------------------------------------------------------------------------------------------
# generation

SHAPES = ([(n,) for n in range(1, 5)] + [(a, b) for a in range(1, 4) for b in range(1, 4)] +
          [(a, b, c) for a in range(1, 4) for b in range(1, 4) for c in range(1, 3)])
#: larger shapes, part of the random mixture (index arithmetic that only fails for particular lengths)
BIG_SHAPES = [(5,), (6,), (8,), (11,), (4, 4), (5, 2), (2, 5), (1, 6), (4, 3, 2), (2, 2, 3), (2, 3, 4), (1, 1, 5)]
FORMS = ["kw", "pos", "mix"]
NUM_KINDS = ["int", "float", "frac"]
RATIOS = ["2", "3", "1/2", "-1", "1/4", "3/2", "1", "5", "-3/4", "8", "1/8"]
TARGETS = ["1", "3", "10", "7", "-2", "1/3", "7/10", "1000", "1/1000"]


def gen_axis(rng, n, ekind):
    if ekind == "int":
        x = F(rng.randint(-5, 5))
        out = [x]
        for _ in range(n):
            x += rng.randint(1, 3)
            out.append(x)
    else:
        x = F(rng.randint(-20, 20), 4)
        out = [x]
        for _ in range(n):
            x += F(rng.randint(1, 10), 4)
            out.append(x)
    return [enc(v) for v in out]


def gen_bins(rng, shape, kind, pattern):
    def val():
        if pattern == "zero":
            return F(0)
        if pattern == "pos":
            return F(rng.randint(1, 6)) if kind == "int" else F(rng.randint(1, 24), 4)
        return F(rng.randint(-3, 6)) if kind == "int" else F(rng.randint(-12, 24), 4)

    def rec(dims):
        if not dims:
            return enc(val())
        return [rec(dims[1:]) for _ in range(dims[0])]
    return rec(list(shape))


def gen_hist(rng, shape, kind=None, pattern=None, ekind=None):
    kind = kind or rng.choice(["int", "float"])
    ekind = ekind or rng.choice(["int", "float"])
    pattern = pattern or rng.choice(["any", "any", "pos", "any", "zero" if rng.random() < 0.3 else "any"])
    axes = [gen_axis(rng, n, ekind) for n in shape]
    # one-dimensional edges: the list of numbers, or (about 15 %) the same list nested in a list, [[x0, x1, ...]]
    flat = len(shape) == 1 and rng.random() > 0.15
    hc = {"edges": {"f": axes[0]} if flat else {"n": axes}, "bins": gen_bins(rng, shape, kind, pattern),
          "nout": enc(F(rng.randint(0, 4)) if kind == "int" or rng.random() < 0.5 else F(rng.randint(0, 12), 4)),
          "scale": None, "kind": kind, "ekind": ekind}
    r = rng.random()
    if r < 0.12:
        hc["econt"] = "tuple"
    elif r < 0.18:
        hc["econt"] = "tuple_axes"
    _alias_hist(rng, hc, shape)
    return hc


def _alias_hist(rng, hc, shape):
    """about a quarter of the 2- and 3-dimensional histograms have rows (planes) that are ONE list object
    (bins=[row] * n, a row re-used for several x; build_hist shares equal sub-lists when "alias" is set); some have
    two axes that are one list"""
    if len(shape) < 2:
        return
    b = hc["bins"]
    r = rng.random()
    if r < 0.25:
        how = rng.random()
        if len(shape) == 2 or how < 0.5:
            src = rng.randrange(len(b))
            for k in range(len(b)):
                if k != src and rng.random() < 0.75:
                    b[k] = copy.deepcopy(b[src])
        if len(shape) == 3 and how >= 0.3:
            src = copy.deepcopy(rng.choice(rng.choice(b)))
            for plane in b:
                for k in range(len(plane)):
                    if rng.random() < 0.6:
                        plane[k] = copy.deepcopy(src)
        hc["alias"] = True
    elif r < 0.30:
        hc["alias"] = True           # whatever is equal by chance (all rows of an all-zero histogram)
    axes = hc["edges"].get("n")
    if axes and "econt" not in hc and rng.random() < 0.12:
        same = [(i, j) for i in range(len(axes)) for j in range(len(axes)) if i < j and len(axes[i]) == len(axes[j])]
        if same:
            i, j = rng.choice(same)
            axes[j] = list(axes[i])
            hc["alias"] = True


def zero_integral_hist(rng):
    """non-zero contents whose integral is zero"""
    w = rng.randint(1, 3)
    return {"edges": {"f": [enc(F(0)), enc(F(w)), enc(F(2 * w))]}, "bins": [enc(F(3)), enc(F(-3))], "nout": enc(F(1)),
            "scale": None, "kind": "int", "ekind": "int"}


def hscale_case(rng, hc, exact):
    I = ref_integral(hc)
    c = {"op": "hscale", "h": hc, "exact": bool(exact)}
    if rng.random() < 0.3:
        hc = dict(hc, scale=enc(I))          # scale computed before
        c["h"] = hc
    if exact:
        r = q(rng.choice(RATIOS))
        other = r * I if I != 0 else r
        c["other"], c["okind"] = enc(other), rng.choice(NUM_KINDS)
    else:
        c["other"], c["okind"] = rng.choice(TARGETS + ["0"] * 1), "float"
        try:
            pynum(c["other"], "float")
        except AssertionError:
            if rng.random() < 0.4:
                c["okind"] = "frac"      # the target 1/3 or 7/10 itself, as a fractions.Fraction
            else:
                # a target that is not a float (1/3, 7/10): the real code gets the nearest float, the oracle its exact value
                c["other"] = enc(float(q(c["other"])))
    c["form"] = rng.choice(FORMS)
    return c


def scale_get_case(rng, hc):
    """scale(recompute) of a histogram whose scale was or was not computed before (possibly stale)"""
    I = ref_integral(hc)
    cached = rng.choice([None, enc(I), enc(I + 1), enc(I * 2 + F(1, 2)), "0"])
    return {"op": "scale_get", "h": dict(hc, scale=cached), "recompute": rng.random() < 0.5, "form": rng.choice(FORMS)}


def nevents_case(rng, hc, exact):
    incl = rng.random() < 0.5
    tot = sum(v for _, v, _ in ref_cells(hc)) + (q(hc["nout"]) if incl else 0)
    c = {"op": "nevents", "h": hc, "incl": incl, "exact": bool(exact)}
    if exact:
        r = q(rng.choice(RATIOS))
        c["n"] = enc(r * tot if tot != 0 else r)
    else:
        c["n"] = enc(float(q(rng.choice(TARGETS))))
    c["nkind"] = rng.choice(NUM_KINDS if exact else ["int", "float"])
    c["form"] = rng.choice(FORMS)
    return c


def perturb_axes(rng, hc, how):
    """a copy of hc's edges: 'far' = one edge moved by 1/8 (far above the tolerance), 'near' = one edge multiplied by
    (1 + 2**-40) (far below the relative tolerance 1e-9, but not equal)"""
    hc2 = copy.deepcopy(hc)
    axes = axes_of(hc2)
    k = rng.randrange(len(axes))
    i = rng.randrange(len(axes[k]))
    v = q(axes[k][i])
    if how in ("near", "mid"):
        # prefer an edge that is exactly 0 (relative and absolute tolerance differ most there) / a large one for 'mid'
        cands = [(kk, ii) for kk, ax in enumerate(axes) for ii, x in enumerate(ax)
                 if (q(x) == 0 if how == "near" else abs(q(x)) >= 4)]
        if cands and rng.random() < 0.7:
            k, i = rng.choice(cands)
            v = q(axes[k][i])
    if how == "far":
        nv = v + F(1, 8)
    elif how == "mid":
        # a relative change of 1/2048: inside a relative tolerance of 1/1024, outside an absolute one of 1/1024 for
        # |v| >= 4 (a factor 2 on either side of the threshold)
        nv = v * (1 + F(1, 2048)) if abs(v) >= 4 else v + F(1, 2048)
    else:
        nv = v * (1 + F(1, 2 ** 40)) if v != 0 else F(1, 2 ** 40)
    axes[k][i] = enc(nv)
    hc2["ekind"] = "float"
    # keep the edges increasing (1/8 is below the smallest step 1/4)
    return hc2


def extend_axis(rng, hc, axis, extra):
    """a histogram whose edges BEGIN with those of hc: `extra` more bins at the end of one axis (same leading
    edges, new random contents of the new shape)"""
    hc2 = copy.deepcopy(hc)
    axes = axes_of(hc2)
    for _ in range(extra):
        axes[axis].append(enc(q(axes[axis][-1]) + (rng.randint(1, 3) if hc["ekind"] == "int" else F(rng.randint(1, 10), 4))))
    hc2["bins"] = gen_bins(rng, shape_of(hc2), hc["kind"], "any")
    return hc2


def add_prefix_case(rng, shape, axis, order, extra=1):
    """add of two histograms one of whose edges are a proper prefix of the other's along one axis (equal leading
    edges, different numbers of bins): order 'ext' = the other histogram has the extra bins, 'pre' = self has them"""
    small = gen_hist(rng, shape)
    small.pop("econt", None)
    big = extend_axis(rng, small, axis, extra)
    a, b = (small, big) if order == "ext" else (big, small)
    return {"op": "add", "a": a, "b": b, "w": rng.choice(["1", "1", "-1", "2", "1/2"]), "wkind": rng.choice(NUM_KINDS),
            "tol": rng.choice([None, None, ["0", "0"], ["1/1024", "0"]]), "rel": order, "form": rng.choice(FORMS)}


def add_case(rng, shape):
    if rng.random() < 0.2:
        return add_prefix_case(rng, shape, rng.randrange(len(shape)), rng.choice(["ext", "pre"]), rng.randint(1, 2))
    a = gen_hist(rng, shape)
    b = gen_hist(rng, shape, ekind=a["ekind"])
    b["edges"] = copy.deepcopy(a["edges"])
    r = rng.random()
    rel = "same"
    if r < 0.15:
        b = perturb_axes(rng, b, "far")
        rel = "far"
    elif r < 0.22:
        b = perturb_axes(rng, b, "near")
        rel = "near"
    elif r < 0.30:
        b = perturb_axes(rng, b, "mid")
        rel = "mid"
    elif r < 0.40:
        shape2 = rng.choice([s for s in SHAPES if s != tuple(shape)])
        b = gen_hist(rng, shape2)
        rel = "shape"
    elif r < 0.45:
        rel = "nothist"
    w = rng.choice(["1", "1", "-1", "2", "1/2", "0", "-3/4", "3"])
    tol = rng.choice([None, None, ["0", "0"], ["1/1024", "0"], ["0", "1/1024"]])
    if rel == "mid":
        tol = rng.choice([["1/1024", "0"], ["0", "1/1024"]])
    c = {"op": "add", "a": a, "b": b, "w": w, "wkind": rng.choice(NUM_KINDS), "tol": tol, "rel": rel,
         "form": rng.choice(FORMS)}
    r2 = rng.random()
    if rel == "same" and r2 < 0.3:
        # arbitrary floats (thirds, tenths, long decimals) and weights: the sum is judged with a rigorous rounding bound
        def val(_):
            k = rng.random()
            if k < 0.4:
                return enc(float(q(rng.choice(TEXT_VALUES))))
            if k < 0.8:
                return enc(rng.uniform(-50, 50))
            return enc(float(F(rng.randint(-999999, 999999), 10 ** rng.randint(1, 13))))
        for hc in (a, b):
            hc["bins"] = map_nested(val, hc["bins"])
            hc["kind"] = "float"
            hc["nout"] = enc(rng.uniform(0, 5))
        c["w"] = enc(rng.choice([1.0, -1.0, 1 / 3, 0.1, 2.5, rng.uniform(-3, 3), 1e-7, 12345.678]))
        c["wkind"] = "float"
        c["exact"] = False
    elif rel == "same" and r2 < 0.36:
        # bins that do not have the shape of the edges (deeper, ragged): md_map's own behaviour
        which = rng.choice(["a", "b", "both"])
        for key in ("a", "b"):
            if which in (key, "both"):
                hc = c[key]
                if rng.random() < 0.5:
                    hc["bins"] = map_nested(lambda v: [v, v], hc["bins"])
                elif isinstance(hc["bins"][0], list) and len(hc["bins"][0]) > 1:
                    hc["bins"][0] = hc["bins"][0][:-1]
                else:
                    hc["bins"] = map_nested(lambda v: [v], hc["bins"])
        c["rel"] = "misshapen"
    if c["w"] == "1" and tol is None and c["rel"] != "nothist" and rng.random() < 0.5:
        c["defaults"] = True        # a.add(b): no weight, no tolerances given
    return c


def iter_case(rng, shape):
    hc = gen_hist(rng, shape)
    r = rng.random()
    dims = list(shape)
    if r < 0.3:
        ranges = None
    elif r < 0.4:
        ranges = []
    elif r < 0.75:
        ranges = []
        for n in dims:
            lo = rng.choice([None, 0, 0, rng.randint(0, n)])
            up = rng.choice([None, n, n, rng.randint(0, n), rng.randint(min(n, (lo or 0) + 1), n)])
            ranges.append([lo, up])
    elif r < 0.85:
        ranges = [[rng.choice([None, -1, 0, 1]), rng.choice([None, n, n + 1, -1])] for n in dims]
    elif r < 0.93:
        # fewer or more ranges than dimensions
        k = rng.choice([max(0, len(dims) - 1), len(dims) + 1]) or 1
        ranges = [[None, None] for _ in range(k)]
    else:
        ranges = None
        # bins not of the shape of the edges: deeper, or smaller
        if rng.random() < 0.5 or len(dims) == 1:
            hc["bins"] = map_nested(lambda s: [s, s], hc["bins"])
        else:
            axes = axes_of(hc)
            axes[-1].append(enc(q(axes[-1][-1]) + 1))
    return {"op": "iter", "h": hc, "ranges": ranges, "form": rng.choice(FORMS)}


MV_WIDTH = {None: 1, "double": 1, "pair": 2, "triple": 3, "pairlist": 2, "runsum": 1, "count": 2, "feed": 2}
# make_value callables that keep state between their calls (the number and the order of the calls of the user's
# callable are observable behaviour of the conversion): a running sum (the cumulative graph of a histogram), a counter
# numbering the cells, a callable consuming an iterator; the pure make_value of the same width
MV_STATEFUL = {"runsum": "double", "count": "pair", "feed": "pair"}
COORD_NAMES = ["x", "y", "z"]


def h2g_case(rng, shape):
    hc = gen_hist(rng, shape)
    dim = len(shape)
    mv = rng.choice([None, None, "double", "pair", "triple", "pairlist", "runsum", "count", "feed"])
    width = dim + MV_WIDTH[mv]
    mode = rng.choice(["left", "right", "middle", "left", "right", "middle", "center"])
    base = COORD_NAMES[:dim] + ["v", "error_v", "error_v_low"][:MV_WIDTH[mv]]
    r = rng.random()
    if r < 0.55:
        names = {"t": base}
    elif r < 0.75:
        names = {"s": rng.choice([",", ", ", " ", "\t", " , "]).join(base)}
    elif r < 0.82:
        names = None
    elif r < 0.90:
        names = {"t": base[:max(1, width - 1)]}        # too few names: the value column is cut
    elif r < 0.96:
        names = {"t": base + ["error_v_high"]}          # too many names
    else:
        names = {"t": [n if i else "error_q" for i, n in enumerate(base)]}   # invalid naming
    if width == 1 + dim and mv is None and r < 0.3:
        names = {"t": COORD_NAMES[:dim] + ["y" if dim == 1 else "val"]}
    # numbers that compare equal to True / False are numbers: a graph of scale 1 (a normalised density) is not scale=True
    sc = rng.choice([None, None, True, True, "5", "0", "1", "1", "1/2", "-2"])
    c = {"op": "h2g", "h": hc, "mv": mv, "mode": mode, "fields": names, "scale": sc, "skind": rng.choice(NUM_KINDS),
         "form": rng.choice(FORMS)}
    if dim == 1 and rng.random() < 0.25:
        # the call with every argument left at its default: hist_to_graph(hist) / HistToGraph()
        c.update(mv=None, mode="left", fields={"t": ["x", "y"]}, scale=None, defaults=True)
    return c


def all_namings():
    """every valid naming with 1..3 coordinates and 0..3 error fields from error_c, error_c_low, error_c_high"""
    out = []
    for dim in (1, 2, 3):
        coords = COORD_NAMES[:dim]
        pool = [f"error_{c}{suf}" for c in coords for suf in ("", "_low", "_high")]
        for k in range(0, 4):
            for errs in itertools.permutations(pool, k):
                out.append(coords + list(errs))
    return out


def tricky_naming(rng):
    """field names whose coordinates are prefixes of each other (valid or not)"""
    coords = rng.choice([["E", "time", "E_kin"], ["a", "ab", "a_b"], ["x", "x_1"], ["x", "xy", "x_y"], ["p", "pT"],
                         ["error", "err"], ["y", "y_"]])
    coords = coords[:rng.randint(1, len(coords))]
    pool = [f"error_{c}{suf}" for c in coords for suf in ("", "_low", "_high", "_1", "_")]
    k = rng.randint(0, 3)
    return coords + rng.sample(pool, k)


BAD_NAMINGS = [
    ["error_x", "x"], ["x", "error_x", "y"], ["x", "error_y"], ["x", "y", "error_q_low"], ["x", "x"], ["x", "y", "y"],
    ["x", "x_y", "error_x_y"], ["x", "x_y", "error_x_y_low"], ["x", "x_y", "error_x"], ["x", "xy", "error_xy"],
    ["x", "xy", "error_x_y"], ["error_x"], ["error_"], ["x", "error_"], ["x", "error_x", "error_x"], ["x", "errorx"],
    ["x", "error"], ["E", "time", "error_E_low", "error_time"], ["x", "y", "error_x_"], ["a_b", "a", "error_a_b"],
    ["error", "error_error"], ["x_1", "x", "error_x_1_low", "error_x_low"],
]


def graph_case(rng, names, npts=None, kind=None, form=None):
    npts = rng.randint(0, 4) if npts is None else npts
    kind = kind or rng.choice(["int", "float"])
    ncols = len(names)
    coords = [[enc(F(rng.randint(-6, 12)) if kind == "int" else F(rng.randint(-24, 48), 4)) for _ in range(npts)]
              for _ in range(ncols)]
    form = form or rng.choice(["t", "t", "t", "s"])
    nm = {"t": list(names)} if form == "t" else {"s": rng.choice([",", ", ", " "]).join(names)}
    sc = rng.choice([None, "0", "2", "3/4", "-5", "1", "8"])
    g = {"coords": coords, "names": nm, "scale": sc, "kind": kind, "skind": rng.choice(NUM_KINDS), "form": rng.choice(FORMS)}
    if ncols >= 2 and npts and rng.random() < 0.3:
        # columns that are ONE list object (y = x given as the same list, symmetric errors given once)
        for _ in range(rng.randint(1, 2)):
            i, j = rng.sample(range(ncols), 2)
            coords[j] = list(coords[i])
        g["alias"] = True
    r = rng.random()
    if r < 0.10:
        g["colcont"] = "tuple"       # the coordinate sequences are tuples
    elif r < 0.18:
        g["colcont"] = "mixed"
    c = {"op": "graph", "g": g, "exact": True, "form": rng.choice(FORMS)}
    r = q(rng.choice(RATIOS))
    if sc is not None and q(sc) != 0:
        if rng.random() < 0.8:
            c["other"] = enc(r * q(sc))
        else:
            c["other"], c["exact"] = enc(float(q(rng.choice(TARGETS)))), False
    else:
        c["other"] = enc(r)
    c["okind"] = rng.choice(NUM_KINDS if c["exact"] else ["int", "float"])
    return c


def coord_value(rng, ax):
    """a coordinate near the edges of an axis: an edge, a midpoint, just outside, far outside"""
    vals = [q(x) for x in ax]
    k = rng.randrange(len(vals))
    r = rng.random()
    if r < 0.3:
        return vals[k]
    if r < 0.6 and k + 1 < len(vals):
        return (vals[k] + vals[k + 1]) / 2
    if r < 0.75:
        return vals[0] - F(rng.randint(1, 8), 4)
    if r < 0.9:
        return vals[-1] + F(rng.randint(0, 8), 4)
    return vals[k] + F(rng.randint(-3, 3), 8)


def iter_coord_case(rng, shape):
    hc = gen_hist(rng, shape)
    axes = axes_of(hc)
    r = rng.random()
    if len(shape) == 1 and r < 0.3:
        coord = {"single": [enc(coord_value(rng, axes[0])), enc(coord_value(rng, axes[0]))]}
    else:
        n = len(shape)
        if r > 0.92:
            n = rng.choice([max(1, n - 1), n + 1])
        if r > 0.985:
            n = 0
        coord = {"many": [[enc(coord_value(rng, axes[min(k, len(axes) - 1)])), enc(coord_value(rng, axes[min(k, len(axes) - 1)]))]
                          for k in range(n)]}
    c = {"op": "iter_coord", "h": hc, "coord": coord, "ranges_given": rng.random() < 0.05, "form": rng.choice(FORMS)}
    if rng.random() < 0.5:
        # ordered ranges are the interesting ones
        for pr in coord.get("many", [coord.get("single")] if "single" in coord else []):
            if q(pr[0]) > q(pr[1]):
                pr[0], pr[1] = pr[1], pr[0]
    return c


def bin_index_case(rng, shape):
    hc = gen_hist(rng, shape)
    dim = len(shape)
    r = rng.random()
    idx = [rng.randint(0, n if rng.random() < 0.15 else n - 1) for n in shape]
    if r < 0.2:
        index = idx[0]
    elif r < 0.3:
        index = idx[:max(0, dim - 1)]
    elif r < 0.35:
        index = idx + [0]
    else:
        index = idx
    return {"op": rng.choice(["bin_edges", "bin_on_index"]), "h": hc, "index": index}


TEXT_VALUES = ["1/3", "2/3", "-1/3", "1/7", "22/7", "1/128", "3/128", "5/128", "-7/128", "1/2000000", "3/2000000",
               "-1/1000000000", "123456789/1000", "999999/1000000", "9999995/10000000", "1/10", "7/10", "-5/2"]


def csv_text_case(rng, shape):
    c = csv_case(rng, shape)
    c["op"] = "csv_text"
    hc = c["h"]
    if rng.random() < 0.7:
        # arbitrary floats: the exact value of the float nearest to a "difficult" number
        def val(_):
            r = rng.random()
            if r < 0.5:
                return enc(float(q(rng.choice(TEXT_VALUES))))
            if r < 0.8:
                return enc(rng.uniform(-50, 50))
            return enc(F(rng.randint(-300, 300), 128))
        hc["bins"] = map_nested(val, hc["bins"])
        hc["kind"] = "float"
    if rng.random() < 0.25:
        c["direct"] = True       # hist1d_to_csv / hist2d_to_csv called directly (line by line), not through ToCSV
    return c


def h2g_el_case(rng, shape):
    c = h2g_case(rng, shape)
    c["op"] = "h2g_el"
    if rng.random() < 0.08:
        c["mv"] = "notvar"
    c["is_hist"] = rng.random() > 0.1
    c["to_graph"] = rng.random() > 0.15
    c["ctx"] = rng.random() < 0.8
    return c


def csv_flow_case(rng):
    """several histograms through ONE ToCSV element (state must not leak from one value to the next)"""
    n = rng.randint(2, 3)
    vals = []
    while len(vals) < n:
        v = _csv_text_case(rng)
        if v.get("lists") or v.get("misshapen") or v.get("data"):
            continue
        vals.append(v)
    base = vals[0]
    return {"op": "csv_flow", "vals": vals, "sep": base["sep"], "header": base["header"], "row_end": base["row_end"],
            "last_row_end": base["last_row_end"], "dup": base["dup"], "form": rng.choice(FORMS)}


def h2g_flow_case(rng):
    """several values through ONE HistToGraph element"""
    first = h2g_el_case(rng, rng.choice(SHAPES[:13]))
    first["mv"] = MV_STATEFUL.get(first["mv"], first["mv"])     # one element, several values: the state would go on
    dim = len(shape_of(first["h"]))
    if first["mv"] == "notvar" or first["mode"] not in ("left", "right", "middle"):
        first["mv"], first["mode"] = None, "left"
    vals = [first]
    for _ in range(rng.randint(1, 2)):
        shape = rng.choice([sh for sh in SHAPES if len(sh) == dim])
        v = h2g_el_case(rng, shape)
        vals.append({"h": v["h"], "is_hist": v["is_hist"], "to_graph": v["to_graph"], "ctx": v["ctx"]})
    return {"op": "h2g_flow", "vals": vals}


# ---- multi-step chains on histograms -----------------------------------------------------------

class RefHist:
    """reference semantics of a histogram's documented behaviour, in exact arithmetic: scale() is the integral of the
    bins unless a scale was stored before (computed, set by scale(s), or given by the user); `clean` is False when the
    stored scale is stale because the contents changed after it was stored (then lena documents that the user must
    recompute, and nothing is stated about the value)"""

    def __init__(self, hc):
        self.hc = hc
        self.bins = [q(v) for v in flat_nested(hc["bins"])]
        self.nout = q(hc["nout"])
        self.cache = None if hc.get("scale") is None else q(hc["scale"])
        self.clean = True
        self.vols = [_vol(ed) for _, _, ed in ref_cells(hc)]

    def integral(self):
        return sum(v * b for v, b in zip(self.vols, self.bins))

    def scale_get(self, rc):
        if self.cache is None or rc:
            self.cache, self.clean = self.integral(), True
        return self.cache

    def scale_set(self, s):
        sc = self.scale_get(False)
        if sc == 0:
            return "LenaValueError"
        self.bins = [b * s / sc for b in self.bins]
        self.nout = self.nout * s / sc
        self.cache = s
        return None

    def nevents(self, incl):
        return sum(self.bins) + (self.nout if incl else 0)

    def set_nevents(self, n, incl):
        old = self.nevents(incl)
        if old == 0:
            return "LenaValueError"
        self.bins = [b * n / old for b in self.bins]
        self.nout = self.nout * n / old
        if self.cache is not None:
            self.clean = False
        return None

    def add(self, other, w):
        r = RefHist(self.hc)
        r.bins = [x + w * y for x, y in zip(self.bins, other.bins)]
        r.nout = self.nout + w * other.nout
        r.cache, r.clean = None, True
        return r


POW2 = ["1", "2", "4", "1/2", "-2", "1/4", "8"]
CHAIN_WEIGHTS = ["1", "2", "-1", "1/2"]


def chain_case(rng, shape=None):
    """a multi-step sequence on two histograms with equal edges: scale()/scale(s)/set_nevents/add/get_nevents in
    random order (operands with computed, set, stale or missing stored scale), observed after every step.  Targets are
    power-of-two multiples of the current value, so that every float operation of the real code is exact."""
    shape = shape or rng.choice(SHAPES[:13] + SHAPES)
    a = gen_hist_pow2(rng, shape)
    b = gen_hist_pow2(rng, shape)
    b["edges"] = copy.deepcopy(a["edges"])
    b["ekind"] = a["ekind"]
    if rng.random() < 0.25:
        # a non-zero number of events with a zero integral: bins of different width and sign
        h0 = zero_integral_hist(rng)
        w0 = q(h0["edges"]["f"][1])
        h0 = {"edges": {"f": [enc(F(0)), enc(w0), enc(3 * w0)]}, "bins": [enc(F(2)), enc(F(-1))], "nout": enc(F(1)),
              "scale": None, "kind": "int", "ekind": "int"}
        a, b = h0, dict(copy.deepcopy(h0), bins=[enc(F(1)), enc(F(3))])
    for hc in (a, b):
        r = rng.random()
        i = ref_integral(hc)
        if r < 0.25:
            hc["scale"] = enc(i)                 # computed before
        elif r < 0.4:
            hc["scale"] = enc(i * 2 + 1)         # set by the user / stale
        elif r < 0.45:
            hc["scale"] = "0"
    ref = {"a": RefHist(a), "b": RefHist(b)}
    steps = []
    n = rng.randint(2, 7)
    for _ in range(n):
        objs = [o for o in ("a", "b", "c") if o in ref]
        o = rng.choice(objs + (["c", "c"] if "c" in ref else []))
        r = rng.random()
        if r < 0.25:
            st = {"k": "scale_get", "o": o, "rc": rng.random() < 0.3}
            ref[o].scale_get(st["rc"])
        elif r < 0.45:
            cur = ref[o].cache if ref[o].cache is not None else ref[o].integral()
            ratio = q(rng.choice(POW2))
            st = {"k": "scale_set", "o": o, "s": enc(ratio * cur if cur != 0 else ratio)}
            ref[o].scale_set(q(st["s"]))
        elif r < 0.6:
            incl = rng.random() < 0.4
            old = ref[o].nevents(incl)
            ratio = q(rng.choice(POW2))
            st = {"k": "set_nevents", "o": o, "n": enc(ratio * old if old != 0 else ratio), "incl": incl}
            ref[o].set_nevents(q(st["n"]), incl)
        elif r < 0.7:
            st = {"k": "nevents", "o": o, "incl": rng.random() < 0.4}
        else:
            x, y = rng.choice([("a", "b"), ("a", "b"), ("b", "a"), ("a", "a")] + ([("c", "a"), ("a", "c")] if "c" in ref else []))
            st = {"k": "add", "x": x, "y": y, "w": rng.choice(CHAIN_WEIGHTS), "tol": rng.choice([None, ["0", "0"]])}
            ref["c"] = ref[x].add(ref[y], q(st["w"]))
        steps.append(st)
    if "c" in ref and rng.random() < 0.8:
        steps.append({"k": "scale_get", "o": "c", "rc": False})
        steps.append({"k": "nevents", "o": "c", "incl": False})
    return {"op": "chain", "a": a, "b": b, "steps": steps, "form": rng.choice(FORMS), "nk": rng.choice(NUM_KINDS)}


class RefGraph:
    """reference semantics of graph.scale / graph + graph for a graph with a valid naming"""

    def __init__(self, names, cols, scale):
        self.names = tuple(names)
        self.dim, self.owner = ref_parse_names(list(names))
        self.cols = [[q(x) for x in c] for c in cols]
        self.scale = scale
        self.known = True          # False once an operation outside the stated behaviour happened

    def mine(self, i):
        return i == self.dim - 1 or (i >= self.dim and self.owner[i] == self.names[self.dim - 1])

    def set_scale(self, s):
        if self.scale is None or self.scale == 0:
            return "LenaValueError"
        r = s / self.scale
        self.cols = [[v * r for v in c] if self.mine(i) else c for i, c in enumerate(self.cols)]
        self.scale = s
        return None

    def add(self, other):
        if len(self.names) != self.dim or other.dim != self.dim or \
                any(len(a) != len(b) for a, b in zip(self.cols[:self.dim], other.cols[:self.dim])):
            self.known = False     # error fields / different shapes: nothing is stated
            return
        self.cols = self.cols[:self.dim - 1] + [[x + y for x, y in zip(self.cols[self.dim - 1], other.cols[self.dim - 1])]]
        self.scale = None if (self.scale is None or other.scale is None) else self.scale + other.scale


def _ref_graph_of_src(src):
    """the reference graph a gchain case starts from, or None if its construction is outside the statement"""
    if "g" in src:
        gc = src["g"]
        names = names_tuple(gc["names"])
        cols = gc["coords"]
        if names is None or not cols or len(set(len(c) for c in cols)) != 1 or len(names) != len(cols) or \
                ref_parse_names(list(names)) is None:
            return None
        return RefGraph(names, cols, None if gc["scale"] is None else q(gc["scale"]))
    hg = src["h2g"]
    names = names_tuple(hg["fields"])
    dim = len(shape_of(hg["h"]))
    if hg["mode"] not in ("left", "right", "middle") or names is None or len(names) != dim + MV_WIDTH[hg["mv"]] or \
            ref_parse_names(list(names)) is None:
        return None
    pts = _ref_points(hg)
    cols = [list(c) for c in zip(*pts)] if pts else [[] for _ in names]
    sc = hg["scale"]
    scale = None if sc is None else (ref_integral(hg["h"]) if sc is True else q(sc))
    return RefGraph(names, cols, scale)


def gchain_case(rng):
    """a multi-step sequence on ONE graph object (given, or made by hist_to_graph): scale(s), scale(), + another
    graph, rows() in random order; targets are power-of-two multiples of the current scale (exact float arithmetic)"""
    if rng.random() < 0.35:
        hg = h2g_case(rng, rng.choice(SHAPES[:13]))
        hg["mv"] = MV_STATEFUL.get(hg["mv"], hg["mv"])
        if hg["mode"] not in ("left", "right", "middle"):
            hg["mode"] = "middle"
        hg["scale"] = rng.choice([True, True, "4", "1/2", None, "0", "1", "1"])
        src = {"h2g": {k: hg[k] for k in ("h", "mv", "mode", "fields", "scale", "skind")}}
        names = names_tuple(hg["fields"]) or ("x", "y")
    else:
        names = rng.choice(all_namings_cached() + [["x", "y"], ["x"], ["x", "y", "z"]] * 200)
        g = graph_case(rng, names, kind="float")["g"]
        g["scale"] = rng.choice([None, "0", "2", "1/2", "-4", "1", "8", "3", "5/4"])
        src = {"g": g}
    ref = _ref_graph_of_src(src)
    if ref is None:
        return gchain_case(rng)      # constructions outside the statement are the subject of the graph / h2g cases
    g2 = None
    if ref is not None and rng.random() < 0.5:
        npts = len(ref.cols[0])
        g2 = graph_case(rng, list(ref.names[:ref.dim]), npts=npts, kind="float", form="t")["g"]
        g2["scale"] = rng.choice([None, "2", "1", "-4", "3/2"])
    r2 = RefGraph(names_tuple(g2["names"]), g2["coords"], None if g2["scale"] is None else q(g2["scale"])) if g2 else None
    steps = []
    for _ in range(rng.randint(2, 6)):
        r = rng.random()
        if r < 0.5:
            cur = ref.scale if ref.scale else F(1)
            st = {"k": "scale", "s": enc(q(rng.choice(POW2)) * cur)}
            ref.set_scale(q(st["s"]))
        elif r < 0.65:
            st = {"k": "get"}
        elif r < 0.8 or g2 is None:
            st = {"k": "rows"}
        else:
            st = {"k": "add"}
            if len(ref.names) == ref.dim:
                ref.add(r2)          # with error fields the code raises and the graph stays as it is
        steps.append(st)
    steps.append({"k": "rows"})
    return {"op": "gchain", "src": src, "g2": g2, "steps": steps, "form": rng.choice(FORMS), "nk": rng.choice(NUM_KINDS)}


def graph_add_case(rng):
    dim = rng.randint(1, 3)
    coords_names = COORD_NAMES[:dim]
    errs_a = rng.choice([[], [], [], [f"error_{coords_names[-1]}"], [f"error_{coords_names[0]}_low"]])
    errs_b = rng.choice([[], [], [f"error_{coords_names[-1]}_high"]])
    n = rng.randint(0, 4)
    a = graph_case(rng, coords_names + errs_a, npts=n, form="t")["g"]
    r = rng.random()
    nb = n if r < 0.8 else (n + 1 if r < 0.9 else max(0, n - 1))
    b = graph_case(rng, coords_names + errs_b, npts=n, form="t")["g"]
    if nb != n:
        # only the last coordinate of `other` may differ in length (the other lengths are asserted)
        col = b["coords"][dim - 1]
        b["coords"][dim - 1] = (col + ["7/1"]) if nb > n else col[:-1]
        if len(b["coords"]) > 1:
            # graph.__init__ requires equal lengths: make all columns but the compared ones follow
            for k in range(len(b["coords"])):
                if k >= dim - 1:
                    c = b["coords"][k]
                    b["coords"][k] = (c + ["7/1"])[:nb] if nb > n else c[:nb]
            if dim > 1:
                return graph_add_case(rng)      # cannot keep the asserted lengths and a valid graph
    if rng.random() < 0.08:
        b = rng.choice(["other", {"hist": gen_hist(rng, (2,))}])
    elif rng.random() < 0.05:
        # different numbers of coordinates: an assert of graph.__add__ (the model declines: 'unmodelled')
        b = graph_case(rng, COORD_NAMES[:dim % 3 + 1], npts=n, form="t")["g"]
    return {"op": "graph_add", "a": a, "b": b}


def _csv_defaults(c):
    """ToCSV() with every argument left at its default"""
    if c.get("defaults"):
        c.update(sep=",", header=None, row_end="", last_row_end="", dup=True)
    return c


def csv_case(rng, shape):
    hc = gen_hist(rng, shape)
    return _csv_defaults({"op": "csv", "h": hc, "to_csv": rng.random() > 0.08, "ctx_dup": rng.choice([None, None, True, False]),
            "dup": rng.random() < 0.5, "header": rng.choice([None, None, "", "x,y", "# head"]),
            "sep": rng.choice([",", ",", ";", " ", "\t"]), "row_end": rng.choice(["", "", " \\\\"]),
            "last_row_end": rng.choice(["", "", " \\\\", "\n"]), "pair": rng.random() < 0.8, "form": rng.choice(FORMS),
            **({"defaults": True} if rng.random() < 0.15 else {})})


def gen_hist_pow2(rng, shape):
    """a histogram whose integral is 0 or +-2**k (so that target/integral is exact in floating point for the
    power-of-two targets used in groups): all bin widths are 1 or all are 2, the last cell balances the sum"""
    if len(shape) >= 2 and shape[0] == 2 and rng.random() < 0.4:
        # the two rows (planes) are ONE list object: [sub, sub] over two bins of equal width keeps the integral a power of two
        sub = gen_hist_pow2(rng, shape[1:])
        sub_axes = axes_of(sub)
        step = q(sub_axes[0][1]) - q(sub_axes[0][0])
        x = rng.randint(-3, 3)
        return {"edges": {"n": [[enc(F(x + step * i)) for i in range(3)]] + sub_axes},
                "bins": [sub["bins"], copy.deepcopy(sub["bins"])], "nout": sub["nout"], "scale": None,
                "kind": sub["kind"], "ekind": "int", "alias": True}
    step = rng.choice([1, 2])
    axes = []
    for n in shape:
        x = rng.randint(-3, 3)
        axes.append([enc(F(x + step * i)) for i in range(n + 1)])
    kind = rng.choice(["int", "float"])
    bins = gen_bins(rng, shape, kind, "any")
    flat = [q(v) for v in flat_nested(bins)]
    total = rng.choice([0, 1, 2, 4, 8, -2, 1, 4, F(1, 2)])
    if kind == "int" and total != int(total):
        total = 1
    last = F(total) - sum(flat[:-1])
    cnt = [0]

    def rep(v):
        cnt[0] += 1
        return enc(last) if cnt[0] == len(flat) else v
    bins = map_nested(rep, bins)
    hc = {"edges": {"f": axes[0]} if len(shape) == 1 else {"n": axes}, "bins": bins,
          "nout": enc(F(rng.randint(0, 4))), "scale": None, "kind": kind, "ekind": "int"}
    return hc


def group_item(rng):
    r = rng.random()
    if r < 0.5:
        shape = rng.choice(SHAPES[:13])
        hc = gen_hist_pow2(rng, shape)
        if rng.random() < 0.25:
            hc = dict(hc, scale=enc(ref_integral(hc)))
        return {"hist": hc}
    if r < 0.9:
        names = rng.choice([["x", "y"], ["x", "y", "error_y"], ["x", "y", "z", "error_z_low", "error_x"], ["x"]])
        g = graph_case(rng, names, kind="float")["g"]
        g["scale"] = rng.choice([None, "0", "2", "1/2", "-4", "1", "8"])
        return {"graph": g}
    return "other"


def scale_to_case(rng):
    n = rng.randint(1, 3)
    group = [group_item(rng) for _ in range(n)]
    r = rng.random()
    if r < 0.6:
        target = rng.choice(["1", "2", "4", "1/2", "-8", "16"])
    elif r < 0.8:
        target = "hist"
    else:
        target = "graph"
    c = {"op": "scale_to", "group": group, "target": target, "az": rng.random() < 0.4, "au": rng.random() < 0.4,
         "via": rng.choice(["scale_to", "GroupScale"]), "ctx": rng.random() < 0.7, "seq": rng.random() > 0.06,
         "tuple": rng.random() < 0.3, "form": rng.choice(FORMS), "tkind": rng.choice(NUM_KINDS)}
    if n >= 2 and target not in ("hist", "graph") and rng.random() < 0.15:
        # one structure that is in the group twice (the same object): rescaled to s when it is met first, from s to s
        # (exactly, s is a power of two) when it is met again; reference and model see the group without the repetition
        i, j = sorted(rng.sample(range(n), 2))
        group[j] = copy.deepcopy(group[i])
        c["same"] = [i, j]
    return c


def scale_to_call_case(rng):
    return {"op": "scale_to_call", "item": group_item(rng), "s": rng.choice(["1", "2", "4", "1/2", "-8", "16"]),
            "ctx": rng.random() < 0.5, "tkind": rng.choice(NUM_KINDS)}


def mk_hist_case(rng):
    shape = rng.choice(SHAPES)
    hc = gen_hist(rng, shape)
    c = {"op": "mk_hist", "edges": copy.deepcopy(hc["edges"]), "bins": rng.choice([None, hc["bins"]]),
         "init": rng.choice(["0", "0", "1", "5/2"]), "kind": hc["kind"], "ekind": hc["ekind"], "form": rng.choice(FORMS)}
    r = rng.random()
    axes = [c["edges"]["f"]] if "f" in c["edges"] else c["edges"]["n"]
    if r < 0.15:
        ax = rng.choice(axes)
        i = rng.randrange(len(ax) - 1)
        ax[i + 1] = ax[i] if rng.random() < 0.5 else enc(q(ax[i]) - 1)       # not increasing
    elif r < 0.25:
        ax = rng.choice(axes)
        del ax[1:]                                                            # a single edge
    elif r < 0.30:
        if "f" in c["edges"]:
            c["edges"] = {"f": []}
        else:
            c["edges"] = {"n": []}
    elif r < 0.45 and c["bins"] is not None:
        c["bins"] = c["bins"] + [c["bins"][0]] if rng.random() < 0.5 else c["bins"][:-1]     # wrong first length
    return c


def _bad_graph_case(rng):
    # wrong number of names, unequal lengths, no coords
    c = graph_case(rng, rng.choice([["x", "y"], ["x", "y", "error_y"]]))
    r = rng.random()
    if r < 0.3:
        c["g"]["coords"] = c["g"]["coords"][:-1]
    elif r < 0.6:
        c["g"]["coords"][-1] = c["g"]["coords"][-1] + ["1/1"]
    elif r < 0.8:
        c["g"]["coords"] = []
    else:
        c["g"]["names"] = None
    return c


def _csv_graph_case(rng):
    g = graph_case(rng, rng.choice(all_namings_cached()))["g"]
    return {"op": "csv_graph", "g": g, "form": rng.choice(FORMS), "to_csv": rng.random() > 0.1, "header": rng.choice([None, "", "a b"]),
            "sep": rng.choice([",", ";", " "]), "row_end": rng.choice(["", " \\\\"]),
            "last_row_end": rng.choice(["", "\n"])}


def _csv_text_case(rng):
    shape = rng.choice(SHAPES[:13] + SHAPES[:13] + SHAPES)
    c = csv_text_case(rng, shape)
    if rng.random() < 0.03:
        c["data"] = "other"
    if rng.random() < 0.04 and len(shape) == 1:
        c["h"]["bins"] = [[v, v] for v in c["h"]["bins"]]       # bins that are lists: LenaTypeError
        c["lists"] = True
    elif rng.random() < 0.04 and len(shape) == 2:
        if rng.random() < 0.5 or shape[1] == 1:
            c["h"]["bins"] = map_nested(lambda v: [v, v], c["h"]["bins"])     # cells that are lists
        else:
            c["h"]["bins"][-1] = c["h"]["bins"][-1][:-1]                      # a ragged last row
        c["misshapen"] = True
    return c


def _rshape(rng):
    return rng.choice(BIG_SHAPES) if rng.random() < 0.1 else rng.choice(SHAPES)


#: the random mixture: (weight, case maker)
MIXTURE = [
    (6, lambda rng: hscale_case(rng, gen_hist(rng, _rshape(rng)), rng.random() < 0.65)),
    (2, lambda rng: scale_get_case(rng, gen_hist(rng, _rshape(rng)))),
    (5, lambda rng: nevents_case(rng, gen_hist(rng, _rshape(rng)), rng.random() < 0.65)),
    (7, lambda rng: add_case(rng, _rshape(rng))),
    (6, lambda rng: iter_case(rng, _rshape(rng))),
    (6, lambda rng: iter_coord_case(rng, _rshape(rng))),
    (2, lambda rng: bin_index_case(rng, _rshape(rng))),
    (6, lambda rng: h2g_case(rng, _rshape(rng))),
    (3, lambda rng: h2g_el_case(rng, _rshape(rng))),
    (5, lambda rng: csv_case(rng, rng.choice(SHAPES[:13] + SHAPES))),
    (5, _csv_text_case),
    (8, lambda rng: graph_case(rng, rng.choice(all_namings_cached()))),
    (6, lambda rng: graph_case(rng, tricky_naming(rng))),
    (1, _bad_graph_case),
    (3, _csv_graph_case),
    (10, scale_to_case),
    (3, scale_to_call_case),
    (3, graph_add_case),
    (3, mk_hist_case),
    (3, csv_flow_case),
    (3, h2g_flow_case),
    (12, chain_case),
    (8, gchain_case),
    (1, lambda rng: hscale_case(rng, zero_integral_hist(rng), True)),
    (1, lambda rng: nevents_case(rng, gen_hist(rng, _rshape(rng), pattern="zero"), True)),
]


def gen_cases(ctx):
    """a lazy generator: first the enumerated scopes (every shape x every operation, every valid naming, the prefix /
    extension edges of add), then a seeded random mixture of all operations"""
    rng = ctx.rng
    thorough = ctx.tier == "thorough"
    ctx.exhaustive = False
    # every shape with every histogram operation
    for rep in range(3 if thorough else 2):
        for shape in SHAPES:
            yield hscale_case(rng, gen_hist(rng, shape), True)
            yield hscale_case(rng, gen_hist(rng, shape), rep % 2 == 0)
            yield scale_get_case(rng, gen_hist(rng, shape))
            yield nevents_case(rng, gen_hist(rng, shape), True)
            yield add_case(rng, shape)
            yield iter_case(rng, shape)
            yield iter_coord_case(rng, shape)
            yield h2g_case(rng, shape)
            yield h2g_el_case(rng, shape)
            yield csv_case(rng, shape)
            yield csv_text_case(rng, shape)
            yield bin_index_case(rng, shape)
            yield chain_case(rng, shape)
            yield chain_case(rng, shape)
            yield gchain_case(rng)
    # add with edges that are a proper prefix / extension of the other's: every shape x axis x both orders
    for shape in SHAPES:
        for axis in range(len(shape)):
            for order in ("ext", "pre"):
                for extra in ((1, 2) if thorough else (1,)):
                    yield add_prefix_case(rng, shape, axis, order, extra)
    # graphs: every valid naming (exhaustive), each with a non-zero scale and a rescale
    for names in all_namings():
        c = graph_case(rng, names, npts=rng.randint(1, 3))
        if c["g"]["scale"] is None or q(c["g"]["scale"]) == 0:
            c["g"]["scale"] = "2"
            c["other"] = enc(q(rng.choice(RATIOS)) * 2)
            c["exact"] = True
        yield c
    for names in BAD_NAMINGS:
        for form in ("t", "s"):
            yield graph_case(rng, names, form=form)
    # the random mixture
    makers = [m for w, m in MIXTURE for _ in range(w)]
    for _ in range(120000 if thorough else 12000):
        yield rng.choice(makers)(rng)


def search_cases(ctx):
    """cases for the failing-input search after a broken proof / correspondence: the quick generator with the
    search context's seed (five further seeds are tried by common.run_check)"""
    class _C:
        pass
    c = _C()
    c.tier, c.rng, c.seed = "quick", ctx.rng, ctx.seed
    return list(gen_cases(c))


_NAMINGS = None


def all_namings_cached():
    global _NAMINGS
    if _NAMINGS is None:
        _NAMINGS = all_namings()
    return _NAMINGS


# ----------------------------------------------------------------------------------------------
# the real code

def _ids(b, acc):
    if isinstance(b, list):
        acc.add(id(b))
        for x in b:
            _ids(x, acc)
    return acc


def _exc(e):
    return {"e": exc_name(e)}


_NG = object()        # an optional argument that the call does not give


def _call(fn, form, req, opts, npos=None):
    """fn(*req, <optional arguments>) in one of the call forms that the documented signature allows.  opts lists
    (name, value or _NG, documented default) in the documented order.  'kw' (default): the given options by keyword;
    'pos': every option up to the last given one positionally (the documented default where none is given) - at most
    the first npos options, the others by keyword (options that the documentation introduces as keyword arguments,
    tolerances); 'mix': the first option positionally if it is given, the others by keyword."""
    given = [i for i, (_, v, _d) in enumerate(opts) if v is not _NG]
    if form == "pos" and given:
        k = given[-1] + 1 if npos is None else min(npos, given[-1] + 1)
        return fn(*req, *[(d if v is _NG else v) for _, v, d in opts[:k]],
                  **{n: v for n, v, _ in opts[k:] if v is not _NG})
    if form == "mix" and given and given[0] == 0:
        return fn(*req, opts[0][1], **{n: v for n, v, _ in opts[1:] if v is not _NG})
    return fn(*req, **{n: v for n, v, _ in opts if v is not _NG})


def _h2g_opts(case_like, mv):
    """the optional arguments of hist_to_graph / HistToGraph in their documented order"""
    names = case_like["fields"]
    fn = ["x", "y"] if names is None else (names["s"] if "s" in names else tuple(names["t"]))
    sc = case_like["scale"]
    scale = sc if (sc is None or sc is True) else pynum(sc, case_like.get("skind", "int"))
    return [("make_value", mv, None), ("get_coordinate", case_like["mode"], "left"), ("field_names", fn, ("x", "y")),
            ("scale", scale, None)]


class _RecMV(object):
    """the user's make_value: a callable object that records the arguments of its calls; "runsum", "count" and "feed"
    keep state between the calls (a running sum, a call counter, an iterator that is consumed)"""

    def __init__(self, name):
        self.name = name
        self.calls = []
        self.total = 0
        self.labels = iter(range(10, 10 ** 9, 10))

    def __call__(self, v):
        self.calls.append(v)
        name = self.name
        if name == "runsum":
            self.total = self.total + v
            return self.total
        if name == "count":
            return (v, len(self.calls))
        if name == "feed":
            return (v, next(self.labels))
        return {"double": (lambda: 2 * v), "pair": (lambda: (v, v / 2)), "triple": (lambda: (v, v / 2, v / 4)),
                "pairlist": (lambda: [v, v / 2])}[name]()


def _mv(name):
    return None if name is None else _RecMV(name)


def _mv_calls(mv):
    return None if mv is None else [enc(x) for x in mv.calls]


def _ref_mv_results(mv, vals):
    """what the calls make_value(v0), make_value(v1), ... return, in this order (reference computation)"""
    out, total = [], 0
    for k, v in enumerate(vals):
        total = total + v
        out.append({None: [v], "double": [2 * v], "pair": [v, v / 2], "triple": [v, v / 2, v / 4],
                    "pairlist": [v, v / 2], "runsum": [total], "count": [v, F(k + 1)], "feed": [v, F(10 * (k + 1))]}[mv])
    return out


def _group_objs(items, with_ctx):
    objs = []
    for it in items:
        if it == "other":
            d = object()
        elif "hist" in it:
            d = build_hist(it["hist"])
        else:
            d = build_graph(it["graph"])
        objs.append((d, {"k": 1}) if with_ctx else d)
    return objs


def _once(case, seq):
    """the list without the repeated occurrence of an object that is in the group twice"""
    same = case.get("same")
    return list(seq) if not same else [x for k, x in enumerate(seq) if k != same[1]]


def _share(objs, same):
    """group item j is the very object that item i is"""
    if same:
        objs[same[1]] = objs[same[0]]
    return objs


def _struct_state(v):
    import lena.structures
    import lena.flow
    d = lena.flow.get_data(v)
    if isinstance(d, lena.structures.histogram):
        return {"hist": hist_state(d)}
    if isinstance(d, lena.structures.graph):
        return {"graph": graph_state(d)}
    return "other"


def run_impl(case):
    import lena.core
    import lena.flow
    import lena.output
    import lena.structures
    import lena.structures.hist_functions as hf
    op = case["op"]

    if op == "mk_hist":
        e = case["edges"]
        ek, k = case["ekind"], case["kind"]
        edges = [pynum(x, ek) for x in e["f"]] if "f" in e else [[pynum(x, ek) for x in ax] for ax in e["n"]]
        bins = None if case["bins"] is None else py_nested(case["bins"], k)
        try:
            h = _call(lena.structures.histogram, case.get("form"), [edges],
                      [("bins", bins, None), ("initial_value", pynum(case["init"], k), 0)])
        except Exception as ex:
            return _exc(ex)
        return {"h": hist_state(h), "dim": h.dim, "nbins": list(h.nbins)}

    if op == "hscale":
        h = build_hist(case["h"])
        snap = copy.deepcopy(h.edges)
        res = {}
        try:
            res["scale0"] = enc(h.scale())
        except Exception as ex:
            res["scale0"] = _exc(ex)
        other = pynum(case["other"], case["okind"])
        form = case.get("form", "pos")
        try:
            ret = _call(h.scale, form, [], [("other", other, None)])
            res["ret_none"] = ret is None
        except Exception as ex:
            res["e"] = exc_name(ex)
        res["after"] = hist_state(h)
        res["edges_same"] = bool(h.edges == snap)
        if "e" not in res:
            try:
                res["get"] = enc(h.scale())
            except Exception as ex:
                res["get"] = _exc(ex)
            try:
                res["recomputed"] = enc(_call(h.scale, form, [], [("other", _NG, None), ("recompute", True, False)]))
            except Exception as ex:
                res["recomputed"] = _exc(ex)
        return res

    if op == "scale_get":
        h = build_hist(case["h"])
        try:
            r = _call(h.scale, case.get("form"), [], [("other", _NG, None), ("recompute", case["recompute"], False)])
        except Exception as ex:
            return _exc(ex)
        return {"r": enc(r), "after": hist_state(h), "again": enc(h.scale())}

    if op == "nevents":
        h = build_hist(case["h"])
        snap = copy.deepcopy(h.edges)
        form = case.get("form")
        res = {"nev_in": enc(h.get_nevents()),
               "nev_all": enc(_call(h.get_nevents, form, [], [("include_out_of_range", True, False)]))}
        try:
            _call(h.set_nevents, form, [pynum(case["n"], case["nkind"])], [("include_out_of_range", case["incl"], False)])
        except Exception as ex:
            res["e"] = exc_name(ex)
            return res
        res["after"] = hist_state(h)
        res["edges_same"] = bool(h.edges == snap)
        res["nev_after"] = enc(_call(h.get_nevents, form, [], [("include_out_of_range", case["incl"], False)]))
        return res

    if op == "add":
        a = build_hist(case["a"])
        b = 5 if case["rel"] == "nothist" else build_hist(case["b"])
        sa = hist_state(a)
        sb = None if case["rel"] == "nothist" else hist_state(b)
        rel_, abs_ = (_NG, _NG) if case["tol"] is None else (pynum(case["tol"][0], "float"), pynum(case["tol"][1], "float"))
        try:
            if case.get("defaults"):
                c = a.add(b)
            else:
                # documented order: add(other, weight=1, edges_abs_tol=0.0, edges_rel_tol=1e-9)
                c = _call(a.add, case.get("form", "mix"), [b], [("weight", pynum(case["w"], case["wkind"]), 1),
                                                                 ("edges_abs_tol", abs_, 0.0), ("edges_rel_tol", rel_, 1e-9)], npos=1)
        except Exception as ex:
            res = _exc(ex)
        else:
            own = _ids(c.bins, set()) | _ids(c.edges, set())
            theirs = _ids(a.bins, set()) | _ids(a.edges, set())
            if sb is not None:
                theirs |= _ids(b.bins, set()) | _ids(b.edges, set())
            res = {"h": hist_state(c), "alias": bool(own & theirs), "is_hist": isinstance(c, lena.structures.histogram)}
        res["a_same"] = hist_state(a) == sa
        res["b_same"] = sb is None or hist_state(b) == sb
        return res

    if op == "iter":
        h = build_hist(case["h"])
        res = {"bins": [[list(i), enc(v)] for i, v in hf.iter_bins(h.bins)]}
        try:
            res["bwe"] = [[enc_nested(c), [[enc(lo), enc(hi)] for lo, hi in ed]]
                          for c, ed in hf.iter_bins_with_edges(h.bins, h.edges)]
        except Exception as ex:
            res["bwe"] = _exc(ex)
        rg = case["ranges"]
        ranges = None if rg is None else tuple(tuple(r) for r in rg)
        try:
            cells = list(_call(hf.iter_cells, case.get("form"), [h], [("ranges", ranges, None), ("coord_ranges", _NG, None)]))
            res["cells"] = [[[[enc(lo), enc(hi)] for lo, hi in c.edges], enc_nested(c.bin), list(c.index)] for c in cells]
            res["cell_types"] = sorted({type(c).__name__ for c in cells})
        except Exception as ex:
            res["cells"] = _exc(ex)
        return res

    if op == "h2g":
        h = build_hist(case["h"])
        try:
            rec = _mv(case["mv"])
            if case.get("defaults"):
                g = hf.hist_to_graph(h)
            else:
                g = _call(hf.hist_to_graph, case.get("form"), [h], _h2g_opts(case, rec))
        except Exception as ex:
            return _exc(ex)
        return {"g": graph_state(g), "rows": [[enc(x) for x in row] for row in g], "mv_calls": _mv_calls(rec), "hscale":
                None if h._scale is None else enc(h._scale), "is_graph": isinstance(g, lena.structures.graph),
                "bins_same": enc_nested(h.bins) == map_nested(norm, case["h"]["bins"])}

    if op == "graph":
        try:
            g = build_graph(case["g"])
        except Exception as ex:
            return _exc(ex)
        res = {"g": graph_state(g), "rows": [[enc(x) for x in row] for row in g.rows()], "get0":
               None if g.scale() is None else enc(g.scale())}
        try:
            ret = _call(g.scale, case.get("form", "pos"), [], [("other", pynum(case["other"], case["okind"]), None)])
            res["scaled"] = graph_state(g)
            res["ret_none"] = ret is None
            res["get"] = None if g.scale() is None else enc(g.scale())
        except Exception as ex:
            res["scaled"] = _exc(ex)
            res["after_err"] = graph_state(g)
        return res

    if op == "graph_add" and not (isinstance(case["b"], dict) and "coords" in case["b"]):
        a = build_graph(case["a"])
        b = 5 if case["b"] == "other" else build_hist(case["b"]["hist"])
        try:
            c = a + b
        except Exception as ex:
            return _exc(ex)
        return {"g": "not a graph: " + type(c).__name__}

    if op == "graph_add":
        a, b = build_graph(case["a"]), build_graph(case["b"])
        sa, sb = graph_state(a), graph_state(b)
        try:
            c = a + b
        except Exception as ex:
            res = _exc(ex)
        else:
            res = {"g": graph_state(c), "rows": [[enc(x) for x in row] for row in c.rows()],
                   "alias": bool(_ids(c.coords, set()) & (_ids(a.coords, set()) | _ids(b.coords, set()))),
                   "is_graph": isinstance(c, lena.structures.graph)}
        res["same"] = graph_state(a) == sa and graph_state(b) == sb
        return res

    if op == "gchain":
        src = case["src"]
        try:
            if "g" in src:
                g = build_graph(src["g"])
            else:
                hg = src["h2g"]
                g = _call(hf.hist_to_graph, case.get("form"), [build_hist(hg["h"])], _h2g_opts(hg, _mv(hg["mv"])))
            g2 = None if case["g2"] is None else build_graph(case["g2"])
        except Exception as ex:
            return {"e": exc_name(ex), "phase": "init"}
        obs = []
        for st in case["steps"]:
            k = st["k"]
            try:
                if k == "scale":
                    _call(g.scale, case.get("form", "pos"), [], [("other", pynum(st["s"], case.get("nk", "float")), None)])
                    obs.append({"ok": True})
                elif k == "get":
                    r = g.scale()
                    obs.append({"r": None if r is None else enc(r)})
                elif k == "rows":
                    obs.append({"rows": [[enc(x) for x in row] for row in g.rows()]})
                elif k == "add":
                    g = g + g2
                    obs.append({"ok": True})
            except Exception as ex:
                obs.append({"e": exc_name(ex)})
        return {"obs": obs, "final": graph_state(g)}

    if op == "chain":
        env = {"a": build_hist(case["a"]), "b": build_hist(case["b"])}
        obs = []
        form, nk = case.get("form"), case.get("nk", "float")
        for st in case["steps"]:
            k = st["k"]
            try:
                if k == "scale_get":
                    obs.append({"r": enc(_call(env[st["o"]].scale, form, [], [("other", _NG, None), ("recompute", st["rc"], False)]))})
                elif k == "scale_set":
                    _call(env[st["o"]].scale, form or "pos", [], [("other", pynum(st["s"], nk), None)])
                    obs.append({"ok": True})
                elif k == "set_nevents":
                    _call(env[st["o"]].set_nevents, form, [pynum(st["n"], nk)], [("include_out_of_range", st["incl"], False)])
                    obs.append({"ok": True})
                elif k == "nevents":
                    obs.append({"r": enc(_call(env[st["o"]].get_nevents, form, [], [("include_out_of_range", st["incl"], False)]))})
                elif k == "add":
                    rel_, abs_ = (_NG, _NG) if st["tol"] is None else (pynum(st["tol"][0], "float"), pynum(st["tol"][1], "float"))
                    env["c"] = _call(env[st["x"]].add, form or "mix", [env[st["y"]]],
                                     [("weight", pynum(st["w"], "frac" if nk == "frac" else "int"), 1),
                                      ("edges_abs_tol", abs_, 0.0), ("edges_rel_tol", rel_, 1e-9)], npos=1)
                    obs.append({"ok": True})
            except Exception as ex:
                obs.append({"e": exc_name(ex)})
        return {"obs": obs, "final": {o: (hist_state(env[o]) if o in env else None) for o in ("a", "b", "c")}}

    if op == "csv_flow":
        el = _call(lena.output.ToCSV, case.get("form"), [], [("separator", case["sep"], ","), ("header", case["header"], None),
                                                             ("row_end", case["row_end"], ""), ("last_row_end", case["last_row_end"], ""),
                                                             ("duplicate_last_bin", case["dup"], True)], npos=2)
        vals = []
        for v in case["vals"]:
            data = build_hist(v["h"])
            ctx = {}
            if not v["to_csv"]:
                ctx = {"output": {"to_csv": False}}
            if v.get("ctx_dup") is not None:
                ctx.setdefault("output", {})["duplicate_last_bin"] = v["ctx_dup"]
            vals.append((data, ctx) if v.get("pair", True) or ctx else data)
        with warnings.catch_warnings():
            warnings.simplefilter("ignore")
            try:
                out = list(el.run(vals))
            except Exception as ex:
                return _exc(ex)
        if len(out) != len(vals):
            return {"n_out": len(out)}
        outs = []
        for o, val in zip(out, vals):
            if o is val:
                outs.append({"unchanged": True})
            elif isinstance(o, tuple) and isinstance(o[0], str):
                outs.append({"text": o[0], "ctx": _canon_ctx(o[1])})
            else:
                outs.append({"unchanged": False, "not_text": type(o).__name__})
        return {"outs": outs}

    if op == "h2g_flow":
        import lena.variables
        first = case["vals"][0]
        mv = None if first["mv"] is None else lena.variables.Variable("val", _mv(first["mv"]))
        el = _call(lena.structures.HistToGraph, first.get("form"), [], _h2g_opts(first, mv))
        outs = []
        hs = []
        vals = []
        for v in case["vals"]:
            h = build_hist(v["h"])
            hs.append(h)
            data = h if v["is_hist"] else 7
            ctx = {} if v["to_graph"] else {"histogram": {"to_graph": False}}
            vals.append((data, ctx) if (v["ctx"] or not v["to_graph"]) else data)
        it = el.run(iter(vals))
        for v, h, val in zip(case["vals"], hs, vals):
            try:
                o = next(it)
            except StopIteration:
                outs.append({"missing": True})
                break
            except Exception as ex:
                outs.append({"e": exc_name(ex), "phase": "run"})
                break
            if o is val:
                outs.append({"unchanged": True})
            elif isinstance(o, tuple) and isinstance(o[0], lena.structures.graph):
                g = o[0]
                outs.append({"g": graph_state(g), "rows": [[enc(x) for x in row] for row in g],
                             "hscale": None if h._scale is None else enc(h._scale),
                             "bins_same": enc_nested(h.bins) == map_nested(norm, v["h"]["bins"])})
            else:
                outs.append({"not_graph": type(o).__name__})
        return {"outs": outs}

    if op in ("csv", "csv_graph", "csv_text"):
        el_kw = {"separator": case["sep"], "header": case["header"], "row_end": case["row_end"],
                 "last_row_end": case["last_row_end"]}
        if op in ("csv", "csv_text"):
            data = build_hist(case["h"])
            el_kw["duplicate_last_bin"] = case["dup"]
            if case.get("data") == "other":
                data = rng_free_object()
        else:
            try:
                data = build_graph(case["g"])
            except Exception as ex:
                return _exc(ex)
        ctx = {}
        if not case["to_csv"]:
            ctx = {"output": {"to_csv": False}}
        if case.get("ctx_dup") is not None:
            ctx.setdefault("output", {})["duplicate_last_bin"] = case["ctx_dup"]
        val = (data, ctx) if case.get("pair", True) or ctx else data
        if case.get("direct") and op == "csv_text" and case.get("data") != "other" and case["to_csv"] and data.dim <= 2:
            # the documented line-by-line functions hist1d_to_csv / hist2d_to_csv(hist, header=None, separator=',',
            # duplicate_last_bin=True), joined as ToCSV.run joins them
            dup = case["dup"] if case.get("ctx_dup") is None else case["ctx_dup"]
            fn = lena.output.hist1d_to_csv if data.dim == 1 else lena.output.hist2d_to_csv
            try:
                lines = list(_call(fn, case.get("form"), [data], [("header", case["header"], None), ("separator", case["sep"], ","),
                                                                   ("duplicate_last_bin", dup, True)]))
            except Exception as ex:
                return _exc(ex)
            if not all(isinstance(l, str) for l in lines):
                return {"unchanged": False, "not_text": "lines"}
            return {"text": (case["row_end"] + "\n").join(lines) + case["last_row_end"], "ctx": {}}
        if case.get("defaults") and op != "csv_graph":
            el = lena.output.ToCSV()
        else:
            el = _call(lena.output.ToCSV, case.get("form"), [], [
                ("separator", case["sep"], ","), ("header", case["header"], None), ("row_end", case["row_end"], ""),
                ("last_row_end", case["last_row_end"], "")] +
                ([("duplicate_last_bin", el_kw["duplicate_last_bin"], True)] if "duplicate_last_bin" in el_kw else []), npos=2)
        with warnings.catch_warnings():
            warnings.simplefilter("ignore")
            try:
                out = list(el.run([val]))
            except Exception as ex:
                return _exc(ex)
        if len(out) != 1:
            return {"n_out": len(out)}
        o = out[0]
        if o is val:
            return {"unchanged": True}
        text, octx = o
        if not isinstance(text, str):
            return {"unchanged": False, "not_text": type(text).__name__}
        res = {"text": text, "ctx": _canon_ctx(octx)}
        return res

    if op == "iter_coord":
        h = build_hist(case["h"])
        co = case["coord"]
        if "single" in co:
            cr = tuple(pynum(x, "float") for x in co["single"])
        else:
            cr = tuple(tuple(pynum(x, "float") for x in pr) for pr in co["many"])
        ranges = ((None, None),) * h.dim if case["ranges_given"] else None
        try:
            cells = list(_call(hf.iter_cells, case.get("form"), [h], [("ranges", ranges, None), ("coord_ranges", cr, None)]))
        except Exception as ex:
            return _exc(ex)
        return {"cells": [[[[enc(lo), enc(hi)] for lo, hi in c.edges], enc_nested(c.bin), list(c.index)] for c in cells]}

    if op in ("bin_edges", "bin_on_index"):
        h = build_hist(case["h"])
        ix = case["index"]
        index = ix if isinstance(ix, int) else tuple(ix)
        try:
            if op == "bin_edges":
                r = hf.get_bin_edges(index, h.edges)
                if isinstance(r, tuple):
                    return {"pair": [enc(r[0]), enc(r[1])]}
                return {"pairs": [[enc(lo), enc(hi)] for lo, hi in r]}
            return {"r": enc_nested(hf.get_bin_on_index(index, h.bins))}
        except Exception as ex:
            return _exc(ex)

    if op == "h2g_el":
        import lena.variables
        h = build_hist(case["h"])
        mvn = case["mv"]
        if mvn is None:
            mv = None
        elif mvn == "notvar":
            mv = (lambda v: v)
        else:
            rec = _mv(mvn)
            mv = lena.variables.Variable("val", rec)
        try:
            if case.get("defaults") and mvn is None:
                el = lena.structures.HistToGraph()
            else:
                el = _call(lena.structures.HistToGraph, case.get("form"), [], _h2g_opts(case, mv))
        except Exception as ex:
            return {"e": exc_name(ex), "phase": "init"}
        data = h if case["is_hist"] else 7
        ctx = {} if case["to_graph"] else {"histogram": {"to_graph": False}}
        val = (data, ctx) if (case["ctx"] or not case["to_graph"]) else data
        try:
            out = list(el.run([val]))
        except Exception as ex:
            return {"e": exc_name(ex), "phase": "run"}
        if len(out) != 1:
            return {"n_out": len(out)}
        if out[0] is val:
            return {"unchanged": True}
        g = out[0][0]
        if not isinstance(g, lena.structures.graph):
            return {"not_graph": type(g).__name__}
        return {"g": graph_state(g), "rows": [[enc(x) for x in row] for row in g],
                "mv_calls": None if mvn is None else _mv_calls(rec),
                "hscale": None if h._scale is None else enc(h._scale),
                "bins_same": enc_nested(h.bins) == map_nested(norm, case["h"]["bins"])}

    if op == "scale_to":
        objs = _share(_group_objs(case["group"], case["ctx"]), case.get("same"))
        if case["via"] == "GroupScale" and not case.get("seq", True):
            objs_arg = iter(objs)        # not a list or tuple
        elif case.get("tuple"):
            objs_arg = tuple(objs)       # a tuple is a materialized group too
        else:
            objs_arg = objs
        t = case["target"]
        target = {"hist": lena.structures.histogram, "graph": lena.structures.graph}.get(t)
        if target is None:
            target = pynum(t, case.get("tkind", "int"))
        res = {"e": None}
        flags = [("allow_zero_scale", case["az"], False), ("allow_unknown_scale", case["au"], False)]
        try:
            if case["via"] == "scale_to":
                ret = _call(lena.flow.scale_to, case.get("form"), [target, objs_arg if case.get("seq", True) else objs], flags)
                res["ret"] = ret is None
            else:
                ret = _call(lena.flow.GroupScale, case.get("form"), [target], flags)(objs_arg)
                res["ret"] = ret is objs_arg
        except Exception as ex:
            res["e"] = exc_name(ex)
        res["group"] = [_struct_state(v) for v in objs]
        return res

    if op == "scale_to_call":
        objs = _group_objs([case["item"]], case["ctx"])
        try:
            r = lena.structures.ScaleTo(pynum(case["s"], case.get("tkind", "int")))(objs[0])
        except Exception as ex:
            return _exc(ex)
        d0 = lena.flow.get_data(objs[0])
        return {"r": _struct_state(r), "same_obj": r[0] is d0, "pair": isinstance(r, tuple) and len(r) == 2,
                "ctx": _canon_ctx(r[1])}
    raise ValueError(op)


def rng_free_object():
    """data that is neither a histogram nor has rows(): ToCSV yields it unchanged"""
    return 3.5


def _canon_ctx(c):
    if isinstance(c, dict):
        return {str(k): _canon_ctx(v) for k, v in c.items()}
    if isinstance(c, (list, tuple)):
        return [_canon_ctx(v) for v in c]
    if isinstance(c, bool) or c is None or isinstance(c, str):
        return c
    if isinstance(c, (int, float, F)):
        return enc(c)
    return {"obj": type(c).__name__}


# ----------------------------------------------------------------------------------------------
# CSV text

def parse_csv(case, text):
    """split the CSV text produced by ToCSV into header and rows of exact numbers; returns (header|None, rows) or
    a string describing why the text does not have the expected structure"""
    header, sep, row_end, last = case["header"], case["sep"], case["row_end"], case["last_row_end"]
    if last:
        if not text.endswith(last):
            return f"text does not end with last_row_end {last!r}"
        text = text[:len(text) - len(last)]
    is_hist = case["op"] in ("csv", "csv_text")
    if is_hist:
        lines = text.split(row_end + "\n") if text != "" else []
    else:
        lines = text.split("\n") if text != "" else []
    hdr = None
    if header:
        if not lines:
            return "header missing"
        hdr = lines[0]
        lines = lines[1:]
        if is_hist:
            if hdr != header:
                return f"header line {hdr!r} != {header!r}"
        elif hdr != header:
            return f"header line {hdr!r} != {header!r}"
    rows = []
    for ln in lines:
        if not is_hist:
            if row_end:
                if not ln.endswith(row_end):
                    return f"row {ln!r} does not end with row_end"
                ln = ln[:len(ln) - len(row_end)]
        toks = ln.split(sep)
        try:
            rows.append([F(t) for t in toks])
        except (ValueError, ZeroDivisionError):
            return f"row {ln!r} does not parse as numbers separated by {sep!r}"
    return hdr, rows


# ----------------------------------------------------------------------------------------------
# model requests and comparison

def _model_item(it):
    if it == "other":
        return "other"
    if "hist" in it:
        return {"hist": model_hist(it["hist"])}
    return {"graph": model_graph(it["graph"])}


def _spec_requests(case):
    """requests that execute the specification vocabulary of the theorems (Model/C12Spec.lean, NArr) on this case"""
    op = case["op"]
    if op == "iter":
        rg = case["ranges"]
        return [{"op": "spec_hist", "h": model_hist(case["h"]), "ranges": rg if rg else None}]
    if op == "mk_hist" and case["bins"] is not None:
        return [{"op": "spec_hist", "h": {"edges": case["edges"], "bins": case["bins"], "nout": "0/1", "scale": None},
                 "ranges": None}]
    if op == "csv_text" and case.get("data") != "other" and well_shaped(case["h"]):
        vals = [x for ax in axes_of(case["h"]) for x in ax] + list(flat_nested(case["h"]["bins"]))
        return [{"op": "fmt", "xs": vals}]
    if op == "scale_get":
        return [{"op": "integral", "bins": case["h"]["bins"], "edges": case["h"]["edges"]}]
    if op == "iter_coord":
        co = case["coord"]
        prs = [co["single"]] if "single" in co else co["many"]
        return [{"op": "spec_coord", "edges": case["h"]["edges"], "values": [list(p_) for p_ in prs]}]
    if op == "hscale" and case["exact"]:
        i = ref_integral(case["h"])
        if i != 0:
            return [{"op": "spec_map", "bins": case["h"]["bins"], "c": enc(q(case["other"]) / i)}]
    if op == "add" and case["rel"] in ("same", "near", "mid") and case.get("exact", True):
        return [{"op": "spec_zip", "a": case["a"]["bins"], "b": case["b"]["bins"], "w": case["w"]}]
    if op == "h2g" and case["mode"] in ("left", "right", "middle") and case["mv"] not in MV_STATEFUL:
        return [{"op": "spec_points", "h": model_hist(case["h"]), "mode": case["mode"], "mv": case["mv"]}]
    if op == "csv" and len(shape_of(case["h"])) <= 2:
        axes = axes_of(case["h"])
        dup = case["dup"] if case["ctx_dup"] is None else case["ctx_dup"]
        if len(axes) == 1:
            return [{"op": "spec_csv1", "xs": axes[0][:-1], "x_last": axes[0][-1], "vals": case["h"]["bins"], "dup": dup}]
        return [{"op": "spec_csv2", "xs": axes[0][:-1], "x_last": axes[0][-1], "ys": axes[1][:-1], "y_last": axes[1][-1],
                 "vals": case["h"]["bins"], "dup": dup}]
    if op == "graph":
        names = names_tuple(case["g"]["names"])
        if names:
            parsed = ref_parse_names(list(names))
            coord = names[parsed[0] - 1] if parsed else names[0]
            return [{"op": "spec_names", "coord": coord, "names": list(names)}]
    return []


def _bins_heap(hc):
    """the list objects of a case histogram's bins as build_hist makes them (equal sub-lists are one object when
    "alias" is set): (heap, root) with heap = list of list objects, entries numbers or {"r": address}"""
    bins = py_nested(hc["bins"], hc.get("kind", "float"))
    if hc.get("alias"):
        bins = _intern_lists(bins, {})
    heap, addr = [], {}

    def visit(b):
        if id(b) in addr:
            return addr[id(b)]
        cells = [({"r": visit(x)} if isinstance(x, list) else enc(x)) for x in b]
        heap.append(cells)
        addr[id(b)] = len(heap) - 1
        return addr[id(b)]
    return heap, visit(bins)


def _refs_requests(case):
    """requests that run the object-level model (Model/C12Alias.lean: graph.scale / md_map on list objects that may
    be shared) on the sharing pattern of this case"""
    op = case["op"]
    if op == "graph" and case["exact"] and case["g"].get("alias"):
        gc = case["g"]
        heap, cols, seen = [], [], {}
        for col in gc["coords"]:
            key = repr([pynum(x, gc.get("kind", "float")) for x in col])
            if key not in seen:
                seen[key] = len(heap)
                heap.append(col)
            cols.append(seen[key])
        return [{"op": "graph_refs", "g": model_graph(gc), "heap": heap, "cols": cols, "other": case["other"]}]
    if op in ("hscale", "nevents") and case["exact"] and case["h"].get("alias") and well_shaped(case["h"]):
        heap, root = _bins_heap(case["h"])
        if op == "hscale":
            return [{"op": "hist_scale_refs", "h": model_hist(case["h"]), "heap": heap, "root": root, "other": case["other"]}]
        return [{"op": "nevents_refs", "h": model_hist(case["h"]), "heap": heap, "root": root, "n": case["n"],
                 "incl": case["incl"]}]
    return []


def _compare_refs(case, res, m):
    """the object-level model against the real code: what is read through the structure after the operation"""
    op = case["op"]
    if "err" in m:
        return f"model driver error (object level): {m['err']}"
    if op == "graph":
        a = res["scaled"] if "scaled" in res else res        # the construction of the graph raised
        if "e" in a or "e" in m:
            return None if a.get("e") == m.get("e") else \
                f"graph (object level): exception of scale(other): impl {a.get('e')} vs model {m.get('e')}"
        x, y = norm_graph(a)["coords"], [[norm(v) for v in col] for col in m["coords"]]
        return None if x == y else f"graph (object level, columns {jdump(case['g']['coords'])[:200]} shared where equal): " \
                                   f"columns after scale(other): impl {jdump(x)[:300]} vs model {jdump(y)[:300]}"
    if "e" in res or "e" in m:
        return None if res.get("e") == m.get("e") else f"{op} (object level): exception: impl {res.get('e')} vs model {m.get('e')}"
    x, y = map_nested(_nq, res["after"]["bins"]), map_nested(_nq, m["bins"])
    return None if x == y else f"{op} (object level, equal rows shared): bins afterwards: impl {jdump(x)[:300]} vs model {jdump(y)[:300]}"


def _mv_model(reqs):
    """a make_value returning a list is, for the model, the same function as the one returning a tuple"""
    for r in reqs:
        if r.get("mv") == "pairlist":
            r["mv"] = "pair"
    return reqs


def model_requests(case):
    return _mv_model(_model_requests(case))


def _model_requests(case):
    main = _main_requests(case)
    if case["op"] in ("csv_flow", "h2g_flow", "chain", "gchain"):
        return main
    return main + ((_spec_requests(case) + _refs_requests(case)) if main else [])


def _main_requests(case):
    op = case["op"]
    if op == "iter_coord":
        return [{"op": "iter_coord", "h": model_hist(case["h"]), "ranges_given": case["ranges_given"],
                 "coord_ranges": case["coord"]}]
    if op == "bin_edges":
        return [{"op": "bin_edges", "index": case["index"], "edges": case["h"]["edges"]}]
    if op == "bin_on_index":
        return [{"op": "bin_on_index", "index": case["index"], "bins": case["h"]["bins"]}]
    if op == "csv_text":
        if case.get("data") == "other":
            return []
        return [{"op": "csv_text", "h": model_hist(case["h"]), "to_csv": case["to_csv"], "ctx_dup": case["ctx_dup"],
                 "dup": case["dup"], "sep": case["sep"], "header": case["header"], "row_end": case["row_end"],
                 "last_row_end": case["last_row_end"]}]
    if op == "gchain":
        src = case["src"]
        msrc = {"g": model_graph(src["g"])} if "g" in src else \
            {"h2g": dict(src["h2g"], h=model_hist(src["h2g"]["h"]), mv=("pair" if src["h2g"]["mv"] == "pairlist" else src["h2g"]["mv"]))}
        return [{"op": "gchain", "src": msrc, "g2": None if case["g2"] is None else model_graph(case["g2"]),
                 "steps": case["steps"]}]
    if op == "chain":
        steps = []
        for st in case["steps"]:
            st = dict(st)
            if st["k"] == "add":
                tol = st.pop("tol") or [enc(REL_DEFAULT), "0"]
                st["rel"], st["abs"] = tol
            steps.append(st)
        return [{"op": "chain", "a": model_hist(case["a"]), "b": model_hist(case["b"]), "steps": steps}]
    if op == "csv_flow":
        return [{"op": "csv_text", "h": model_hist(v["h"]), "to_csv": v["to_csv"], "ctx_dup": v["ctx_dup"],
                 "dup": case["dup"], "sep": case["sep"], "header": case["header"], "row_end": case["row_end"],
                 "last_row_end": case["last_row_end"]} for v in case["vals"]]
    if op == "h2g_flow":
        f = case["vals"][0]
        return [{"op": "h2g_el", "mv": f["mv"], "mode": f["mode"], "fields": f["fields"], "scale": f["scale"],
                 "is_hist": v["is_hist"], "h": model_hist(v["h"]), "to_graph": v["to_graph"]} for v in case["vals"]]
    if op == "h2g_el" and case["mv"] in MV_STATEFUL:
        # the stateful make_value is modelled for the conversion itself (Model/C12Call.lean histToGraphSt); construction
        # errors and values passed unchanged do not depend on make_value and are compared for the other make_values
        if case["mode"] not in ("left", "right", "middle") or not case["is_hist"] or not case["to_graph"]:
            return []
        return [{"op": "hist_to_graph_st", "h": model_hist(case["h"]), "mv": case["mv"], "mode": case["mode"],
                 "fields": case["fields"], "scale": case["scale"]}]
    if op == "h2g_el":
        return [{"op": "h2g_el", "mv": case["mv"], "mode": case["mode"], "fields": case["fields"], "scale": case["scale"],
                 "is_hist": case["is_hist"], "h": model_hist(case["h"]), "to_graph": case["to_graph"]}]
    if op == "mk_hist":
        return [{"op": "mk_hist", "edges": case["edges"], "bins": case["bins"], "init": case["init"]}]
    if op == "hscale":
        if not case["exact"]:
            return [{"op": "hist_scale", "h": model_hist(case["h"]), "recompute": False}]
        return [{"op": "hscale", "h": model_hist(case["h"]), "other": case["other"]}]
    if op == "scale_get":
        return [{"op": "hist_scale", "h": model_hist(case["h"]), "recompute": case["recompute"]}]
    if op == "nevents":
        return [{"op": "nevents", "h": model_hist(case["h"]), "n": case["n"] if case["exact"] else None,
                 "incl": case["incl"]}]
    if op == "add":
        if case["rel"] == "nothist" or not case.get("exact", True):
            return []
        tol = case["tol"] or [enc(REL_DEFAULT), "0"]
        return [{"op": "add", "a": model_hist(case["a"]), "b": model_hist(case["b"]), "w": case["w"],
                 "rel": tol[0], "abs": tol[1]}]
    if op == "iter":
        return [{"op": "iter", "h": model_hist(case["h"]), "ranges": case["ranges"]}]
    if op == "h2g":
        return [{"op": "hist_to_graph_st" if case["mv"] in MV_STATEFUL else "hist_to_graph", "h": model_hist(case["h"]),
                 "mv": case["mv"], "mode": case["mode"], "fields": case["fields"], "scale": case["scale"]}]
    if op == "graph":
        return [{"op": "graph", "g": model_graph(case["g"]), "other": case["other"] if case["exact"] else None}]
    if op == "graph_add":
        b = case["b"]
        if not (isinstance(b, dict) and "coords" in b):
            return [{"op": "graph_add_any", "a": model_graph(case["a"]), "b": _model_item(b)}]
        return [{"op": "graph_add", "a": model_graph(case["a"]), "b": model_graph(case["b"])}]
    if op == "csv":
        return [{"op": "csv", "h": model_hist(case["h"]), "to_csv": case["to_csv"], "ctx_dup": case["ctx_dup"],
                 "dup": case["dup"]}]
    if op == "csv_graph":
        return [{"op": "csv_graph", "g": model_graph(case["g"]), "to_csv": case["to_csv"]}]
    if op == "scale_to":
        if case["via"] == "GroupScale":
            return [{"op": "group_scale", "seq": case.get("seq", True), "target": case["target"],
                     "group": [_model_item(i) for i in _once(case, case["group"])], "az": case["az"], "au": case["au"]}]
        return [{"op": "scale_to", "target": case["target"], "group": [_model_item(i) for i in _once(case, case["group"])],
                 "az": case["az"], "au": case["au"]}]
    if op == "scale_to_call":
        return [{"op": "scale_to_call", "item": _model_item(case["item"]), "s": case["s"]}]
    raise ValueError(op)


def _nq(x):
    """normalise an encoded number or an exception object"""
    return norm(x) if is_num(x) else x


def _norm_struct(s):
    if s == "other":
        return s
    if "hist" in s:
        return {"hist": norm_hist(s["hist"])}
    return {"graph": norm_graph(s["graph"])}


def _norm_rows(rows):
    return [[_nq(x) for x in r] for r in rows]


def _compare_spec(case, sp):
    """the specification vocabulary executed by the driver against Python reference computations"""
    op = case["op"]
    if "err" in sp:
        return f"model driver error (spec): {sp['err']}"

    def diff(what, a, b):
        return None if a == b else f"{op}: Lean {what} = {jdump(a)[:300]} but the Python reference gives {jdump(b)[:300]}"

    if op in ("iter", "mk_hist"):
        hc = case["h"] if op == "iter" else {"edges": case["edges"], "bins": case["bins"]}
        e = hc["edges"]
        axes = [[q(x) for x in ax] for ax in ([e["f"]] if "f" in e else e["n"])]
        dims = [max(0, len(ax) - 1) for ax in axes]

        def pycells(b, idx=()):
            # iter_bins: whatever is not a list is a cell
            if not isinstance(b, list):
                return [(idx, q(b))]
            return [c for k, x in enumerate(b) for c in pycells(x, idx + (k,))]

        def shaped(b, ds):
            if not ds:
                return not isinstance(b, list)
            return isinstance(b, list) and len(b) == ds[0] and all(shaped(x, ds[1:]) for x in b)

        def edges_ref(idx):
            # cellEdgesRef: positions outside the arrays read as 0, as many pairs as both lists have entries
            return [((ax[i] if i < len(ax) else F(0)), (ax[i + 1] if i + 1 < len(ax) else F(0)))
                    for ax, i in zip(axes, idx)]

        cs = pycells(hc["bins"])
        wf = bool(axes) and shaped(hc["bins"], dims)
        edges_checked = bool(axes) and all(len(ax) >= 2 and all(a < b for a, b in zip(ax, ax[1:])) for ax in axes)
        nested1 = "n" in e and len(e["n"]) == 1
        vols = []
        for idx, _ in cs:
            v = F(1)
            for lo, hi in edges_ref(idx):
                v *= hi - lo
            vols.append(v)
        d = (diff("Hist.WF (wfB)", sp["wf"], wf) or
             diff("indexProd", sp["index_prod"], [list(i) for i in itertools.product(*[range(n) for n in dims])]) or
             diff("cells", [c["idx"] for c in sp["cells"]], [list(i) for i, _ in cs]) or
             diff("cellEdgesRef", [[[_nq(x) for x in p] for p in c["edges"]] for c in sp["cells"]],
                  [[[enc(lo), enc(hi)] for lo, hi in edges_ref(i)] for i, _ in cs]) or
             diff("InRange (inRangeB)", [c["in_range"] for c in sp["cells"]],
                  [len(i) == len(axes) and all(k < n for k, n in zip(i, dims)) for i, _ in cs]) or
             diff("cellRow", [[_nq(x) for x in c["row"]] for c in sp["cells"]],
                  [[enc(lo) for lo, _ in edges_ref(i)] + [enc(v)] for i, v in cs]) or
             diff("cellVolume", [_nq(c["volume"]) for c in sp["cells"]], [enc(v) for v in vols]) or
             diff("integralRef", _nq(sp["integral_ref"]), enc(sum(v * c[1] for v, c in zip(vols, cs)))) or
             diff("Edges.NonEmptyAxes", sp["nonempty_axes"], all(len(ax) > 0 for ax in axes)) or
             diff("Hist.ValidU", sp["valid_u"], wf and edges_checked) or
             diff("Hist.Valid (validB)", sp["valid"], wf and edges_checked and not nested1))
        if d or op == "mk_hist" or not wf:
            return d
        ref = ref_cells(hc)
        rg = case["ranges"]
        if rg:
            valid = len(rg) == len(dims) and all((lo is None or lo >= 0) and (up is None or up <= n)
                                                 for (lo, up), n in zip(rg, dims))
            d = diff("ValidRanges (validRangesB)", sp["valid_ranges"], valid)
            if d:
                return d
            if len(rg) == len(dims):
                sel = [list(i) for i, _, _ in ref
                       if all((0 if lo is None else lo) <= k < (n if up is None else up)
                              for k, (lo, up), n in zip(i, rg, dims))]
                return diff("selAll/rangePred selection", sp["selected"], sel)
        return None
    if op == "iter_coord":
        import bisect
        co = case["coord"]
        prs = [co["single"]] if "single" in co else co["many"]
        axes = [[q(x) for x in ax] for ax in axes_of(case["h"])]
        want = [[bisect.bisect_right(ax, q(v)) for v in p_] for ax, p_ in zip(axes, prs)]
        return (diff("edgesNotAbove", sp["not_above"], want) or
                diff("increasingPairs", sp["increasing"], [all(a < b for a, b in zip(ax, ax[1:])) for ax in axes]))
    if op == "hscale":
        c = q(case["other"]) / ref_integral(case["h"])
        flat = [q(v) for v in flat_nested(case["h"]["bins"])]
        return (diff("NArr.map", map_nested(_nq, sp["map"]), map_nested(lambda v: enc(q(v) * c), case["h"]["bins"])) or
                diff("NArr.values", [_nq(v) for v in sp["values"]], [enc(v) for v in flat]) or
                diff("sumQ", _nq(sp["sum"]), enc(sum(flat))))
    if op == "add":
        a, b, w = case["a"], case["b"], q(case["w"])
        want = [[list(i), enc(va + w * vb)] for (i, va, _), (_, vb, _) in
                zip(ref_cells(a), ref_cells(dict(b, edges=a["edges"])))]
        cnt = iter(want)
        zipped = map_nested(lambda _: next(cnt)[1], a["bins"])
        return (diff("NArr.zipWith", map_nested(_nq, sp["zip"]), zipped) or
                diff("NArr.get?", [[i, _nq(v)] for i, v in sp["get"]], want))
    if op == "scale_get":
        return diff("integral", _nq(sp.get("r", sp)), enc(ref_integral(case["h"])))
    if op == "csv_text":
        vals = [q(x) for ax in axes_of(case["h"]) for x in ax] + [q(v) for v in flat_nested(case["h"]["bins"])]
        want = ["{:f}".format(float(v)) for v in vals]

        def pyparse(t):
            neg = t.startswith("-")
            ip, fp = t.lstrip("-").split(".")
            return [neg, int(ip) * 1000000 + int(fp)]
        return (diff("fmtF", sp["r"], want) or diff("parseFixed", sp["parsed"], [pyparse(t) for t in want]))
    if op == "h2g":
        return diff("pointOf", _norm_rows(sp["points"]), _ref_points(case))
    if op == "csv":
        hc = case["h"]
        return (diff("zipWith/rowsFor rows", _norm_rows(sp["rows"]), [[enc(x) for x in r] for r in _ref_csv_rows(case)]) or
                diff("bins1d/bins2d", map_nested(_nq, sp["bins"]), map_nested(norm, hc["bins"])))
    if op == "graph":
        names = names_tuple(case["g"]["names"])
        parsed = ref_parse_names(list(names))
        coord = names[parsed[0] - 1] if parsed else names[0]
        want = [[n.startswith("error_"),
                 n.startswith("error_") and (n[6:] == coord or n[6:].startswith(coord + "_"))] for n in names]
        return diff("isErrField / ErrorFieldOf (errorFieldOfB)", sp["r"], want)
    return None


def _ref_points(case):
    hc, mode, mv = case["h"], case["mode"], case["mv"]
    want = []
    for _, v, ed in ref_cells(hc):
        if mode == "left":
            c = [lo for lo, hi in ed]
        elif mode == "right":
            c = [hi for lo, hi in ed]
        else:
            c = [(lo + hi) / 2 for lo, hi in ed]
        vals = {None: [v], "double": [2 * v], "pair": [v, v / 2], "triple": [v, v / 2, v / 4], "pairlist": [v, v / 2]}[mv]
        want.append([enc(x) for x in c + vals])
    return want


def _ref_csv_rows(case):
    hc = case["h"]
    dims = shape_of(hc)
    dup = case["dup"] if case["ctx_dup"] is None else case["ctx_dup"]
    axes = [[q(x) for x in ax] for ax in axes_of(hc)]
    d = 1 if dup else 0
    want = []
    if len(dims) == 1:
        b = [q(x) for x in hc["bins"]]
        for i in range(dims[0] + d):
            want.append([axes[0][i], b[min(i, dims[0] - 1)]])
    else:
        b = [[q(x) for x in r] for r in hc["bins"]]
        for i in range(dims[0] + d):
            for j in range(dims[1] + d):
                want.append([axes[0][i], axes[1][j], b[min(i, dims[0] - 1)][min(j, dims[1] - 1)]])
    return want


def _flow_parts(case):
    """the single-value cases a flow case consists of"""
    if case["op"] == "csv_flow":
        return [dict(v, op="csv_text", sep=case["sep"], header=case["header"], row_end=case["row_end"],
                     last_row_end=case["last_row_end"], dup=case["dup"]) for v in case["vals"]]
    f = case["vals"][0]
    return [dict(v, op="h2g_el", mv=f["mv"], mode=f["mode"], fields=f["fields"], scale=f["scale"]) for v in case["vals"]]


def compare(case, res, replies):
    if case["op"] in ("csv_flow", "h2g_flow"):
        if "outs" not in res:
            return f"{case['op']}: impl {str(res)[:200]}"
        if "e" in res["outs"][-1] and len(res["outs"]) < len(replies):
            replies = replies[:len(res["outs"])]
        if len(res["outs"]) != len(replies):
            return f"{case['op']}: {len(res['outs'])} outputs for {len(replies)} values"
        for k, (part, r, m) in enumerate(zip(_flow_parts(case), res["outs"], replies)):
            msg = _compare_main(part, r, [m])
            if msg:
                return f"value {k} of the flow: {msg}"
        return None
    msg = _compare_main(case, res, replies)
    for extra in replies[1:]:
        if msg is None:
            msg = _compare_refs(case, res, extra) if extra.get("refs") else _compare_spec(case, extra)
    return msg


def _compare_main(case, res, replies):
    op = case["op"]
    m = replies[0]
    if "err" in m:
        return f"model driver error: {m['err']}"
    if m.get("e") == "unmodelled":
        return None          # the model declines (input outside the modelled domain): no prediction

    def diff(what, a, b):
        return None if a == b else f"{op}: {what}: impl {jdump(a)[:300]} vs model {jdump(b)[:300]}"

    if op == "gchain":
        if "e" in res or "e" in m:
            return diff("exception", [res.get("e"), res.get("phase")], [m.get("e"), m.get("phase")])

        def nob(l):
            out = []
            for o in l:
                o = dict(o)
                if "r" in o and o["r"] is not None:
                    o["r"] = _nq(o["r"])
                if "rows" in o:
                    o["rows"] = _norm_rows(o["rows"])
                out.append(o)
            return out
        for k, (x, y) in enumerate(zip(nob(res["obs"]), nob(m["obs"]))):
            if y.get("e") == "unmodelled":
                return None
            if x != y:
                return f"gchain: step {k} {jdump(case['steps'][k])}: impl {jdump(x)[:300]} vs model {jdump(y)[:300]}"
        return diff("final graph", norm_graph(res["final"]), norm_graph(m["final"]))
    if op == "chain":
        nob = lambda l: [{k: (_nq(v) if k == "r" else v) for k, v in o.items()} for o in l]
        for k, (x, y) in enumerate(zip(nob(res["obs"]), nob(m["obs"]))):
            if x != y:
                return f"chain: step {k} {jdump(case['steps'][k])}: impl {jdump(x)} vs model {jdump(y)}"
        fin = lambda f: {o: (None if f[o] is None else norm_hist(f[o])) for o in ("a", "b", "c")}
        return diff("final states", fin(res["final"]), fin(m["final"]))
    if op == "iter_coord":
        if "e" in res or "e" in m:
            return diff("exception", res.get("e"), m.get("e"))
        nc = lambda l: [[[[_nq(x) for x in p] for p in ed], map_nested(_nq, c), i] for ed, c, i in l]
        return diff("cells", nc(res["cells"]), nc(m["cells"]))
    if op in ("bin_edges", "bin_on_index"):
        if "e" in res or "e" in m:
            return diff("exception", res.get("e"), m.get("e"))
        nn = lambda r: {k: map_nested(_nq, v) for k, v in r.items()}
        return diff("result", nn(res), nn(m))
    if op == "csv_text":
        if "e" in res or "e" in m:
            return diff("exception", res.get("e"), m.get("e"))
        if res.get("unchanged") or m.get("unchanged"):
            return diff("value yielded unchanged", bool(res.get("unchanged")), bool(m.get("unchanged")))
        return diff("CSV text", res.get("text"), m.get("text"))
    if op == "h2g_el" and case["mv"] in MV_STATEFUL:
        if "e" in res or "e" in m:
            return diff("exception", [res.get("e"), res.get("phase")], [m.get("e"), "run" if "e" in m else None])
        if "g" not in res:
            return f"h2g_el: impl {res}"
        return _compare_main(dict(case, op="h2g"), res, replies)
    if op == "h2g_el":
        if "e" in res or "e" in m:
            return diff("exception", [res.get("e"), res.get("phase")], [m.get("e"), m.get("phase")])
        if res.get("unchanged") or m.get("unchanged"):
            return diff("value yielded unchanged", bool(res.get("unchanged")), bool(m.get("unchanged")))
        if "g" not in res:
            return f"h2g_el: impl {res}"
        return (diff("graph", norm_graph(res["g"]), norm_graph(m["g"])) or
                diff("rows", _norm_rows(res["rows"]), _norm_rows(m["rows"])) or
                diff("hist._scale", None if res["hscale"] is None else _nq(res["hscale"]),
                     None if m["hscale"] is None else _nq(m["hscale"])))
    if op == "mk_hist":
        if "e" in res or "e" in m:
            return diff("exception", res.get("e"), m.get("e"))
        return diff("histogram", norm_hist(res["h"]), norm_hist(m["h"]))
    if op == "hscale":
        if not case["exact"]:
            if "e" in m or isinstance(res["scale0"], dict):
                return diff("scale()", res["scale0"], {"e": m.get("e")})
            return diff("scale()", _nq(res["scale0"]), _nq(m["r"]))
        d = diff("scale()", _nq(res["scale0"]), _nq(m["scale0"]))
        if d:
            return d
        if "e" in res or "e" in m:
            return diff("exception of scale(other)", res.get("e"), m.get("e")) or \
                diff("state after the exception", norm_hist(res["after"]), norm_hist(m["after"]))
        return (diff("state after scale(other)", norm_hist(res["after"]), norm_hist(m["after"])) or
                diff("scale() afterwards", _nq(res["get"]), _nq(m["get"])) or
                diff("scale(recompute=True)", _nq(res["recomputed"]), _nq(m["recomputed"])))
    if op == "scale_get":
        if "e" in res or "e" in m:
            return diff("exception", res.get("e"), m.get("e"))
        return diff("scale()", _nq(res["r"]), _nq(m["r"])) or \
            diff("state after scale()", norm_hist(res["after"]), norm_hist(m["h"]))
    if op == "nevents":
        d = diff("get_nevents()", _nq(res["nev_in"]), _nq(m["nev_in"])) or \
            diff("get_nevents(True)", _nq(res["nev_all"]), _nq(m["nev_all"]))
        if d or not case["exact"]:
            return d
        if "e" in res or "e" in m:
            return diff("exception of set_nevents", res.get("e"), m.get("e"))
        return (diff("state after set_nevents", norm_hist(res["after"]), norm_hist(m["after"])) or
                diff("get_nevents afterwards", _nq(res["nev_after"]), _nq(m["nev_after"])))
    if op == "add":
        if "e" in res or "e" in m:
            return diff("exception", res.get("e"), m.get("e"))
        return diff("sum", norm_hist(res["h"]), norm_hist(m["h"]))
    if op == "iter":
        d = diff("iter_bins", [[i, _nq(v)] for i, v in res["bins"]], [[i, _nq(v)] for i, v in m["bins"]])
        if d:
            return d
        for key in ("bwe", "cells"):
            a, b = res[key], m[key]
            if isinstance(a, dict) or isinstance(b, dict):
                d = diff(key, a, b)
            elif key == "bwe":
                d = diff(key, [[map_nested(_nq, c), [[_nq(x) for x in p] for p in ed]] for c, ed in a],
                         [[map_nested(_nq, c), [[_nq(x) for x in p] for p in ed]] for c, ed in b])
            else:
                d = diff(key, [[[[_nq(x) for x in p] for p in ed], map_nested(_nq, c), i] for ed, c, i in a],
                         [[[[_nq(x) for x in p] for p in ed], map_nested(_nq, c), i] for ed, c, i in b])
            if d:
                return d
        return None
    if op == "h2g":
        if "e" in res or "e" in m:
            return diff("exception", res.get("e"), m.get("e"))
        if "calls" in m:
            # Model/C12Call.lean: the arguments of the calls of make_value in call order, their number, and the results
            # of the calls as the model's callResults computes them from these arguments
            vals = [q(x) for x in m["calls"]]
            d = (diff("calls of make_value", [_nq(x) for x in res["mv_calls"]], [_nq(x) for x in m["calls"]]) or
                 diff("number of calls (callState)", len(res["mv_calls"]), m["ncalls"]) or
                 diff("callResults", _norm_rows(m["results"]), [[enc(x) for x in r] for r in _ref_mv_results(case["mv"], vals)]))
            if d:
                return d
        return (diff("graph", norm_graph(res["g"]), norm_graph(m["g"])) or
                diff("rows", _norm_rows(res["rows"]), _norm_rows(m["rows"])) or
                diff("hist._scale", None if res["hscale"] is None else _nq(res["hscale"]),
                     None if m["hscale"] is None else _nq(m["hscale"])))
    if op == "graph":
        if "e" in res or "e" in m:
            return diff("exception", res.get("e"), m.get("e"))
        d = diff("graph", norm_graph(res["g"]), norm_graph(m["g"])) or \
            diff("rows", _norm_rows(res["rows"]), _norm_rows(m["rows"]))
        if d or not case["exact"]:
            return d
        a, b = res["scaled"], m["scaled"]
        if "e" in a or "e" in b:
            return diff("exception of scale(other)", a.get("e"), b.get("e"))
        return diff("graph after scale(other)", norm_graph(a), norm_graph(b))
    if op == "graph_add":
        if "e" in res or "e" in m:
            return diff("exception", res.get("e"), m.get("e"))
        if isinstance(res["g"], str):
            return f"graph_add: impl {res['g']} vs model {jdump(m)[:200]}"
        return diff("sum", norm_graph(res["g"]), norm_graph(m["g"])) or \
            diff("rows", _norm_rows(res["rows"]), _norm_rows(m["rows"]))
    if op in ("csv", "csv_graph"):
        if "e" in res or "e" in m:
            return diff("exception", res.get("e"), m.get("e"))
        if res.get("unchanged") or m.get("unchanged"):
            return diff("value yielded unchanged", bool(res.get("unchanged")), bool(m.get("unchanged")))
        if "text" not in res:
            return f"{op}: impl {res} vs model rows"
        p = parse_csv(case, res["text"])
        if isinstance(p, str):
            return f"{op}: {p}"
        d = diff("rows", [[enc(x) for x in r] for r in p[1]], _norm_rows(m["rows"]))
        if d or op == "csv_graph":
            return d
        hc = res["ctx"].get("histogram", {})
        dim, nbins, nout, ranges = m["ctx"]
        def _int(x):
            return int(q(x)) if is_num(x) and q(x).denominator == 1 else x
        return diff("context.histogram", [_int(hc.get("dim")), [_int(x) for x in hc.get("nbins", [])], _nq(hc.get("n_out_of_range")),
                                          [[_nq(x) for x in r] for r in hc.get("ranges", [])]],
                    [dim, nbins, _nq(nout), [[_nq(x) for x in r] for r in ranges]])
    if op == "scale_to":
        return (diff("exception", res["e"], m["e"]) or
                diff("group", [_norm_struct(s) for s in _once(case, res["group"])], [_norm_struct(s) for s in m["group"]]))
    if op == "scale_to_call":
        if "e" in res or "e" in m:
            return diff("exception", res.get("e"), m.get("e"))
        return diff("result", _norm_struct(res["r"]), _norm_struct(m["r"]))
    raise ValueError(op)


# ----------------------------------------------------------------------------------------------
# the property's own statement on the real code

def _close(x, ref, mag=None):
    """x equals ref up to rounding: the bound is far above accumulated rounding of a few dozen operations on numbers of
    magnitude `mag`, and far below any wrong factor"""
    mag = max(abs(ref), abs(mag or 0))
    return abs(x - ref) <= F(1, 10 ** 11) * mag


def _num_ok(exact, x, ref, mag=None):
    if not is_num(x):
        return False
    return q(x) == ref if exact else _close(q(x), ref, mag)


def _check_scaled_hist(case, hc, after, ratio, exact, what):
    """every bin and n_out_of_range multiplied by ratio, edges untouched"""
    if norm_hist(after)["edges"] != norm_hist(hc)["edges"]:
        return f"{what} changed the edges: {after['edges']}"
    want = [v * ratio for v in map(q, flat_nested(hc["bins"]))]
    got = list(flat_nested(after["bins"]))
    if len(got) != len(want) or _shape(after["bins"]) != _shape(hc["bins"]):
        return f"{what} changed the shape of bins: {after['bins']}"
    for g, w, old in zip(got, want, flat_nested(hc["bins"])):
        if not _num_ok(exact, g, w):
            return f"{what}: bin {old} became {g}, expected {old} * {ratio} = {w}"
    if not _num_ok(exact, after["nout"], q(hc["nout"]) * ratio):
        return f"{what}: n_out_of_range {hc['nout']} became {after['nout']}, expected * {ratio}"
    return None


def _shape(b):
    return [_shape(x) for x in b] if isinstance(b, list) else 0


def _oracle_hist_rescaled(hc, after, target, what):
    """a histogram hc (well-shaped) rescaled to target: state `after`"""
    I = q(hc["scale"]) if hc.get("scale") is not None else ref_integral(hc)
    return _check_scaled_hist({}, hc, after, target / I, True, what)


def oracle(case, res):
    op = case["op"]

    if op == "mk_hist":
        return None      # construction is C06's subject; here only the correspondence uses it

    if op == "gchain":
        ref = _ref_graph_of_src(case["src"])
        if ref is None:
            return None          # the construction of the graph is outside the statement (judged by graph / h2g cases)
        if "e" in res:
            return f"constructing the graph raised {res}"
        g2 = case["g2"]
        r2 = None if g2 is None else RefGraph(names_tuple(g2["names"]), g2["coords"],
                                              None if g2["scale"] is None else q(g2["scale"]))
        seq = [st["k"] for st in case["steps"]]
        for k, (st, ob) in enumerate(zip(case["steps"], res["obs"])):
            where = f"step {k} {jdump(st)} of {seq} on graph{ref.names}"
            if st["k"] == "scale":
                exp = ref.set_scale(q(st["s"]))
                if ob.get("e") != exp:
                    return f"{where}: scale({st['s']}) gave {ob}, expected {exp or 'no exception'}"
            elif st["k"] == "get":
                if (ob.get("r") is None) != (ref.scale is None) or (ref.scale is not None and q(ob["r"]) != ref.scale):
                    return f"{where}: scale() returned {ob}, expected {ref.scale}"
            elif st["k"] == "rows":
                want = [[enc(x) for x in row] for row in zip(*ref.cols)]
                if "rows" not in ob or _norm_rows(ob["rows"]) != want:
                    return f"{where}: rows {str(ob)[:300]}, expected {want}"
            elif st["k"] == "add":
                ref.add(r2)
                if not ref.known:
                    return None
                if "e" in ob:
                    return f"{where}: adding graphs raised {ob['e']}"
        return None

    if op == "chain":
        ref = {"a": RefHist(case["a"]), "b": RefHist(case["b"])}
        for k, (st, ob) in enumerate(zip(case["steps"], res["obs"])):
            kind, o = st["k"], st.get("o")
            where = f"step {k} {jdump(st)} of the sequence {jdump([x['k'] + ':' + x.get('o', x.get('x', '')) for x in case['steps']])}"
            if kind == "add":
                if "e" in ob:
                    return f"{where}: add of histograms with equal edges raised {ob['e']}"
                unk = getattr(ref[st["x"]], "unknown", False) or getattr(ref[st["y"]], "unknown", False)
                ref["c"] = ref[st["x"]].add(ref[st["y"]], q(st["w"]))
                ref["c"].unknown = unk
                continue
            h = ref[o]
            if getattr(h, "unknown", False):
                continue         # this object's contents are no longer determined by documented behaviour
            if not h.clean and kind in ("scale_get", "scale_set"):
                # the stored scale is stale (contents changed after it was stored; the user "must explicitly recompute"):
                # nothing is stated about scale() of this object until it is recomputed; rescaling it by the stale
                # scale makes its contents unspecified - only this object (and sums with it) are excluded from then on
                if kind == "scale_get" and st["rc"]:
                    pass
                elif kind == "scale_get":
                    continue
                else:
                    h.unknown = True
                    continue
            if kind == "scale_get":
                want = h.scale_get(st["rc"])
                if ob.get("r") is None or not is_num(ob["r"]) or q(ob["r"]) != want:
                    return (f"{where}: scale() returned {ob}, but the integral of the bins of this histogram is "
                            f"{h.integral()} (stored scale {want})")
            elif kind == "scale_set":
                exp = h.scale_set(q(st["s"]))
                if ob.get("e") != exp:
                    return f"{where}: scale({st['s']}) gave {ob}, expected {exp or 'no exception'}"
            elif kind == "set_nevents":
                exp = h.set_nevents(q(st["n"]), st["incl"])
                if ob.get("e") != exp:
                    return f"{where}: set_nevents({st['n']}) gave {ob}, expected {exp or 'no exception'}"
            elif kind == "nevents":
                want = h.nevents(st["incl"])
                if not is_num(ob.get("r")) or q(ob["r"]) != want:
                    return f"{where}: get_nevents gives {ob}, the contents sum to {want}"
        # final contents
        for o, h in ref.items():
            if getattr(h, "unknown", False):
                continue
            fin = res["final"][o]
            if fin is None:
                return f"histogram {o} is missing at the end"
            got = [q(v) if is_num(v) else None for v in flat_nested(fin["bins"])]
            if got != h.bins or not is_num(fin["nout"]) or q(fin["nout"]) != h.nout:
                return (f"histogram {o} after {jdump([x['k'] + ':' + x.get('o', x.get('x', '')) for x in case['steps']])}: "
                        f"bins {fin['bins']}, n_out_of_range {fin['nout']}; expected {[str(v) for v in h.bins]}, {h.nout}")
        return None

    if op in ("csv_flow", "h2g_flow"):
        if "outs" not in res:
            return f"{op}: {str(res)[:200]}"
        parts = _flow_parts(case)
        if len(res["outs"]) != len(parts) and "e" not in res["outs"][-1]:
            return f"{op}: {len(res['outs'])} values came out of the element for {len(parts)} values"
        for k, (part, r) in enumerate(zip(parts, res["outs"])):
            msg = oracle(part, r)
            if msg:
                return f"value {k} of a flow through one element: {msg}"
        return None

    if op == "iter_coord":
        # the statement: whatever cells iter_cells selects, they agree with iter_bins on content, index and edges,
        # and come in the order of iter_bins (which cells coord_ranges selects is not part of C12, see notes)
        hc = case["h"]
        if case["ranges_given"]:
            return None if res.get("e") == "LenaTypeError" else \
                f"iter_cells with both ranges and coord_ranges must raise LenaTypeError, got {str(res)[:200]}"
        co = case["coord"]
        n = 1 if "single" in co else len(co["many"])
        if n != len(shape_of(hc)):
            return None
        if "e" in res:
            return f"iter_cells(coord_ranges={co}) raised {res['e']}"
        ref = {tuple(i): (v, ed) for i, v, ed in ref_cells(hc)}
        order = [tuple(i) for i, _, _ in ref_cells(hc)]
        pos = {i: k for k, i in enumerate(order)}
        last = -1
        for ed, c, i in res["cells"]:
            i = tuple(i)
            if i not in ref:
                return f"iter_cells(coord_ranges) yields a cell with index {list(i)} that iter_bins does not have"
            v, red = ref[i]
            if not is_num(c) or q(c) != v or [[_nq(x) for x in p_] for p_ in ed] != [[enc(lo), enc(hi)] for lo, hi in red]:
                return f"iter_cells(coord_ranges) cell {list(i)}: content {c}, edges {ed}; iter_bins/edges give {v}, {red}"
            if pos[i] <= last:
                return f"iter_cells(coord_ranges) yields cell {list(i)} out of the order of iter_bins (or twice)"
            last = pos[i]
        return None

    if op in ("bin_edges", "bin_on_index"):
        hc = case["h"]
        ix = case["index"]
        dims = shape_of(hc)
        idx = [ix] if isinstance(ix, int) else list(ix)
        if len(idx) != len(dims) or any(k >= n for k, n in zip(idx, dims)) or (isinstance(ix, int) and op == "bin_edges" and "n" in hc["edges"]):
            return None
        cell = {tuple(i): (v, ed) for i, v, ed in ref_cells(hc)}[tuple(idx)]
        if "e" in res:
            return f"{op}({ix}) raised {res['e']}"
        if op == "bin_on_index":
            return None if is_num(res["r"]) and q(res["r"]) == cell[0] else f"get_bin_on_index({ix}) = {res['r']}, the cell holds {cell[0]}"
        got = [res["pair"]] if "pair" in res else res["pairs"]
        want = [[enc(lo), enc(hi)] for lo, hi in cell[1]]
        return None if [[_nq(x) for x in p_] for p_ in got] == want else f"get_bin_edges({ix}) = {got}, the cell has edges {want}"

    if op == "h2g_el":
        if case["mv"] == "notvar":
            return None if (res.get("e"), res.get("phase")) == ("LenaTypeError", "init") else \
                f"HistToGraph(make_value=<function>) must raise LenaTypeError at construction, got {str(res)[:200]}"
        if case["mode"] not in ("left", "right", "middle"):
            return None if (res.get("e"), res.get("phase")) == ("LenaValueError", "init") else \
                f"HistToGraph(get_coordinate={case['mode']!r}) must raise LenaValueError at construction, got {str(res)[:200]}"
        if not case["is_hist"] or not case["to_graph"]:
            return None if res.get("unchanged") else f"HistToGraph must pass the value unchanged, got {str(res)[:200]}"
        return oracle(dict(case, op="h2g"), res)

    if op == "hscale":
        hc, exact = case["h"], case["exact"]
        I = ref_integral(hc)
        s = q(case["other"])
        if not _num_ok(True, res["scale0"], I):
            return f"scale() = {res['scale0']} but the integral of the histogram is {I}"
        if I == 0:
            if res.get("e") != "LenaValueError":
                return f"rescaling a histogram with zero scale must raise LenaValueError, got {res.get('e')}"
            return None
        if "e" in res:
            return f"scale({s}) raised {res['e']} for a histogram of scale {I}"
        if not res["edges_same"]:
            return "scale(other) modified the edges"
        msg = _check_scaled_hist(case, hc, res["after"], s / I, exact, f"scale({s}) with old scale {I}")
        if msg:
            return msg
        if not _num_ok(True, res["get"], s):
            return f"scale() after scale({s}) returns {res['get']}"
        mag = sum(abs(_vol(ed) * v * s / I) for _, v, ed in ref_cells(hc))
        if not _num_ok(exact, res["recomputed"], s, mag):
            return f"recomputed scale after scale({s}) is {res['recomputed']}"
        return None

    if op == "scale_get":
        hc = case["h"]
        if "e" in res:
            return f"scale() raised {res['e']}"
        want = ref_integral(hc) if (case["recompute"] or hc["scale"] is None) else q(hc["scale"])
        if not _num_ok(True, res["r"], want):
            return (f"scale(recompute={case['recompute']}) of a histogram with integral {ref_integral(hc)} and stored "
                    f"scale {hc['scale']} returned {res['r']}")
        if not _num_ok(True, res["again"], want) or not _num_ok(True, res["after"]["scale"], want):
            return f"the scale is not stored for subsequent use: {res['again']}, {res['after']['scale']}"
        a, b = norm_hist(res["after"]), norm_hist(model_hist(hc))
        a.pop("scale"), b.pop("scale")
        return None if a == b else "scale() changed the histogram"

    if op == "nevents":
        hc, exact, incl = case["h"], case["exact"], case["incl"]
        tot_in = sum(v for _, v, _ in ref_cells(hc))
        tot_all = tot_in + q(hc["nout"])
        if not _num_ok(True, res["nev_in"], tot_in) or not _num_ok(True, res["nev_all"], tot_all):
            return f"get_nevents() = {res['nev_in']} / {res['nev_all']} but the contents sum to {tot_in} / {tot_all}"
        old = tot_all if incl else tot_in
        n = q(case["n"])
        if old == 0:
            if res.get("e") != "LenaValueError":
                return f"set_nevents on a histogram with zero events must raise LenaValueError, got {res.get('e')}"
            return None
        if "e" in res:
            return f"set_nevents({n}) raised {res['e']} for a histogram with {old} events"
        mag = sum(abs(v * n / old) for _, v, _ in ref_cells(hc)) + abs(q(hc["nout"]) * n / old)
        if not _num_ok(exact, res["nev_after"], n, mag):
            return f"after set_nevents({n}, include_out_of_range={incl}) get_nevents gives {res['nev_after']}"
        if not res["edges_same"]:
            return "set_nevents modified the edges"
        return _check_scaled_hist(case, hc, res["after"], n / old, exact, f"set_nevents({n}) with {old} events")

    if op == "add":
        a, b, w, rel = case["a"], case["b"], q(case["w"]), case["rel"]
        if not res["a_same"] or not res["b_same"]:
            return "add modified an operand"
        if rel == "nothist":
            return None if res.get("e") == "LenaTypeError" else f"add(5) must raise LenaTypeError, got {res}"
        if rel in ("shape", "ext", "pre"):
            return None if res.get("e") == "LenaValueError" else \
                f"add of histograms with {shape_of(a)} and {shape_of(b)} bins must raise LenaValueError, got {res.get('e', 'a result')}"
        if rel == "misshapen":
            return None          # bins without the shape of the edges: outside the statement (correspondence only)
        tol = case["tol"]
        # "histograms must have the same edges, compared approximately using math.isclose": the documented formula
        # |x - y| <= max(rel_tol * max(|x|, |y|), abs_tol), evaluated exactly (the generated differences are a factor
        # 1000 away from the threshold, so rounding of the float evaluation cannot change the verdict)
        rel_tol, abs_tol = (F(REL_DEFAULT), F(0)) if tol is None else (q(tol[0]), q(tol[1]))
        close = all(abs(q(x) - q(y)) <= max(rel_tol * max(abs(q(x)), abs(q(y))), abs_tol)
                    for ax, ay in zip(axes_of(a), axes_of(b)) for x, y in zip(ax, ay))
        if not close:
            return None if res.get("e") == "LenaValueError" else \
                f"add of histograms with different edges (tolerances {rel_tol}, {abs_tol}) must raise LenaValueError, got {res.get('e', 'a result')}"
        if "e" in res:
            return f"add of histograms with equal (close) edges raised {res['e']}"
        if res["alias"]:
            return "the result of add shares a list with an operand"
        if not res["is_hist"]:
            return "add did not return a histogram"
        c = res["h"]
        if norm_hist(c)["edges"] != norm_hist(a)["edges"]:
            return f"edges of the sum {c['edges']} differ from those of the first operand"
        ca, cb = ref_cells(a), ref_cells(dict(b, edges=a["edges"]))
        got = dict((tuple(i), v) for i, v, _ in ref_cells(dict(c, edges=a["edges"]))) if well_shaped(dict(c, edges=a["edges"])) else None
        if got is None:
            return f"bins of the sum have a wrong shape: {c['bins']}"
        exact = case.get("exact", True)
        # rounding of fl(a + fl(w*b)) is at most 2.01 * 2**-53 * (|a| + |w*b|); 3 * 2**-53 is a rigorous bound
        ulp3 = F(3, 2 ** 53)
        for (i, va, _), (_, vb, _) in zip(ca, cb):
            want = va + w * vb
            if (got[tuple(i)] != want) if exact else (abs(got[tuple(i)] - want) > ulp3 * (abs(va) + abs(w * vb))):
                return f"cell {list(i)} of a.add(b, {w}) is {got[tuple(i)]}, expected {va} + {w}*{vb} = {want}"
        want = q(a["nout"]) + w * q(b["nout"])
        if (q(c["nout"]) != want) if exact else (abs(q(c["nout"]) - want) > ulp3 * (abs(q(a["nout"])) + abs(w * q(b["nout"])))):
            return f"n_out_of_range of the sum is {c['nout']}, expected {a['nout']} + {w}*{b['nout']}"
        return None

    if op == "iter":
        hc = case["h"]
        if not well_shaped(hc):
            return None
        ref = ref_cells(hc)
        want_bins = [[list(i), enc(v)] for i, v, _ in ref]
        if [[i, _nq(v)] for i, v in res["bins"]] != want_bins:
            return f"iter_bins yields {res['bins']}, the cells are {want_bins}"
        want_bwe = [[enc(v), [[enc(lo), enc(hi)] for lo, hi in ed]] for _, v, ed in ref]
        if isinstance(res["bwe"], dict) or [[_nq(c) if is_num(c) else c, [[_nq(x) for x in p] for p in ed]] for c, ed in res["bwe"]] != want_bwe:
            return f"iter_bins_with_edges yields {res['bwe']}, the cells are {want_bwe}"
        rg = case["ranges"]
        dims = shape_of(hc)
        if rg and len(rg) != len(dims):
            return None      # not one range per coordinate: outside the statement
        rg = rg or [[None, None]] * len(dims)
        for (lo, up), n in zip(rg, dims):
            if (lo is not None and lo < 0) or (up is not None and up > n):
                return None if res["cells"] == {"e": "LenaValueError"} else \
                    f"iter_cells with range ({lo}, {up}) for {n} bins must raise LenaValueError, got {str(res['cells'])[:200]}"
        if isinstance(res["cells"], dict):
            return f"iter_cells raised {res['cells']}"
        sel = [(i, v, ed) for i, v, ed in ref
               if all((0 if lo is None else lo) <= k < (n if up is None else up) for k, (lo, up), n in zip(i, rg, dims))]
        want = [[[[enc(lo), enc(hi)] for lo, hi in ed], enc(v), list(i)] for i, v, ed in sel]
        got = [[[[_nq(x) for x in p] for p in ed], _nq(c) if is_num(c) else c, i] for ed, c, i in res["cells"]]
        if got != want:
            return f"iter_cells(ranges={case['ranges']}) yields {got}, the selected cells are {want}"
        if res["cells"] and res.get("cell_types") != ["HistCell"]:
            return f"iter_cells yields {res.get('cell_types')}"
        return None

    if op == "h2g":
        hc, mode, mv = case["h"], case["mode"], case["mv"]
        if mode not in ("left", "right", "middle"):
            return None if res.get("e") == "LenaValueError" else f"get_coordinate={mode!r} must raise LenaValueError, got {res}"
        names = names_tuple(case["fields"])
        dim = len(shape_of(hc))
        width = dim + MV_WIDTH[mv]
        if names is None or len(names) != width or ref_parse_names(list(names)) is None:
            return None       # field names that do not fit the points: outside the statement
        if "e" in res:
            return f"hist_to_graph raised {res['e']}"
        if not res["bins_same"]:
            return "hist_to_graph modified the histogram bins"
        want = []
        for _, v, ed in ref_cells(hc):
            if mode == "left":
                c = [lo for lo, hi in ed]
            elif mode == "right":
                c = [hi for lo, hi in ed]
            else:
                c = [(lo + hi) / 2 for lo, hi in ed]
            want.append(c)
        # "with that cell's value": the value of cell i is what the i-th call of the user's make_value returns, and
        # make_value is called exactly once per cell, in cell order
        contents = [v for _, v, _ in ref_cells(hc)]
        want = [[enc(x) for x in c + r] for c, r in zip(want, _ref_mv_results(mv, contents))]
        calls = res.get("mv_calls")
        if mv is not None and calls is not None and [_nq(x) for x in calls] != [enc(v) for v in contents]:
            return (f"make_value was called with {calls}: it must be called exactly once per cell, in cell order, "
                    f"with {[enc(v) for v in contents]}")
        if _norm_rows(res["rows"]) != want:
            return f"hist_to_graph({mode}, make_value={mv}) points {res['rows']}, one point per cell would be {want}"
        g = res["g"]
        if [list(col) for col in zip(*want)] != [[_nq(x) for x in col] for col in g["coords"]] and want:
            return f"graph coords {g['coords']} are not the columns of the points"
        if tuple(g["names"]) != names:
            return f"field names {g['names']} != {names}"
        sc = case["scale"]
        want_sc = None if sc is None else (ref_integral(hc) if sc is True else q(sc))
        if (g["scale"] is None) != (want_sc is None) or (want_sc is not None and q(g["scale"]) != want_sc):
            return f"graph scale {g['scale']}, expected {want_sc}"
        return None

    if op == "graph":
        gc = case["g"]
        names = names_tuple(gc["names"])
        cols = gc["coords"]
        valid = (names is not None and len(cols) > 0 and len(set(len(c) for c in cols)) == 1 and len(names) == len(cols))
        parsed = ref_parse_names(list(names)) if valid else None
        if parsed is None:
            if "e" not in res:
                return f"graph with coords of lengths {[len(c) for c in cols]} and field names {names} was accepted"
            if names is None:
                return None if res["e"] == "LenaTypeError" else f"field_names of a wrong type raised {res['e']}"
            return None if res["e"] == "LenaValueError" else f"invalid graph arguments raised {res['e']}"
        if "e" in res:
            return f"valid graph {names} raised {res['e']}"
        dim, owner = parsed
        g = res["g"]
        if g["dim"] != dim:
            return f"graph{names}.dim = {g['dim']}, expected {dim}"
        if _norm_rows(res["rows"]) != [list(map(norm, r)) for r in zip(*cols)]:
            return f"rows() {res['rows']} are not the points of {cols}"
        sc = gc["scale"]
        s = q(case["other"])
        if sc is None or q(sc) == 0:
            if res["scaled"] != {"e": "LenaValueError"}:
                return f"rescaling a graph with scale {sc} must raise LenaValueError, got {str(res['scaled'])[:200]}"
            if norm_graph(res["after_err"]) != norm_graph(g):
                return "a failed rescale changed the graph"
            return None
        if (res["get0"] is None) != (sc is None) or (sc is not None and q(res["get0"]) != q(sc)):
            return f"scale() of a graph given scale {sc} returns {res['get0']}"
        if "e" in res["scaled"]:
            return f"scale({s}) raised {res['scaled']['e']} for a graph with scale {sc}"
        if not res.get("ret_none", True):
            return "graph.scale(other) must return None"
        after = res["scaled"]
        ratio = s / q(sc)
        last = names[dim - 1]
        exact = case["exact"]
        for i, (old, new) in enumerate(zip(cols, after["coords"])):
            mine = (i == dim - 1) or (i >= dim and owner[i] == last)
            if len(old) != len(new):
                return f"column {names[i]} changed its length"
            for o, n_ in zip(old, new):
                wantv = q(o) * ratio if mine else q(o)
                if not _num_ok(exact or not mine, n_, wantv):
                    return (f"scale({s}) of graph{names} with scale {sc}: column {names[i]} value {o} became {n_}, "
                            f"expected {wantv}")
        if not _num_ok(True, after["scale"], s) or not _num_ok(True, res["get"], s):
            return f"scale after scale({s}) is {after['scale']} / {res['get']}"
        if list(after["names"]) != list(names) or after["dim"] != dim:
            return "scale(other) changed the field names or the dimension"
        return None

    if op == "graph_add" and not (isinstance(case["b"], dict) and "coords" in case["b"]):
        return None if "e" in res else f"graph + non-graph returned {res}"

    if op == "graph_add":
        a, b = case["a"], case["b"]
        if ref_parse_names(list(names_tuple(a["names"])))[0] != ref_parse_names(list(names_tuple(b["names"])))[0]:
            return None          # graphs of different dimensions: an assert of the code, outside the statement
        if not res["same"]:
            return "graph addition modified an operand"
        na, nb_ = names_tuple(a["names"]), names_tuple(b["names"])
        dim = ref_parse_names(list(na))[0]
        if len(na) != dim or len(b["coords"][dim - 1]) != len(a["coords"][dim - 1]):
            return None       # error fields / different numbers of points: nothing is stated
        if "e" in res:
            return f"adding graphs {na} and {nb_} raised {res['e']}"
        if res["alias"] or not res["is_graph"]:
            return "the sum of two graphs must be a new graph"
        g = res["g"]
        want = [[norm(x) for x in col] for col in a["coords"][:dim - 1]] + \
            [[enc(q(x) + q(y)) for x, y in zip(a["coords"][dim - 1], b["coords"][dim - 1])]]
        if [[_nq(x) for x in col] for col in g["coords"]] != want:
            return f"sum of graphs has coords {g['coords']}, expected {want}"
        sa_, sb_ = a["scale"], b["scale"]
        wsc = None if (sa_ is None or sb_ is None) else q(sa_) + q(sb_)
        if (g["scale"] is None) != (wsc is None) or (wsc is not None and q(g["scale"]) != wsc):
            return f"scale of the sum is {g['scale']}, expected {wsc}"
        return None

    if op == "csv_text":
        hc = case["h"]
        dims = shape_of(hc)
        if case.get("misshapen"):
            return None          # bins without the shape of the edges: outside the statement (correspondence only)
        if case.get("lists") and case["to_csv"] and case.get("data") != "other":
            return None if res.get("e") == "LenaTypeError" else \
                f"hist1d_to_csv with bins that are lists must raise LenaTypeError, got {str(res)[:200]}"
        if "e" in res:
            return f"ToCSV raised {res['e']}"
        if not case["to_csv"] or len(dims) > 2 or case.get("data") == "other":
            return None if res.get("unchanged") else f"the value must be yielded unchanged, got {str(res)[:200]}"
        if "text" not in res:
            return f"ToCSV did not produce text: {res}"
        pr = parse_csv(case, res["text"])
        if isinstance(pr, str):
            return pr
        want = _ref_csv_rows(case)
        rows = pr[1]
        if len(rows) != len(want) or any(len(r) != len(w) for r, w in zip(rows, want)):
            return f"CSV text has {len(rows)} rows, expected {len(want)} (one per cell plus the duplicated last edges)"
        for r, w in zip(rows, want):
            for x, y in zip(r, w):
                # "parse back to the edges and contents within the printed precision" (six decimals)
                if abs(x - y) > F(1, 2000000):
                    return f"CSV row {[str(v) for v in r]} does not parse back to {[str(v) for v in w]} within 0.5e-6"
        return None

    if op == "csv":
        hc = case["h"]
        dims = shape_of(hc)
        if "e" in res:
            return f"ToCSV raised {res['e']}"
        if not case["to_csv"] or len(dims) > 2:
            return None if res.get("unchanged") else f"the value must be yielded unchanged, got {str(res)[:200]}"
        if "text" not in res:
            return f"ToCSV did not produce text: {res}"
        p = parse_csv(case, res["text"])
        if isinstance(p, str):
            return p
        rows = p[1]
        dup = case["dup"] if case["ctx_dup"] is None else case["ctx_dup"]
        axes = [[q(x) for x in ax] for ax in axes_of(hc)]
        d = 1 if dup else 0
        want = []
        if len(dims) == 1:
            b = [q(x) for x in hc["bins"]]
            for i in range(dims[0] + d):
                want.append([axes[0][i], b[min(i, dims[0] - 1)]])
        else:
            b = [[q(x) for x in r] for r in hc["bins"]]
            for i in range(dims[0] + d):
                for j in range(dims[1] + d):
                    want.append([axes[0][i], axes[1][j], b[min(i, dims[0] - 1)][min(j, dims[1] - 1)]])
        if rows != want:
            return (f"CSV rows of a {dims} histogram (duplicate_last_bin={dup}) parse to {[[str(x) for x in r] for r in rows]}, "
                    f"expected {[[str(x) for x in r] for r in want]}")
        if res["ctx"].get("output", {}).get("filetype") != "csv":
            return f"context.output.filetype missing: {res['ctx']}"
        return None

    if op == "csv_graph":
        gc = case["g"]
        if "e" in res:
            return None     # invalid graph (not generated)
        if not case["to_csv"]:
            return None if res.get("unchanged") else f"the value must be yielded unchanged, got {str(res)[:200]}"
        if "text" not in res:
            return f"ToCSV did not produce text: {res}"
        p = parse_csv(case, res["text"])
        if isinstance(p, str):
            return p
        want = [[q(x) for x in r] for r in zip(*gc["coords"])]
        if p[1] != want:
            return f"CSV rows of the graph parse to {p[1]}, its points are {want}"
        return None

    if op == "scale_to":
        return _oracle_scale_to(case, res)

    if op == "scale_to_call":
        it = case["item"]
        s = q(case["s"])
        if it == "other":
            return None if "e" in res else "ScaleTo on an object without scale returned"
        known, cur = _item_scale(it)
        if not known or cur == 0:
            return None if res.get("e") == "LenaValueError" else \
                f"ScaleTo on a structure with zero or unknown scale must raise LenaValueError, got {str(res)[:200]}"
        if "e" in res:
            return f"ScaleTo({s}) raised {res['e']}"
        if not res["same_obj"] or not res["pair"]:
            return "ScaleTo must return (data, context) with the same data object"
        return _check_item_rescaled(it, res["r"], s)
    raise ValueError(op)


def _vol(ed):
    v = F(1)
    for lo, hi in ed:
        v *= hi - lo
    return v


def _item_scale(it):
    """(scale known?, scale) of a group item before rescaling"""
    if it == "other":
        return False, None
    if "hist" in it:
        hc = it["hist"]
        return True, (q(hc["scale"]) if hc.get("scale") is not None else ref_integral(hc))
    sc = it["graph"]["scale"]
    return (sc is not None), (None if sc is None else q(sc))


def _check_item_rescaled(it, after, s):
    if "hist" in it:
        if "hist" not in after:
            return f"a histogram became {after}"
        msg = _oracle_hist_rescaled(it["hist"], after["hist"], s, f"rescaling to {s}")
        if msg:
            return msg
        return None if q(after["hist"]["scale"]) == s else f"scale after rescaling to {s} is {after['hist']['scale']}"
    gc = it["graph"]
    names = names_tuple(gc["names"])
    dim, owner = ref_parse_names(list(names))
    ratio = s / q(gc["scale"])
    g = after["graph"]
    for i, (old, new) in enumerate(zip(gc["coords"], g["coords"])):
        mine = (i == dim - 1) or (i >= dim and owner[i] == names[dim - 1])
        for o, n_ in zip(old, new):
            if q(n_) != (q(o) * ratio if mine else q(o)):
                return f"graph{names} rescaled to {s}: column {names[i]} value {o} became {n_}"
    return None if q(g["scale"]) == s else f"graph scale after rescaling to {s} is {g['scale']}"


def _unchanged_item(it, after):
    if it == "other":
        return after == "other"
    if "hist" in it:
        a, b = norm_hist(after["hist"]), norm_hist(model_hist(it["hist"]))
        a.pop("scale"), b.pop("scale")      # the cached scale may have been computed
        return a == b
    g = after["graph"]
    return [[norm(x) for x in c] for c in it["graph"]["coords"]] == [[norm(x) for x in c] for c in g["coords"]] and \
        (g["scale"] is None) == (it["graph"]["scale"] is None) and \
        (g["scale"] is None or q(g["scale"]) == q(it["graph"]["scale"]))


def _oracle_scale_to(case, res):
    if case.get("same"):
        return _oracle_scale_to(dict(case, same=None, group=_once(case, case["group"])), dict(res, group=_once(case, res["group"])))
    group, t = case["group"], case["target"]
    if case["via"] == "GroupScale" and not case.get("seq", True):
        if res["e"] != "LenaValueError":
            return f"GroupScale on a group that is not a list or tuple must raise LenaValueError, got {res['e']}"
        return None if all(_unchanged_item(i, a) for i, a in zip(group, res["group"])) else \
            "GroupScale changed a group it rejected"
    if t in ("hist", "graph"):
        cands = [it for it in group if it != "other" and t in it]
        if len(cands) != 1:
            if res["e"] != "LenaValueError":
                return f"scale_to with {len(cands)} candidates must raise LenaValueError, got {res['e']}"
            return None if all(_unchanged_item(i, a) for i, a in zip(group, res["group"])) else \
                "scale_to changed the group although no unique candidate exists"
        known, s = _item_scale(cands[0])
        if not known:
            return None       # a candidate with unknown scale: nothing is stated
    else:
        s = q(t)
    # items are rescaled in order; the first one that cannot be rescaled (and is not allowed to be skipped) ends it
    expect_exc = None
    for k, (it, after) in enumerate(zip(group, res["group"])):
        known, cur = _item_scale(it)
        bad = None
        if it == "other" or not known:
            # no scale method -> allow_unknown_scale; a graph with unknown scale raises LenaValueError in graph.scale,
            # which scale_to treats like a zero scale
            bad = "au" if it == "other" else "az"
        elif cur == 0:
            bad = "az"
        if bad is None:
            msg = _check_item_rescaled(it, after, s)
            if msg:
                return f"item {k}: {msg}"
            continue
        if not _unchanged_item(it, after):
            return f"item {k} cannot be rescaled but was changed: {after}"
        if not case[bad]:
            expect_exc = "LenaValueError"
            for it2, after2 in list(zip(group, res["group"]))[k + 1:]:
                if not _unchanged_item(it2, after2):
                    return f"an item after the failing item {k} was changed"
            break
    if res["e"] != expect_exc:
        return f"scale_to raised {res['e']}, expected {expect_exc} (group scales {[_item_scale(i) for i in group]}, allow_zero_scale={case['az']}, allow_unknown_scale={case['au']})"
    return None


# ----------------------------------------------------------------------------------------------

def nontrivial(case, res):
    if isinstance(res, dict) and ("e" in res and res["e"]):
        return True
    op = case["op"]
    if op in ("hscale", "nevents", "iter", "h2g", "csv", "scale_get", "iter_coord", "csv_text", "h2g_el", "bin_edges",
              "bin_on_index"):
        return len(list(flat_nested(case["h"]["bins"]))) >= 2 and not res.get("unchanged", False)
    if op == "add":
        return len(list(flat_nested(case["a"]["bins"]))) >= 2
    if op == "graph_add":
        return bool(case["a"]["coords"]) and len(case["a"]["coords"][0]) >= 2
    if op in ("graph", "csv_graph"):
        g = case["g"]
        return bool(g["coords"]) and len(g["coords"][0]) >= 2 and not res.get("unchanged", False)
    if op in ("csv_flow", "h2g_flow"):
        return True
    if op in ("chain", "gchain"):
        return len(case["steps"]) >= 2
    if op == "scale_to":
        return len(case["group"]) >= 2
    if op == "scale_to_call":
        return "r" in res
    return "h" in res


def classify(case, res):
    op = case["op"]
    out = [op]
    e = res.get("e") if isinstance(res, dict) else None
    if e:
        out.append(f"{op}:raises:{e}")
    hc = case.get("h") or case.get("a")
    if isinstance(hc, dict) and "bins" in hc:
        out.append(f"hist:dim={len(shape_of(hc))}")
        out.append(f"hist:contents={hc.get('kind')}")
        out.append(f"hist:edges={hc.get('econt', 'list')}")
    if op in ("hscale", "nevents"):
        out.append(f"{op}:{'exact' if case['exact'] else 'rounded'}")
    if op == "add":
        out.append(f"add:{case['rel']}:{'ok' if 'h' in res else res.get('e')}")
        out.append("add:w=1" if case["w"] == "1" else "add:w!=1")
    if op == "iter":
        rg = case["ranges"]
        out.append("iter:ranges=" + ("none" if not rg else "given") + ":" +
                   ("error" if isinstance(res["cells"], dict) else ("empty" if not res["cells"] else "cells")))
    if op == "h2g":
        out.append(f"h2g:{case['mode']}")
        out.append(f"h2g:make_value={case['mv']}")
        out.append(f"h2g:scale={'num' if isinstance(case['scale'], str) else case['scale']}")
    if op == "graph" and "g" in res:
        out.append(f"graph:dim={res['g']['dim']}:errors={len(res['g']['parsed'])}")
        out.append("graph:" + ("rescaled" if "e" not in res["scaled"] else "scale raises " + res["scaled"]["e"]))
    if op == "graph_add":
        out.append("graph_add:" + ("ok" if "g" in res else res.get("e", "?")))
    if op == "iter_coord" and "cells" in res:
        out.append("iter_coord:" + ("empty" if not res["cells"] else "cells"))
    if op == "csv_text":
        out.append("csv_text:" + ("unchanged" if res.get("unchanged") else "text"))
    if op == "h2g_el":
        out.append("h2g_el:" + ("unchanged" if res.get("unchanged") else ("graph" if "g" in res else "raises")))
    if op == "csv":
        out.append("csv:" + ("unchanged" if res.get("unchanged") else f"dup={case['dup']}/ctx={case['ctx_dup']}"))
    if op == "scale_to":
        out.append(f"scale_to:target={'num' if case['target'] not in ('hist', 'graph') else case['target']}:{res['e']}")
        out.append(f"scale_to:n={len(case['group'])}")
    return out


def signature(case, failure):
    return f"{case['op']}:" + hashlib.sha1(jdump(case).encode()).hexdigest()[:12]


def _shrink_hist(hc):
    """smaller variants of a case histogram"""
    axes = axes_of(hc)
    # drop the last bin along an axis
    for k, ax in enumerate(axes):
        if len(ax) > 2:
            h2 = copy.deepcopy(hc)
            a2 = axes_of(h2)
            a2[k].pop()

            def cut(b, depth):
                if depth == 0:
                    return b[:-1]
                return [cut(x, depth - 1) for x in b]
            h2["bins"] = cut(h2["bins"], k)
            yield h2
    # simpler numbers
    flat = list(flat_nested(hc["bins"]))
    for i, v in enumerate(flat):
        for simple in ("0/1", "1/1"):
            if norm(v) != simple:
                h2 = copy.deepcopy(hc)
                cnt = [0]

                def rep(s):
                    cnt[0] += 1
                    return simple if cnt[0] - 1 == i else s
                h2["bins"] = map_nested(rep, h2["bins"])
                yield h2
    if norm(hc["nout"]) != "0/1":
        yield dict(hc, nout="0/1")


def _chain_valid(steps):
    have_c = False
    for st in steps:
        if st["k"] == "add":
            if "c" in (st["x"], st["y"]) and not have_c:
                return False
            have_c = True
        elif st["o"] == "c" and not have_c:
            return False
    return True


def _follow_scale(old, new):
    """a stored scale that was "computed before" (equal to the integral) stays the integral of the shrunk bins - a
    shrunk case must not turn into a histogram with a stale stored scale"""
    if new.get("scale") is not None and well_shaped(old) and well_shaped(new) and q(old["scale"]) == ref_integral(old):
        new["scale"] = enc(ref_integral(new))


def shrink(case):
    op = case["op"]
    if op == "chain":
        # shorter sequences on the same two histograms (the histograms must keep their common edges)
        steps = case["steps"]
        for i in range(len(steps) - 1, -1, -1):
            cand = steps[:i] + steps[i + 1:]
            if cand and _chain_valid(cand):
                yield dict(case, steps=cand)
        for key in ("a", "b"):
            if case[key].get("scale") is not None:
                yield dict(case, **{key: dict(case[key], scale=None)})
        return
    for key in ("h", "a"):
        if key in case and isinstance(case[key], dict) and "bins" in case[key]:
            for h2 in _shrink_hist(case[key]):
                c = dict(case)
                c[key] = h2
                if op == "add" and case.get("rel") in ("same",):
                    b2 = copy.deepcopy(case["b"])
                    if shape_of(h2) != shape_of(case["a"]):
                        continue
                    c["b"] = b2
                _follow_scale(case[key], h2)
                if op == "hscale" and case.get("exact"):
                    # keep the ratio target / old scale
                    i_old, i_new = ref_integral(case["h"]), ref_integral(h2)
                    r = q(case["other"]) / i_old if i_old != 0 else q(case["other"])
                    c["other"] = enc(r * i_new if i_new != 0 else r)
                if op == "nevents" and case.get("exact"):
                    def tot(hc):
                        return sum(v for _, v, _ in ref_cells(hc)) + (q(hc["nout"]) if case["incl"] else 0)
                    t_old, t_new = tot(case["h"]), tot(h2)
                    r = q(case["n"]) / t_old if t_old != 0 else q(case["n"])
                    c["n"] = enc(r * t_new if t_new != 0 else r)
                yield c
    if op == "scale_to" and len(case["group"]) > 1:
        for i in range(len(case["group"])):
            yield dict(case, group=case["group"][:i] + case["group"][i + 1:], same=None)
    if op == "graph":
        g = case["g"]
        if g["coords"] and len(g["coords"][0]) > 1:
            yield dict(case, g=dict(g, coords=[c[:-1] for c in g["coords"]]))


# ---- MANIFEST texts ------------------------------------------------------------------------
LEVEL_TEXT = ("Lean 4 theorems over exact rationals about a transcribed model of histogram.scale/add/get_nevents/"
              "set_nevents, integral, iter_bins/iter_bins_with_edges/iter_cells, hist_to_graph, graph.__init__/"
              "_parse_error_names/scale, hist1d_to_csv/hist2d_to_csv/ToCSV.run, scale_to/ScaleTo, for all dimensions, "
              "shapes, contents, targets and namings (no bound); the model is tied to /repo by a correspondence check on "
              "cases whose float arithmetic is exact, plus a direct oracle (reference computation, CSV text parsed back, "
              "'up to rounding' checked numerically with stated bounds) on the real code; multi-step sequences on one histogram / "
              "graph / element object are part of the generated scope.")
LEVEL_NOTE = ("Trusted: Lean kernel (+ propext, Classical.choice, Quot.sound), the hand transcription validated by the "
              "correspondence run on generated cases, exact-rational stand-in for int/float arithmetic (rounding outside "
              "the model, DESIGN.md section 8), the Python references of the oracle, correct rounding of CPython's '{:f}' "
              "(modelled as fmtF and compared as text), the JSON protocol. 'Recomputed scale equals s' is proved under the "
              "no-stale-cache hypothesis only (the unconditional sentence is proved false of the code).")
TECHNIQUE = "Lean 4 proof over hand-written model + correspondence check on exact-arithmetic cases + reference oracle"
DESIGN_REF = "DESIGN.md section 3, C12"
