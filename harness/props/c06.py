"""C06 — histogram fill puts every value into exactly the right cell and conserves weight.

Real code: lena.structures.hist_functions (get_bin_on_value_1d, get_bin_on_value, check_edges_increasing,
init_bins), lena.structures.histogram (__init__, fill), lena.structures.Histogram (__init__, fill, reset, compute).
Model: lean/LenaModel/Model/C06.lean (+ C06Spec, C06Compute), theorems lean/LenaModel/Props/C06*.lean.

Numbers: a case holds the real Python numbers (ints and floats; JSON round-trips both exactly).  For the model,
edge values and coordinates are replaced by their rank among all numbers of the case (exact comparison through
fractions.Fraction): the model is polymorphic in the ordered type and can only compare.  Weights and bin contents
are integers or dyadic floats (multiples of 1/1024, far below 2**53) and are sent multiplied by 1024, so every
sum is exact on both sides and results are compared with ==, never with a tolerance.  In the all-integer cases
(case["big"]) contents and weights are Python integers of any size (exact on both sides as well).
"""
import copy
import hashlib
import json
import inspect
import math
import re
import struct
import sys
from fractions import Fraction

from harness.common import exc_name

PID = "C06"
TITLE = "Histogram fill puts every value into exactly the right cell and conserves weight"
LEAN_MODULES = ["LenaModel.Props.C06", "LenaModel.Props.C06Ext", "LenaModel.Props.C06At", "LenaModel.Props.C06Compute"]
LEAN_SOURCES = ["LenaModel/Model/C06.lean", "LenaModel/Model/C06Spec.lean", "LenaModel/Model/C06Compute.lean",
                "LenaModel/Lemmas/C06.lean", "LenaModel/Lemmas/C06Ext.lean", "LenaModel/Props/C06.lean",
                "LenaModel/Props/C06Ext.lean", "LenaModel/Props/C06At.lean", "LenaModel/Props/C06Compute.lean"]
DRIVER = "drivers/C06.lean"
THEOREMS = [
    # --- the carriers: every sentence of the property for EVERY interpolation guess (code after lena 4fbe73b)
    "Lena.C06.bin1d_correct",                 # (4) index = #edges <= value - 1, one axis
    "Lena.C06.bin1d_halfopen_any",            # (4) closed lower / open upper bound
    "Lena.C06.getBinOnValue_correct",         # (4) any dimension
    "Lena.C06.inCell_unique",                 # (1) "the one cell"
    "Lena.C06.fill_correct",                  # (1)+(2) fill = specFill
    "Lena.C06.fill_exact_cell_any",           # (1)
    "Lena.C06.fill_out_of_range_any",         # (2)
    "Lena.C06.fill_frame_any",                # (1)-(3) observationally
    "Lena.C06.fill_conserves",                # (3)+(5) unconditional delta form (weak half: would hold for a wrong cell)
    "Lena.C06.fillAll_conserves",
    "Lena.C06.fillAll_correct",               # any sequence = specFillAll, nothing raises
    "Lena.C06.weight_conserved_any",          # (5) structure
    "Lena.C06.elem_weight_conserved_any",     # (5) element Histogram(edges)
    "Lena.C06.histEl2_run_correct",           # (5) element with bins / make_bins / initial_value, re-used across resets
    "Lena.C06.histEl2_run3_correct",          # (5) the same, the histogram observed by compute() anywhere in the history
    "Lena.C06.run3_state_eq_run",             # compute() never changes the element's state (no hypothesis)
    "Lena.C06.compute_after_fills",           # (5) what compute() yields after any flow of values
    "Lena.C06.checkEdgesIncreasing_ok",       # the precondition guard
    "Lena.C06.checkEdgesIncreasing_err",
    "Lena.C06.mkHist_valid",
    "Lena.C06.mkHist_invalid",
    "Lena.C06.mkHist_bins_wf",
    # --- about the interpolation itself (no longer needed for correctness)
    "Lena.C06.bin1d_guess_independent",
    "Lena.C06.bin1d_interp",
    "Lena.C06.roundedGuess_in_range",
    "Lena.C06.bin1d_rounded",
]
# corollaries kept for the files that use them (hypotheses on the guess that are no longer needed), true by definition,
# model-internal glue, encoding lemmas, the weak halves: audited, not counted as obligations of the property
AUX_THEOREMS = [
    "Lena.C06.bin1d_spec", "Lena.C06.bin1d_halfopen", "Lena.C06.bin1d_ok_or_unmodelled",
    "Lena.C06.getBinOnValue_spec", "Lena.C06.getBinOnValue_spec_at", "Lena.C06.getBinOnValue_ok_or_unmodelled",
    "Lena.C06.fill_exact_cell", "Lena.C06.fill_out_of_range", "Lena.C06.fill_frame",
    "Lena.C06.fill_exact_cell_at", "Lena.C06.fill_out_of_range_at", "Lena.C06.fill_frame_at",
    "Lena.C06.fill_eq_specFill", "Lena.C06.fill_eq_specFill_at", "Lena.C06.fill_ok_or_unmodelled",
    "Lena.C06.fill_interp", "Lena.C06.fill_rounded",
    "Lena.C06.fillAll_ok", "Lena.C06.fillAll_ok_at", "Lena.C06.fillAll_eq_specFillAll",
    "Lena.C06.fillAll_eq_specFillAll_at", "Lena.C06.fillAll_ok_or_unmodelled",
    "Lena.C06.weight_conserved", "Lena.C06.weight_conserved_at", "Lena.C06.weight_conserved_interp",
    "Lena.C06.weight_conserved_rounded",
    "Lena.C06.elem_weight_conserved", "Lena.C06.elem_weight_conserved_at",
    "Lena.C06.histEl2_run_conserved", "Lena.C06.histEl2_run_conserved_at", "Lena.C06.histEl2_run_ok_or_unmodelled",
    "Lena.C06.histEl2_run_rounded",
    "Lena.C06.bin1d_returns",                 # weak half: holds for a wrong in-range index too
    "Lena.C06.bin1d_of_visitedInRange",       # bin1d_ok_or_unmodelled restated (visitedInRange is defined by it)
    "Lena.C06.visitedInRange_of_guessOKAt",
    "Lena.C06.guessOKAtB_iff",                # executable twin = GuessOKAt
    "Lena.C06.guessesOKAtB_iff",
    "Lena.C06.bin1d_of_guessOKAtB",
    "Lena.C06.bin1d_float",                   # an instance for floatGuess; says nothing about floats
    "Lena.C06.getBinOnValue_wrong_length",
    "Lena.C06.fill_wrong_length",
    "Lena.C06.fill_wf",
    "Lena.C06.mkHist_bins",                   # the literal outer-length test
    "Lena.C06.cellOf?_eq_some_iff",
    "Lena.C06.properList?_iff",
    "Lena.C06.wfB_iff",
    "Lena.C06.initBinsD_eq",                  # model against model (identity of cells is outside the value model)
    "Lena.C06.histEl2_new_both",              # rfl
    "Lena.C06.histEl2_reset_fresh",           # reset and __init__ are the same call by definition
    "Lena.C06.elem_fill_exact_cell",          # one rewrite from the structure theorems
    "Lena.C06.elem_fill_out_of_range",
    "Lena.C06.histEl2_run_not_unmodelled",
    "Lena.C06.run3_of_run",                   # a history without compute() is HistEl2.run (glue)
    "Lena.C06.specYields_fills_compute",
    "Lena.C06.interpGuessN_okAt",
    "Lena.C06.roundedGuessN_okAt",
    "Lena.C06.fl8_roundingOK",                # a rounding that really rounds satisfies RoundingOK (non-vacuity)
]
TRUSTED = [
    "Lean 4.33.0 kernel; axioms limited to propext, Classical.choice, Quot.sound (audited by #print axioms on every run)",
    "hand transcription of get_bin_on_value_1d, get_bin_on_value, check_edges_increasing, init_bins (deepcopy True/False), "
    "histogram.__init__/fill and Histogram.__init__/fill/reset into LenaModel/Model/C06.lean (plus NArr.lean) and of "
    "Histogram.compute into LenaModel/Model/C06Compute.lean (it yields the wrapped histogram and reads only), validated by "
    "this correspondence check (sampled, not exhaustive); the three container tests of the code (hasattr __iter__ in "
    "check_edges_increasing, histogram.__init__ and - since e6c6bab - init_bins) are ONE flat/nested switch in the model",
    "the float interpolation guess is a parameter of the model.  Since lena 4fbe73b the theorems that carry the property "
    "hold for EVERY guess function, so nothing about IEEE arithmetic is trusted for correctness any more.  For the "
    "correspondence the guess values are OBSERVED in the real code where possible (get_bin_on_value_1d is run under "
    "sys.settrace and its locals ind_min/ind_max/ind_guess are read after each assignment of ind_guess); at states the "
    "real search did not visit, or if the function no longer has these locals, the harness evaluates its own copy of the "
    "expression of hist_functions.py:206-210.  Only outcomes (indices, cells, exceptions) are compared with the real code; "
    "the comparisons 'Lean Float guess = CPython guess' and 'guessOKAtB = Python evaluation' are between the driver and "
    "the harness's copy of the expression and do not involve lena",
    "JSON line protocol encoders (harness/props/c06.py, drivers/C06.lean); exact rank / scaled-integer encodings",
]
ASSUMPTIONS = [
    "edge values and coordinates are numbers of a linear order: ints, finite floats and +-inf coordinates; NaN is outside "
    "(observed on /repo: histogram([0,1]).fill(nan) adds to bin 0 because both comparisons are false, "
    "histogram([0,1,2]).fill(nan) raises ValueError from int(nan)); differences that overflow float() (ints beyond 1e308) "
    "are outside",
    "edge containers: lists, tuples and ranges (flat or nested, outer list or tuple) are generated; other iterables "
    "(numpy arrays, generators) are not; the model is container-agnostic",
    "dimensions: the theorems hold for any number of axes; the generator produces 1-4",
    "axis lengths: theorems unbounded; the generator produces 2..12 edges per axis in histogram cases (in 5 % of them "
    "one axis of 13..400 edges) and up to 400 in 1-d search cases (the search is linear in the worst case)",
    "weights and bin contents are ints or dyadic floats whose sums are exact (rounding in sums of arbitrary floats is "
    "outside the model); theorems hold for any commutative monoid of weights.  Integers of any size belong to it: "
    "Python adds them exactly, so in a histogram whose initial contents and weights are all integers the exact "
    "cell / n_out_of_range values and the exact conservation are demanded beyond 2**53 too (about 12 % of the cases; "
    "adversary candidates 1 and 7 - an accumulator that is a float from the start - are judged property-breaking: the "
    "statement quantifies over all weights and says 'equals')",
    "aliasing is outside the value model and outside the statement of C06 (it is C04's subject): sub-lists of "
    "user-supplied bins are not aliased; the caller does not keep using the `bins` list it hands over (histogram(edges, "
    "bins) and Histogram(edges, bins) adopt the object itself for the first epoch - observed on /repo: two elements built "
    "from one list share their cells; reset() uses the deep copy made in __init__); histogram.edges is the caller's object; "
    "make_bins() returns a new object on every call.  run_impl deep-copies every argument and builds one object per "
    "case, so none of this is exercised; the per-fill 'exactly one cell changed' oracle does see aliasing INSIDE one "
    "histogram (rows sharing a list)",
    "user-supplied bins whose inner shape does not match the edges are outside the property: such cases are generated, "
    "but the correspondence stops at the first fill on which model and implementation part (a refactoring may turn "
    "'IndexError counted as out of range' into a raised IndexError there)",
    "for the element the histogram is observed the public way, by list(compute()), at the end of a history and wherever "
    "the history calls compute() (per-fill deltas are judged on the structure).  compute() must yield exactly one "
    "(histogram, context) pair holding the initial content plus everything filled since the last reset(): a compute() "
    "that takes content away (adversary candidate 4) breaks 'always equals the total filled weight ... for the element'. "
    "What else compute() does (contexts, independence of the yielded objects) is C04/C09's subject and is not judged",
    "the coordinate of a fill is its value at the time of the call: the caller may keep one mutable point (a list or a "
    "list subclass - get_bin_on_value takes lists and tuples as points) and overwrite it in place between fills, and may "
    "overwrite a point after it was filled (seed C06-K: a cache holding a reference to the last coordinate object is "
    "property-breaking); half of the histories with sequence points do so.  Points that change DURING a call "
    "(another thread, an __eq__ with side effects) are outside",
    "the edges attribute is compared as numbers (a rewrite that stores tuples as lists is not a change of the edges)",
]
RULE = ("a lazy stream of interleaved cases: (bin1d) one edge array (2..12 edges; families: uniform ints/floats, random "
        "ints/floats, magnitudes 1e-300..1e300 with random exponents, one huge outlier next to small values, chains of "
        "adjacent floats, mixed ints/floats, big ints incl. integers spread over a few ulps of the doubles around 2**k; also "
        "arrays of 1 edge, 13..40 edges (thorough), 70..400 edges (both tiers) and non-monotone arrays for the "
        "correspondence; given as list, tuple or range) with every edge, its two floating-point neighbours, integer "
        "neighbours, midpoints, values far outside, +-inf and random values; the guess table of the model holds the "
        "guesses observed in the real code (sys.settrace) and, for half of the short arrays, the source expression at every "
        "state GuessOKAt speaks about; for all-float arrays the driver recomputes every guess with Lean's Float, for all-int "
        "arrays it runs interpGuess and roundedGuess; (hist) a histogram of 1-4 dimensions (flat and nested edge formats; "
        "axes as lists, tuples or ranges, outer list or tuple; initial value or given bins; valid and invalid "
        "edges/bins/coordinate forms, bins as a bare number) filled with a sequence of such coordinates and integer/dyadic "
        "weights of both signs; the coordinates of half of the histories with sequence points are handed over in re-used "
        "mutable objects (one list / list subclass overwritten in place before every fill, alternating with tuples, or the "
        "previous fill's list overwritten after the call), observed after every fill (index list, changed cells, n_out_of_range) and compared with the "
        "specification-side interpreter (specFillAll, cellOf?, InCell, indices, total, sumW, WF, ValidEdges, Proper, "
        "guessesOKAtB); in 12 % of the histogram cases all contents and weights are integers, many beyond 2**53 (exact on "
        "the real code as well); in 5 % one axis has 13..400 edges; (elem) the same through the Histogram element with and "
        "without contexts, observed by compute(); (elem2) one element object created with bins / make_bins / "
        "initial_value (and both: LenaTypeError), re-used across reset()s and compute()s in any order (HistEl2.run3: "
        "everything yielded is compared and judged), finally reset() against a new element; (initbins) init_bins with deepcopy True/False and check_edges_increasing called "
        "directly, on valid and degenerate edges. quick: 1500 cases, about 55 k filled points per seed; thorough: 50000 "
        "lighter cases, about 1 M points. Non-trivial: at least one value landed in a cell and at least one search needed "
        "an interpolation guess, or an exception was raised.")
CASE_TIMEOUT = 10

SCALE = 1024
INF = float("inf")


# ----------------------------------------------------------------------------------------
# numbers

def _scaled(x):
    """exact scaled-integer form of a bin content / weight (ints and dyadic floats); anything else is shown as a
    string and can never equal a model integer"""
    if type(x) is int:
        return x * SCALE
    if type(x) is float:
        if not math.isfinite(x):
            return "float:" + repr(x)
        y = x * SCALE               # exact: a power of two (no overflow for the magnitudes used here)
        if math.isfinite(y) and y.is_integer():
            return int(y)
        f = Fraction(x) * SCALE
        return int(f) if f.denominator == 1 else f"{f.numerator}/{f.denominator}"
    return "obj:" + type(x).__name__


def _same(v, u):
    """cheap test that a cell did not change (same type and value)"""
    return v is u or (type(v) is type(u) and v == u)


def _nbrs(e):
    """floating-point and integer neighbours of an edge value"""
    out = []
    try:
        fe = float(e)
    except OverflowError:
        fe = None
    if fe is not None and math.isfinite(fe):
        for d in (-INF, INF):
            y = math.nextafter(fe, d)
            if math.isfinite(y):
                out.append(y)
    if isinstance(e, int):
        out += [e - 1, e + 1]
    return out


# ----------------------------------------------------------------------------------------
# generators

FAMILIES = ("uni_int", "uni_float", "rand_int", "rand_float", "wild", "outlier", "ulp", "mixed", "bigint")


def _strict(xs):
    return all(a < b for a, b in zip(xs, xs[1:]))


def gen_axis(rng, n, fam):
    """n strictly increasing finite numbers"""
    for _ in range(50):
        if fam == "uni_int":
            a, h = rng.randint(-20, 20), rng.randint(1, 7)
            xs = [a + i * h for i in range(n)]
        elif fam == "uni_float":
            a, h = rng.choice([0.0, -1.0, 0.1, rng.uniform(-10, 10)]), rng.choice([0.1, 0.3, 1 / 3, 1e-3, 2.5, 1.0, 1e-9])
            xs = [a + i * h for i in range(n)]
        elif fam == "rand_int":
            xs = sorted(rng.sample(range(-max(60, 3 * n), max(60, 3 * n)), n))
        elif fam == "rand_float":
            xs = sorted(rng.uniform(-100, 100) for _ in range(n))
        elif fam == "wild":
            xs = set()
            while len(xs) < n:
                r = rng.random()
                if r < 0.08:
                    xs.add(0.0)
                else:
                    xs.add(rng.choice([-1, 1]) * 10.0 ** rng.uniform(-300, 300))
            xs = sorted(xs)
        elif fam == "outlier":
            big = rng.choice([1e18, 2.0 ** 60, 1e300, 1e30, 2 ** 60, 10 ** 18, 1e15, 3e16])
            palette = [-5, -3, -1, 0, 1, 2, 3, 4, 7, -5.5, 0.25, 0.5, 1.5, 2.5, 1e-3, 1e-300]
            small = sorted(rng.sample(palette if n - 1 <= len(palette) else list(range(-max(50, n), max(50, n))), n - 1))
            if n >= 4 and rng.random() < 0.25:
                xs = [-big] + small[:n - 2] + [big]
            elif rng.random() < 0.6:
                xs = [-big] + small
            else:
                xs = small + [big]
        elif fam == "ulp":
            x = rng.choice([1.0, 0.1, -3.5, 1e-300, 1e300, 5e-324, 0.0, -1e-310, 4503599627370496.0, 1 / 3])
            xs = [x]
            for _ in range(n - 1):
                for _ in range(rng.choice([1, 1, 1, 2, 3])):
                    x = math.nextafter(x, INF)
                xs.append(x)
        elif fam == "mixed":
            base = sorted(rng.sample(range(-max(30, n), max(30, n)), n))
            xs = []
            for b in base:
                r = rng.random()
                xs.append(b if r < 0.4 else float(b) if r < 0.6 else b + rng.choice([0.5, 0.25, 0.125, 0.1]))
            xs = sorted(xs)
        elif fam == "bigint":
            k = rng.choice([53, 60, 64, 70, 100])
            kind = rng.random()
            if kind < 0.3:
                xs = [-2 ** k] + list(range(1, n))
            elif kind < 0.55:
                # integers spread over a few ulps of the doubles around 2**k: converting them to float is not monotone
                # with respect to their exact differences (notes/C06_defect_3.md)
                s_ = max(n, 2 ** max(k - 52, 0) * rng.choice([1, 2, 4]))
                xs = sorted(rng.sample(range(2 ** k - s_, 2 ** k + s_), n))
            elif kind < 0.75:
                xs = sorted(rng.sample(range(2 ** k - max(20, n), 2 ** k + max(20, n)), n))
            else:
                xs = list(range(-n + 2, 1)) + [2 ** k]
                xs = xs[-n:]
        else:
            raise ValueError(fam)
        if len(xs) == n and _strict(xs) and all(math.isfinite(float(x)) for x in xs if abs(x) < 1e305):
            return xs
    return list(range(n))


def coord_pool(rng, xs, extra=6):
    """coordinates of interest for one axis: every edge, its neighbours, midpoints, far outside, random inside"""
    pool = []
    for e in xs:
        pool.append(e)
        pool.extend(_nbrs(e))
    for a, b in zip(xs, xs[1:]):
        try:
            m = a + (b - a) / 2
        except OverflowError:
            continue
        pool.append(m)
        if isinstance(a, int) and isinstance(b, int) and b - a >= 2:
            pool.append(rng.randint(a + 1, b - 1))
    lo, hi = xs[0], xs[-1]
    pool += [-1e300, 1e300, -10 ** 30, 10 ** 30, lo - 1, hi + 1, INF, -INF]
    try:
        flo, fhi = float(lo), float(hi)
        for _ in range(extra):
            pool.append(rng.uniform(flo, fhi))
            j = rng.randrange(len(xs) - 1) if len(xs) > 1 else 0
            if len(xs) > 1:
                pool.append(rng.uniform(float(xs[j]), float(xs[j + 1])))
    except OverflowError:
        pass
    return [p for p in pool if isinstance(p, int) or not math.isnan(p)]


def _range_of(xs):
    """the range object with exactly these elements, if there is one"""
    if len(xs) >= 2 and all(type(x) is int for x in xs):
        h = xs[1] - xs[0]
        if h > 0 and all(b - a == h for a, b in zip(xs, xs[1:])):
            return range(xs[0], xs[-1] + h, h)
    return None


def _pick_kind(rng, xs):
    r = rng.random()
    if r < 0.68:
        return "list"
    if r < 0.88 or _range_of(xs) is None:
        return "tuple"
    return "range"


def _as_kind(xs, kind):
    if kind == "tuple":
        return tuple(xs)
    if kind == "range":
        r = _range_of(xs)
        return r if r is not None else list(xs)
    return list(xs)


def build_edges(case):
    """the real `edges` argument: the numbers of case['edges'] in the containers case['axes_as'] / case['edges_as']
    (lists unless stated)"""
    edges = case["edges"]
    kinds = case.get("axes_as")
    if not kinds:
        return copy.deepcopy(edges)
    if _is_axes(edges):
        axes = [_as_kind(a, k) for a, k in zip(edges, kinds)]
        return tuple(axes) if case.get("edges_as") == "tuple" else axes
    return _as_kind(edges, kinds[0])


WEIGHTS = [1, 1, 1, 2, 3, 5, -1, -2, 0, 7, 10 ** 9, 0.5, 0.25, 1.5, -0.5, 2.0, 3 / 1024, 1000.125]
# "all weights": Python sums integers exactly whatever their size, so in a histogram whose contents and weights are all
# integers every sum is exact on the real code too - also far beyond 2**53, where a float accumulator is not
# (adversary candidates C06/1, C06/7: n_out_of_range = 0., cell += float(weight))
BIG_WEIGHTS = [1, 1, 2, 3, -1, 0, 2 ** 53, 2 ** 53 + 1, 2 ** 53 - 1, -(2 ** 53) - 1, 2 ** 63, 2 ** 64 + 1, 10 ** 17 + 1,
               10 ** 30 + 7, -(10 ** 25) - 3, 3 * 2 ** 52 + 1]
BIG_CONTENTS = [0, 0, 1, 2, 5, -1, 2 ** 53, 2 ** 53 + 1, -(2 ** 60) - 1, 10 ** 20 + 1]
LONG_FAMILIES = ("outlier", "outlier", "wild", "rand_int", "uni_float", "uni_int", "bigint")


def gen_bin1d_case(rng, tier):
    r = rng.random()
    long = False
    if r < 0.04:
        n = 1
    elif r < 0.08:
        # longer than any internal constant: the search is linear in the worst case (one huge outlier)
        n, long = rng.randint(70, 400), True
    elif r < 0.14 and tier == "thorough":
        n = rng.randint(13, 40)
    else:
        n = rng.randint(2, 12)
    fam = rng.choice(("outlier", "outlier", "wild", "rand_int", "uni_float", "bigint")) if long else rng.choice(FAMILIES)
    if n == 1:
        xs = [rng.choice([0, 1.5, -2, 10 ** 20])]
    else:
        xs = gen_axis(rng, n, fam)
    mono = True
    if 3 <= n <= 40 and rng.random() < 0.06:
        # outside the precondition: correspondence only
        xs = list(xs)
        rng.shuffle(xs)
        if rng.random() < 0.5:
            xs[rng.randrange(n)] = xs[rng.randrange(n)]
        mono = _strict(xs)
        fam = "nonmono" if not mono else fam
    if long:
        inner = [x for x in xs[1:-1]]
        pool = [xs[0], xs[-1], xs[-2], INF] + rng.sample(inner, 3)
        for _ in range(2):
            j = rng.randrange(n - 1)
            try:
                pool.append(xs[j] + (xs[j + 1] - xs[j]) / 2)
            except OverflowError:
                pass
        pool += _nbrs(xs[-2])[:2]
    else:
        pool = coord_pool(rng, sorted(xs)) if n > 1 else [xs[0], xs[0] - 1, xs[0] + 1, INF, -INF] + _nbrs(xs[0])
    cap = 70 if tier == "quick" else 36
    if len(pool) > cap:
        keep = [p for p in pool if p in xs][:cap]
        rest = [p for p in pool if p not in xs]
        rng.shuffle(rest)
        pool = keep + rest[:cap - len(keep)]
    return {"op": "bin1d", "arr": xs, "vals": pool, "fam": fam, "full": n <= 12 and rng.random() < 0.5,
            "axes_as": [_pick_kind(rng, xs)]}


def _dims_for(rng, tier):
    r = rng.random()
    return 1 if r < 0.4 else 2 if r < 0.74 else 3 if r < 0.97 else 4


def gen_hist_case(rng, tier, elem=False):
    dim = _dims_for(rng, tier)
    cap = {1: 12, 2: 12, 3: 6, 4: 4}[dim]
    # one axis longer than any internal constant could be (the search of a histogram is the search of get_bin_on_value,
    # which bin1d cases do not reach; adversary candidate C06/3)
    long_k = rng.randrange(dim) if (dim <= 3 and rng.random() < 0.05) else None
    # everything an integer (contents and weights), some of them far beyond 2**53
    big = rng.random() < (0.12 if not elem else 0.1)
    axes, fams = [], []
    for k in range(dim):
        fam = rng.choice(FAMILIES)
        n = rng.randint(2, cap)
        if dim == 3 and rng.random() < 0.1:
            n = rng.randint(2, 12)
        if long_k is not None:
            if k == long_k:
                fam = rng.choice(LONG_FAMILIES)
                n = rng.randint(13, 40) if rng.random() < 0.35 else rng.randint(41, 400)
            else:
                n = rng.randint(2, 3)
        axes.append(gen_axis(rng, n, fam))
        fams.append(fam)
    if dim == 3 and long_k is None:
        # keep the number of cells moderate
        while (len(axes[0]) - 1) * (len(axes[1]) - 1) * (len(axes[2]) - 1) > 400:
            k = max(range(3), key=lambda i: len(axes[i]))
            axes[k] = axes[k][:len(axes[k]) - 2] if len(axes[k]) > 3 else axes[k][:2]
    flat = dim == 1 and rng.random() < 0.7
    edges = axes[0] if flat else axes
    case = {"op": "elem" if elem else "hist", "edges": edges, "fam": "+".join(fams),
            "axes_as": [_pick_kind(rng, a) for a in axes], "edges_as": "tuple" if rng.random() < 0.15 else "list",
            "full": dim <= 2 and long_k is None and rng.random() < 0.15}
    if big:
        case["big"] = True
    if long_k is not None:
        case["long"] = long_k
    # initial content
    r = rng.random()
    shape = [len(a) - 1 for a in axes]
    case["init"] = 0
    case["bins"] = None
    if r < 0.12:
        case["init"] = rng.choice([7, -3, 2.5, 0.0]) if not big else rng.choice([7, -3, 2 ** 53, 10 ** 20 + 1])
    elif r < 0.24:
        case["bins"] = _rand_bins(rng, shape, big)
    # malformed configurations (correspondence only)
    bad = None
    r = rng.random()
    if r < 0.03:
        bad = "edges"
        k = rng.randrange(dim)
        a = list(axes[k])
        kind = rng.random()
        if kind < 0.3 and len(a) >= 2:
            j = rng.randrange(len(a) - 1)
            a[j + 1] = a[j]
        elif kind < 0.6 and len(a) >= 2:
            j = rng.randrange(len(a) - 1)
            a[j], a[j + 1] = a[j + 1], a[j]
        elif kind < 0.8:
            a = a[:1]
        else:
            a = []
        if flat:
            edges = a
        else:
            edges = [list(x) for x in axes]
            edges[k] = a
            if rng.random() < 0.1:
                edges = []
        case["edges"] = edges
        case["axes_as"] = None
    elif r < 0.06:
        bad = "bins"
        kind = rng.random()
        if kind < 0.3:
            case["bins"] = _rand_bins(rng, [shape[0] + rng.choice([-1, 1])] + shape[1:], big) if shape[0] > 0 else [0]
        elif kind < 0.5:
            case["bins"] = _rand_bins(rng, shape + [2], big)          # too deep
        elif kind < 0.7 and dim > 1:
            case["bins"] = _rand_bins(rng, shape[:-1], big)             # too shallow
        elif kind < 0.85 and dim > 1:
            s2 = list(shape)
            s2[-1] = max(0, s2[-1] - 1)
            case["bins"] = _rand_bins(rng, s2, big)                     # inner axis too short
        elif kind < 0.93:
            case["bins"] = _rand_bins(rng, [0] if (dim == 1 and not flat) else shape, big)
        else:
            case["bins"] = 5                                       # a bare number: len(bins) is a TypeError
    case["bad"] = bad
    # fills
    pools = [coord_pool(rng, a, extra=3) for a in axes]
    if tier == "quick":
        nf = rng.randint(25, 60) if dim > 1 else rng.randint(30, 70)
    else:
        # many lighter cases: the thorough stream is also sampled by escalated quick runs and must stay memory-lean
        nf = rng.randint(8, 28) if dim > 1 else rng.randint(10, 36)
    fills = []
    odd_forms = rng.random() < (0.1 if elem else 0.25)     # cases that also try coordinates of the wrong form
    for _ in range(nf):
        r = rng.random() if odd_forms else 1.0
        xs = []
        for k in range(dim):
            if rng.random() < 0.45 and len(axes[k]) > 1:
                j = rng.randrange(len(axes[k]) - 1)
                lo, hi = axes[k][j], axes[k][j + 1]
                q = rng.random()
                if q < 0.35:
                    x = lo
                elif q < 0.5:
                    nb = [y for y in _nbrs(lo) + _nbrs(hi) if lo <= y < hi]
                    x = rng.choice(nb) if nb else lo
                else:
                    try:
                        x = lo + (hi - lo) * rng.random()
                        if not (lo <= x < hi):
                            x = lo
                    except OverflowError:
                        x = lo
            else:
                x = rng.choice(pools[k])
            xs.append(x)
        form = "ok"
        if flat:
            coord = {"s": xs[0]}
            if r < 0.02:
                coord, form = {"t": [xs[0]]}, "tuple-for-flat"
        else:
            coord = {"t": xs, "tuple": rng.random() < 0.5}
            if r < 0.015:
                coord, form = {"s": xs[0]}, "scalar-for-nested"
            elif r < 0.03:
                coord, form = {"t": xs + [xs[0]] if rng.random() < 0.5 else xs[:-1], "tuple": False}, "wrong-length"
        f = {"c": coord, "form": form}
        if elem:
            f["ctx"] = rng.randint(0, 9) if rng.random() < 0.5 else None
        else:
            f["w"] = rng.choice(BIG_WEIGHTS if big else WEIGHTS)
            f["dflt"] = f["w"] == 1 and rng.random() < 0.5     # call fill(coord) without the weight argument
        fills.append(f)
    case["fills"] = fills
    # how the caller keeps his coordinate objects (see _Coords): for points that are sequences, about half of the
    # histories re-use / overwrite mutable coordinate objects
    if not flat and rng.random() < 0.5:
        case["reuse"] = rng.choice(REUSE[1:])
    return case


def _rand_bins(rng, shape, big=False):
    if not shape:
        return rng.choice(BIG_CONTENTS if big else [0, 0, 1, 2, 5, -1, 0.5])
    return [_rand_bins(rng, shape[1:], big) for _ in range(shape[0])]


def gen_elem2_case(rng, tier):
    """one Histogram element object with bins / make_bins / initial_value, re-used across reset()s"""
    case = gen_hist_case(rng, tier, elem=True)
    case["op"] = "elem2"
    axes = _valid_axes(case["edges"])
    case["mk"] = None
    big = bool(case.get("big"))
    if axes is not None and case.get("bad") is None:
        shape = [len(a) - 1 for a in axes]
        r = rng.random()
        case["bins"], case["init"] = None, 0
        if r < 0.25:
            case["init"] = rng.choice([0, 0, 7, -3, 2.5]) if not big else rng.choice([0, 7, -3, 2 ** 53, 10 ** 20 + 1])
        elif r < 0.5:
            case["bins"] = _rand_bins(rng, shape, big)
        elif r < 0.8:
            case["mk"] = _rand_bins(rng, shape, big)
            if rng.random() < 0.3:
                case["init"] = 5               # ignored when make_bins is given
        elif r < 0.86:
            case["bins"], case["mk"] = _rand_bins(rng, shape, big), _rand_bins(rng, shape, big)     # LenaTypeError
        elif r < 0.93:
            case["mk"] = _rand_bins(rng, [shape[0] + 1] + shape[1:], big)                 # make_bins of a wrong shape
        else:
            case["bins"] = (_rand_bins(rng, shape[:-1] + [shape[-1] + 1], big) if len(shape) > 1
                            else _rand_bins(rng, shape + [2], big))
    # resets and computes: before some fills, and after the last one.  f["pre"] / case["post"] are strings of
    # 'r' (reset()) and 'c' (list(compute())) in the order of the calls
    fills = case["fills"]
    k = rng.choice([0, 1, 1, 2, 2, 3])
    nc = rng.choice([0, 0, 1, 1, 2, 3])
    for ch in rng.sample(["r"] * k + ["c"] * nc, k + nc):
        if fills:
            f = fills[rng.randrange(len(fills))]
            f["pre"] = f.get("pre", "") + ch
    case["post"] = rng.choice(["", "", "", "r", "rr", "c", "c", "cc", "cr", "rc"])
    return case


def _pre(f):
    """the calls made before a fill of an element history: 'r' = reset(), 'c' = list(compute())
    (cases written before the adversary round only have the number of resets, f['rb'])"""
    return f["pre"] if "pre" in f else "r" * f.get("rb", 0)


def _post(case):
    return case["post"] if "post" in case else "r" * case.get("ra", 0)


def gen_initbins_case(rng, tier):
    r = rng.random()
    if r < 0.8:
        dim = rng.choice([1, 1, 2, 3])
        axes = [gen_axis(rng, rng.randint(2, 6), rng.choice(FAMILIES)) for _ in range(dim)]
        edges = axes[0] if dim == 1 and rng.random() < 0.6 else axes
        kinds = [_pick_kind(rng, a) for a in axes]
    else:
        kinds = None
        edges = rng.choice([[], [5], [[]], [[1, 2], []], [[], [1, 2, 3]], [[1]], [[1, 2, 3], [4]], [3, 1], [[2, 1], [0, 0, 0]]])
    return {"op": "initbins", "edges": edges, "init": rng.choice([0, 0, 1, -2, 2.5, 0.0]), "deep": rng.random() < 0.5,
            "axes_as": kinds, "edges_as": "tuple" if kinds and rng.random() < 0.2 else "list"}


def gen_cases(ctx):
    """a lazy stream; the kinds are interleaved so that every prefix is a fair sample"""
    rng = ctx.rng
    tier = ctx.tier
    n = 1500 if tier == "quick" else 50000
    ctx.exhaustive = False
    for _ in range(n):
        r = rng.random()
        if r < 0.19:
            yield gen_bin1d_case(rng, tier)
        elif r < 0.80:
            yield gen_hist_case(rng, tier)
        elif r < 0.87:
            yield gen_hist_case(rng, tier, elem=True)
        elif r < 0.98:
            yield gen_elem2_case(rng, tier)
        else:
            yield gen_initbins_case(rng, tier)


# ----------------------------------------------------------------------------------------
# the real code

def _flatten(b, pre=()):
    """(index, content) of every cell of nested lists (own walk, not lena's iter_bins)"""
    if isinstance(b, list):
        out = []
        for i, x in enumerate(b):
            out.extend(_flatten(x, pre + (i,)))
        return out
    return [(pre, b)]


def _sc_nested(b):
    if isinstance(b, list):
        return [_sc_nested(x) for x in b]
    return _scaled(b)


def _coord(c):
    if "s" in c:
        return c["s"]
    return tuple(c["t"]) if c.get("tuple") else list(c["t"])


class _Point(list):
    """a caller's own coordinate type: a list subclass (get_bin_on_value takes lists and tuples as points), equal by value"""
    __slots__ = ()


REUSE = (None, "buf", "sub", "after", "tmix")


class _Coords(object):
    """How the caller hands the coordinates of one history to fill().  The property speaks of the coordinate filled -
    its value at the time of the call; whether the caller builds a new object per fill or keeps one mutable object and
    changes it in place between the fills (point[0] = x; point[1] = y; hist.fill(point, w)), and what he does with the
    object after the call, is his business.  case["reuse"]:
      None    a new list / tuple per fill (as before);
      "buf"   ONE list for the whole history, overwritten element by element before each fill;
      "sub"   the same with a list subclass;
      "after" a new list per fill, and the list of the previous fill is overwritten (with the coming coordinate) after
              it was filled;
      "tmix"  the buffer as in "buf", but every fill whose case says tuple gets a new tuple (buffer and tuples alternate)
    Numbers (flat one-dimensional edges) are immutable: nothing to re-use."""

    def __init__(self, case):
        self.mode = case.get("reuse")
        self.buf = None
        self.prev = None

    def _into(self, obj, xs):
        if len(obj) == len(xs):
            for k, x in enumerate(xs):
                obj[k] = x
        else:
            obj[:] = xs
        return obj

    def get(self, c):
        if "s" in c or self.mode is None:
            return _coord(c)
        xs = c["t"]
        if self.mode == "after":
            if self.prev is not None:
                self._into(self.prev, xs)
            self.prev = list(xs)
            return self.prev
        if self.mode == "tmix" and c.get("tuple"):
            return tuple(xs)
        if self.buf is None:
            self.buf = _Point(xs) if self.mode == "sub" else list(xs)
            return self.buf
        return self._into(self.buf, xs)


def _plain(e):
    """the numbers of an edges object as nested lists (the statement speaks of values: containers are not compared)"""
    if isinstance(e, (list, tuple, range)):
        return [_plain(x) for x in e]
    return e


def _el_yield(el):
    """the public observation of a Histogram element: what list(el.compute()) yields, taken down at once (the histogram
    object may be filled further afterwards).  {"n_yield": ..} if it is not exactly one (histogram, context) pair"""
    ys = list(el.compute())
    if len(ys) != 1:
        return {"n_yield": len(ys)}
    y = ys[0]
    if not (isinstance(y, tuple) and len(y) == 2):
        return {"n_yield": "not-a-pair"}
    h, cx = y
    return {"bins": _sc_nested(h.bins), "oor": _scaled(h.n_out_of_range),
            "ctx": cx.get("k") if isinstance(cx, dict) else "not-a-dict", "edges": _plain(h.edges)}


def run_impl(case):
    import lena.structures as ls
    from lena.structures import hist_functions as hf
    op = case["op"]
    if op == "bin1d":
        out = []
        arr = _as_kind(case["arr"], (case.get("axes_as") or ["list"])[0])
        for v in case["vals"]:
            try:
                out.append(hf.get_bin_on_value_1d(v, arr))
            except Exception as e:
                out.append({"e": exc_name(e)})
        return {"r": out}
    edges = build_edges(case)
    edges0 = build_edges(case)           # an equal, separate object: "the edges are unchanged" is judged against it
    bins = copy.deepcopy(case.get("bins"))
    if op == "hist":
        try:
            if bins is None and case["init"] == 0 and isinstance(case["init"], int):
                h = ls.histogram(edges)
            else:
                h = ls.histogram(edges, bins, case["init"]) if bins is None else ls.histogram(edges, bins)
        except Exception as e:
            return {"e": exc_name(e), "phase": "init"}
        res = {"bins0": _sc_nested(h.bins), "oor0": _scaled(h.n_out_of_range), "steps": [], "dim": h.dim}
        cs = _Coords(case)
        for f in case["fills"]:
            c = cs.get(f["c"])
            try:
                idx = hf.get_bin_on_value(c, h.edges)
                idx = list(idx)
            except Exception as e:
                idx = {"e": exc_name(e)}
            before = _flatten(h.bins)
            try:
                if f.get("dflt"):
                    h.fill(c)
                else:
                    h.fill(c, f["w"])
                err = None
            except Exception as e:
                err = exc_name(e)
            after = _flatten(h.bins)
            step = {"idx": idx}
            if len(before) != len(after) or any(a[0] != b[0] for a, b in zip(before, after)):
                step["shape_changed"] = True
                chg = [[list(i), _scaled(v)] for i, v in after]
            else:
                chg = [[list(i), _scaled(v)] for (i, v), (_, u) in zip(after, before)
                       if not _same(v, u) and _scaled(v) != _scaled(u)]
            if err is not None:
                step["e"] = err
                if chg:
                    step["chg"] = chg
            else:
                step["chg"] = chg
            step["oor"] = _scaled(h.n_out_of_range)
            res["steps"].append(step)
        res["bins"] = _sc_nested(h.bins)
        res["oor"] = _scaled(h.n_out_of_range)
        res["edges_same"] = _plain(h.edges) == _plain(edges0)
        return res
    if op == "elem":
        try:
            if bins is None and case["init"] == 0 and isinstance(case["init"], int):
                el = ls.Histogram(edges)
            elif bins is None:
                el = ls.Histogram(edges, initial_value=case["init"])
            else:
                el = ls.Histogram(edges, bins)
        except Exception as e:
            return {"e": exc_name(e), "phase": "init"}
        cs = _Coords(case)
        try:
            for f in case["fills"]:
                c = cs.get(f["c"])
                if f.get("ctx") is not None:
                    el.fill((c, {"k": f["ctx"]}))
                else:
                    el.fill(c)
        except Exception as e:
            return {"e": exc_name(e), "phase": "fill"}
        # the element's histogram is observed the public way: by compute() (what else compute() does - contexts,
        # independence of the yielded objects - belongs to C04/C09)
        try:
            y = _el_yield(el)
        except Exception as e:
            return {"e": exc_name(e), "phase": "compute"}
        if "n_yield" in y:
            return y
        return {"bins": y["bins"], "oor": y["oor"], "ctx": y["ctx"], "edges_same": y["edges"] == _plain(edges0)}
    if op == "initbins":
        try:
            b = hf.init_bins(build_edges(case), case["init"], deepcopy=case["deep"])
            res = {"bins": _sc_nested(b)}
        except Exception as e:
            res = {"e": exc_name(e)}
        try:
            hf.check_edges_increasing(build_edges(case))
            res["chk"] = "ok"
        except Exception as e:
            res["chk"] = exc_name(e)
        return res
    if op == "elem2":
        mk = copy.deepcopy(case["mk"])

        def kwargs():
            kw = {}
            if case["bins"] is not None:
                kw["bins"] = copy.deepcopy(case["bins"])
            if mk is not None:
                kw["make_bins"] = lambda: copy.deepcopy(mk)
            if not (case["init"] == 0 and isinstance(case["init"], int)):
                kw["initial_value"] = case["init"]
            return kw
        try:
            el = ls.Histogram(edges, **kwargs())
        except Exception as e:
            return {"e": exc_name(e), "phase": "init"}
        ys = []

        def call(ch):
            if ch == "r":
                el.reset()
            else:
                ys.append(_el_yield(el))
        cs = _Coords(case)
        try:
            for f in case["fills"]:
                for ch in _pre(f):
                    call(ch)
                c = cs.get(f["c"])
                if f.get("ctx") is not None:
                    el.fill((c, {"k": f["ctx"]}))
                else:
                    el.fill(c)
            for ch in _post(case):
                call(ch)
            # the final state, observed the public way
            y = _el_yield(el)
        except Exception as e:
            return {"e": exc_name(e), "phase": "run"}
        for z in ys + [y]:
            if "n_yield" in z:
                return z
        e0 = _plain(edges0)
        res = {"bins": y["bins"], "oor": y["oor"], "ctx": y["ctx"],
               "edges_same": all(z["edges"] == e0 for z in ys + [y]),
               "ys": [{"bins": z["bins"], "oor": z["oor"], "ctx": z["ctx"]} for z in ys]}
        # reset() of the used element against a newly constructed one
        try:
            el.reset()
            a = _el_yield(el)
            b = _el_yield(ls.Histogram(build_edges(case), **kwargs()))
            res["fresh"] = "n_yield" not in a and a["bins"] == b.get("bins") and a["oor"] == b.get("oor")
        except Exception as e:
            res["fresh"] = {"e": exc_name(e)}
        return res
    raise ValueError(op)


# ----------------------------------------------------------------------------------------
# the model side

def guess_path(val, arr):
    """The values of the interpolation guess (hist_functions.py:206-210) at the search states (ind_min, ind_max) that a
    search for val in arr visits; this is the parameter `guess` of the model, as a finite table [lo, hi, guess]."""
    lo, hi, out = 0, len(arr) - 1, []
    for _ in range(len(arr) + 2):
        if hi - lo <= 1 or not (arr[lo] < val < arr[hi]):
            break
        try:
            g = lo + int((hi - lo) * (float(val - arr[lo]) / (arr[hi] - arr[lo])))
        except (OverflowError, ZeroDivisionError, ValueError):
            break
        out.append([lo, hi, g])
        if g == lo:
            lo += 1
        elif g == hi:
            hi -= 1
        elif not (lo < g < hi):
            break
        elif val < arr[g]:
            hi = g
        else:
            lo = g
    return out


_TRACE_SETUP = []


def _trace_setup():
    """where the real get_bin_on_value_1d assigns its local `ind_guess` (None if the function no longer has the locals
    ind_min / ind_max / ind_guess: then only outcomes are compared)"""
    if not _TRACE_SETUP:
        setup = None
        try:
            from lena.structures import hist_functions as hf
            f = hf.get_bin_on_value_1d
            code = f.__code__
            lines, start = inspect.getsourcelines(f)
            assign = frozenset(start + i for i, l in enumerate(lines) if re.match(r"\s*ind_guess\s*=[^=]", l))
            if assign and {"ind_min", "ind_max", "ind_guess"} <= set(code.co_varnames):
                setup = (f, code, assign)
        except Exception:
            setup = None
        _TRACE_SETUP.append(setup)
    return _TRACE_SETUP[0]


def real_guess_path(val, arr):
    """The interpolation guesses of the REAL code: get_bin_on_value_1d(val, arr) is run under sys.settrace and the locals
    (ind_min, ind_max, ind_guess) are read right after every assignment of ind_guess.  Flat table [lo, hi, guess, ...];
    None when the real function cannot be observed this way."""
    setup = _trace_setup()
    if setup is None:
        return None
    f, code, assign = setup
    out, state = [], [None]

    def local(frame, event, arg):
        if event == "line":
            if state[0] in assign:
                loc = frame.f_locals
                out.append((loc.get("ind_min"), loc.get("ind_max"), loc.get("ind_guess")))
            state[0] = frame.f_lineno
        return local

    def glob(frame, event, arg):
        return local if frame.f_code is code else None
    old = sys.gettrace()
    sys.settrace(glob)
    try:
        f(val, arr)
    except Exception:
        pass
    finally:
        sys.settrace(old)
    if not all(type(x) is int for t in out for x in t):
        return None
    return [x for t in out for x in t]


def guess_table(val, arr, full=False):
    """the guess table handed to the model for one search: first the guesses observed in the real code, then the
    harness's evaluation of the source expression (used where the real search was not observed: states it did not
    visit, or a real function that cannot be traced).  Returns (table, traced?)"""
    real = real_guess_path(val, arr)
    if real is not None and len(arr) > 40 and not full:
        return real, True                    # long searches: hundreds of states, sent once
    own = guess_full(val, arr) if full else [y for r in guess_path(val, arr) for y in r]
    return (real or []) + own, real is not None


def guess_full(val, arr):
    """the interpolation guess at EVERY state at which `GuessOKAt` speaks: all pairs lo + 1 < hi with
    arr[lo] < val < arr[hi] (flat table lo, hi, guess, ...)"""
    out = []
    for hi in range(len(arr)):
        for lo in range(hi - 1):
            if arr[lo] < val < arr[hi]:
                try:
                    g = lo + int((hi - lo) * (float(val - arr[lo]) / (arr[hi] - arr[lo])))
                except (OverflowError, ZeroDivisionError, ValueError):
                    continue
                out += [lo, hi, g]
    return out


def _okat_py(val, arr):
    """GuessOKAt for the source expression, evaluated in Python"""
    tab = guess_full(val, arr)
    return all(tab[i] <= tab[i + 2] <= tab[i + 1] for i in range(0, len(tab), 3))


def _bits(x):
    return struct.unpack("<Q", struct.pack("<d", x))[0]


def _numbers(case):
    nums = []

    def add(x):
        if isinstance(x, list):
            for y in x:
                add(y)
        elif isinstance(x, (int, float)):
            nums.append(x)
    if case["op"] == "bin1d":
        add(case["arr"])
        add(case["vals"])
    else:
        add(case["edges"])
        for f in case.get("fills", []):
            add(f["c"].get("t", []))
            if "s" in f["c"]:
                add(f["c"]["s"])
    return nums


def _ranks(case):
    # Python compares ints and floats exactly (and 1 == 1.0 hash alike), so sorting the distinct numbers is an exact
    # order embedding into 0..n-1
    idx = {x: i for i, x in enumerate(sorted(set(_numbers(case))))}
    return idx.__getitem__


def _is_axes(edges):
    return isinstance(edges, list) and len(edges) > 0 and all(isinstance(a, list) for a in edges)


def _medges(edges, rk):
    if isinstance(edges, list) and all(isinstance(a, list) for a in edges) and (len(edges) > 0):
        return {"n": [[rk(x) for x in a] for a in edges]}
    if edges == []:
        # an empty list: `len(edges)` is 0 in both formats -> LenaValueError; sent as flat
        return {"f": []}
    return {"f": [rk(x) for x in edges]}


def _mbins(b):
    if b is None:
        return None
    return _sc_nested(b)


def _mfill(f, edges, rk, full=False):
    c = f["c"]
    tab = []
    if "s" in c:
        mc = {"s": rk(c["s"])}
        if not _is_axes(edges) and len(edges) > 0:
            tab = [y for i, y in enumerate(guess_table(c["s"], edges, full)[0])]
            tab = [z for i in range(0, len(tab), 3) for z in [0] + tab[i:i + 3]]
    else:
        mc = {"t": [rk(x) for x in c["t"]]}
        if _is_axes(edges) and len(edges) == len(c["t"]):
            for k, (x, a) in enumerate(zip(c["t"], edges)):
                if len(a) > 0:
                    t = guess_table(x, a, full)[0]
                    tab += [z for i in range(0, len(t), 3) for z in [k] + t[i:i + 3]]
    return mc, tab


def model_requests(case):
    rk = _ranks(case)
    op = case["op"]
    if op == "bin1d":
        src = case["arr"]
        arr = [rk(x) for x in src]
        all_f = all(type(x) is float for x in src)
        all_i = all(type(x) is int and abs(x) < 2 ** 62 for x in src)
        reqs = []
        for v in case["vals"]:
            tab, _ = guess_table(v, src, bool(case.get("full")))
            q = {"op": "bin1d", "arr": arr, "val": rk(v), "g": tab, "full": bool(case.get("full"))}
            if all_f and type(v) is float:
                q["arrf"] = [_bits(x) for x in src]
                q["valf"] = _bits(v)
            if all_i and type(v) is int and abs(v) < 2 ** 62:
                q["arri"] = src
                q["vali"] = v
            reqs.append(q)
        return reqs
    edges = case["edges"]
    if op == "initbins":
        return [{"op": "initbins", "edges": _medges(edges, rk), "init": _scaled(case["init"]), "deep": case["deep"]}]
    req = {"op": op, "edges": _medges(edges, rk), "bins": _mbins(case["bins"]), "init": _scaled(case["init"])}
    if op == "hist":
        req["full"] = bool(case.get("full"))
    axes = _valid_axes(edges)
    items = []
    for f in case["fills"]:
        mc, tab = _mfill(f, edges, rk, bool(case.get("full")) and op == "hist")
        it = {"c": mc, "g": tab}
        if op == "hist":
            it["w"] = _scaled(f["w"])
            xs = _proper(f, edges)
            it["pc"] = _cell_of(xs, axes) if (axes is not None and xs is not None) else None
        else:
            it["ctx"] = f.get("ctx")
        if op == "elem2":
            items.extend({"reset": True} if ch == "r" else {"compute": True} for ch in _pre(f))
        items.append(it)
    if op == "hist":
        req["fills"] = items
    elif op == "elem":
        req["vals"] = items
        req["one"] = SCALE
    else:
        items.extend({"reset": True} if ch == "r" else {"compute": True} for ch in _post(case))
        req["ops"] = items
        req["one"] = SCALE
        req["mk"] = _mbins(case["mk"])
    return [req]


def _proper(f, edges):
    """components of a coordinate of the right form for these edges (None otherwise)"""
    c = f["c"]
    if isinstance(edges, list) and edges and all(isinstance(a, list) for a in edges):
        return c["t"] if ("t" in c and len(c["t"]) == len(edges)) else None
    return [c["s"]] if "s" in c else None


def compare(case, res, replies):
    op = case["op"]
    for m in replies:
        if "err" in m:
            return f"model driver error: {m['err']}"
    if op == "bin1d":
        arr = case["arr"]
        mono = len(arr) >= 1 and _strict(arr)
        for v, r, m in zip(case["vals"], res["r"], replies):
            mm = m["r"] if "r" in m else {"e": m["e"]}
            where = f"get_bin_on_value_1d({v!r}, {arr!r})"
            if r != mm:
                return f"{where}: impl {r} vs model {mm}"
            # the executable predicates on the real float guesses
            if len(arr) >= 1 and m["vis"] is not True:
                return f"{where}: the float guess left [ind_min, ind_max] at a visited state (visitedInRange false)"
            path = [y for t in guess_path(v, arr) for y in t]
            if case.get("full"):
                tab = guess_full(v, arr)
                py_ok = all(tab[i] <= tab[i + 2] <= tab[i + 1] for i in range(0, len(tab), 3))
                # (since lena 4fbe73b a guess outside the range is legitimate: the predicate is compared, not demanded)
                if m["okat"] != py_ok and _trace_setup() is None:
                    return (f"{where}: GuessOKAt on the source expression's guesses: model {m['okat']}, Python {py_ok}")
            if m["cnt"] != sum(1 for e in arr if e <= v) or (m["inc"] is not None and m["inc"] != _strict(arr)):
                return f"{where}: countLE/StrictInc: model {m['cnt']}/{m['inc']}"
            if "fr" in m:
                py_f = _okat_py(v, arr)
                if m["fr"] != r or m["fvis"] is not True or (m["fokat"] is not None and m["fokat"] != py_f):
                    return (f"{where}: with Lean's Float evaluation of the guess: result {m['fr']}, visitedInRange "
                            f"{m['fvis']}, GuessOKAt {m['fokat']} (Python: {py_f}; impl {r})")
                # Lean's Float against CPython on the source expression, at every state of the table
                for i in range(0, len(m["fg"]), 3):
                    lo, hi, g = m["fg"][i:i + 3]
                    if arr[lo] < v < arr[hi]:
                        py = lo + int((hi - lo) * (float(v - arr[lo]) / (arr[hi] - arr[lo])))
                        if py != g:
                            return f"{where}: state ({lo},{hi}): Lean Float guess {g}, CPython {py}"
            if "ir" in m and mono and (m["ir"] != r or (m["rr"] is not None and m["rr"] != r)):
                return f"{where}: with interpGuess / roundedGuess id: {m['ir']} / {m['rr']} (impl {r})"
        return None
    if op == "initbins":
        m = replies[0]
        a = res.get("bins", {"e": res.get("e")})
        b = m.get("bins", {"e": m.get("e")})
        if res["chk"] != m["chk"]:
            return f"check_edges_increasing({case['edges']!r}): impl {res['chk']} vs model {m['chk']}"
        if a != b:
            return f"init_bins({case['edges']!r}, {case['init']!r}, deepcopy={case['deep']}): impl {a} vs model {b}"
        axes = _valid_axes(case["edges"])
        if "bins" in m:
            if m["valid"] != (axes is not None):
                return f"ValidEdges: model {m['valid']} for {case['edges']!r}"
            if axes is not None and m["full"] != res["bins"]:
                return f"NArr.full (dimsOf ..): {m['full']} vs init_bins {res['bins']}"
        return None
    m = replies[0]
    if op in ("elem", "elem2"):
        # user-supplied bins / make_bins() of a wrong inner shape: outside the property, not compared (see ASSUMPTIONS)
        axes_ = _valid_axes(case["edges"])
        for b_ in (case.get("bins"), case.get("mk")):
            if b_ is not None and axes_ is not None and not _well_shaped(b_, [len(a_) - 1 for a_ in axes_]) \
                    and not ("e" in res and res.get("phase") == "init") and not ("e" in m and m.get("phase") == "init"):
                return None
    if "e" in res or "e" in m:
        if res.get("e") != m.get("e") or res.get("phase") != m.get("phase"):
            return f"impl {_short(res)} vs model {_short(m)}"
        return None
    if "n_yield" in res:
        return f"compute yielded {res['n_yield']} values, model 1"
    if op == "hist":
        if len(res["steps"]) != len(m["steps"]):
            return "different numbers of steps"
        # user-supplied bins of a wrong inner shape: outside the property; how exactly a fill fails there (IndexError
        # counted as out of range, or raised) is not demanded - the comparison stops where the two sides part
        axes_ = _valid_axes(case["edges"])
        lenient = (case["bins"] is not None and
                   (axes_ is None or not _well_shaped(case["bins"], [len(a_) - 1 for a_ in axes_])))
        for i, (a, b) in enumerate(zip(res["steps"], m["steps"])):
            f = case["fills"][i]
            if a.get("shape_changed"):
                return f"fill #{i} {f}: impl changed the shape of bins"
            if lenient and (("e" in a) != ("e" in b) or a.get("e") != b.get("e") or a.get("oor") != b.get("oor")):
                return None
            if "e" in a or "e" in b:
                if a.get("e") != b.get("e"):
                    return f"fill #{i} {f}: impl {a} vs model {b}"
                if a.get("chg"):
                    return f"fill #{i} {f}: impl raised {a['e']} after changing cells {a['chg']}"
                if a["idx"] != b["idx"]:
                    return f"fill #{i} {f}: get_bin_on_value impl {a['idx']} vs model {b['idx']}"
                continue
            if a["idx"] != b["idx"] or a["chg"] != b["chg"] or a["oor"] != b["oor"]:
                return f"fill #{i} {f}: impl {a} vs model {b}"
            if len(a["chg"]) == 1 and b.get("get") != a["chg"][0][1]:
                return f"fill #{i} {f}: NArr.get? at the reported cell gives {b.get('get')}, the real cell holds {a['chg'][0][1]}"
        for k in ("bins", "oor"):
            if res[k] != m[k]:
                return f"final {k}: impl {res[k]} vs model {m[k]}"
        # the model's fillAll (the whole sequence; the first exception ends it)
        first_err = next((st["e"] for st in res["steps"] if "e" in st), None)
        want_all = {"e": first_err} if first_err is not None else {"bins": res["bins"], "oor": res["oor"]}
        if m["all"] != want_all:
            return f"fillAll: impl {_short(want_all)} vs model {_short(m['all'])}"
        return _compare_spec(case, res, m["spec"])
    if op == "elem":
        for k in ("bins", "oor", "ctx"):
            if res[k] != m[k]:
                return f"final {k}: impl {res[k]} vs model {m[k]}"
        tot = _total(res["bins"]) + (_num(res["oor"]) or 0)
        if m["lctx"] != res["ctx"] or m["sumw"] != len(case["fills"]) * SCALE or m["tot"] != tot:
            return (f"lastCtx / sumW(toOps) / total: model {m['lctx']} / {m['sumw']} / {m['tot']} vs context {res['ctx']}, "
                    f"{len(case['fills'])} values, sum over the real bins {tot}")
        return None
    if op == "elem2":
        for k in ("bins", "oor", "ctx", "fresh"):
            if res[k] != m[k]:
                return f"final {k}: impl {res[k]} vs model {m[k]}"
        tot = _total(res["bins"]) + (_num(res["oor"]) or 0)
        if m["tot"] != tot or m["ssum"] != tot:
            return f"total / specSum: model {m['tot']} / {m['ssum']}, sum over the real bins + n_out_of_range {tot}"
        # the history with its compute() calls (HistEl2.run3): everything yielded, the final state, specYields
        ys = res.get("ys", [])
        if m.get("ys") != ys:
            k = next((i for i, (a, b) in enumerate(zip(ys, m["ys"])) if a != b), min(len(ys), len(m["ys"]))) \
                if isinstance(m.get("ys"), list) else 0
            return (f"compute() #{k}: impl yielded {_short(ys[k]) if k < len(ys) else None} vs model "
                    f"{_short(m['ys'][k]) if isinstance(m.get('ys'), list) and k < len(m['ys']) else _short(m.get('ys'))}")
        for k, k3 in (("bins", "bins3"), ("oor", "oor3"), ("ctx", "ctx3")):
            if res[k] != m[k3]:
                return f"final {k} after the history with its compute() calls: impl {res[k]} vs model (run3) {m[k3]}"
        sy = [_total(y["bins"]) + (_num(y["oor"]) or 0) for y in ys]
        if m["syields"] != sy:
            return f"specYields: model {m['syields']}, sums over the yielded histograms {sy}"
        return None
    raise ValueError(op)


def _compare_spec(case, res, sp):
    """the specification-side definitions (Model/C06Spec.lean), executed by the driver, against the real code and
    independent Python references"""
    edges = case["edges"]
    axes = _valid_axes(edges)
    if sp["valid"] != (axes is not None):
        return f"ValidEdges: model {sp['valid']} for edges {edges!r}"
    if sp["dim"] != res["dim"]:
        return f"edgesDim: model {sp['dim']}, histogram.dim {res['dim']}"
    if axes is None:
        return None
    shape = [len(a) - 1 for a in axes]
    if sp["dims"] != shape:
        return f"dimsOf: model {sp['dims']} vs {shape}"
    wf = _well_shaped_sc(res["bins0"], shape)
    if sp["wf0"] != wf:
        return f"WF: model {sp['wf0']}, bins {res['bins0']} against shape {shape}: {wf}"
    if sp["total0"] != _total(res["bins0"]):
        return f"total of the initial bins: model {sp['total0']}"
    sumw = 0
    for i, (f, st, q) in enumerate(zip(case["fills"], res["steps"], sp["fills"])):
        xs = _proper(f, edges)
        if q["proper"] != (xs is not None):
            return f"fill #{i}: Proper: model {q['proper']} for {f['c']}"
        if xs is None:
            continue
        sumw += _scaled(f["w"])
        ind = [_count_index(x, a) for x, a in zip(xs, axes)]
        cell = _cell_of(xs, axes)
        if q["ind"] != ind or q["cell"] != cell or q["inr"] != (cell is not None):
            return f"fill #{i} {xs!r}: indices/cellOf?/InRange: model {q['ind']}/{q['cell']}/{q['inr']} vs {ind}/{cell}"
        if cell is not None and q["pc_incell"] is not True:
            return f"fill #{i} {xs!r}: InCell {cell}: model {q['pc_incell']}"
        if case.get("full") and _trace_setup() is None and q.get("gokat") != all(_okat_py(x, a) for x, a in zip(xs, axes)):
            return f"fill #{i} {xs!r}: GuessesOKAt on the source expression's guesses of all axes: model {q.get('gokat')}"
        if wf and "e" in st:
            return f"fill #{i} {xs!r}: a proper fill into a well-formed histogram raised {st['e']}"
    if sp["sumw"] != sumw:
        return f"sumW: model {sp['sumw']} vs {sumw}"
    if wf:
        if sp["sbins"] != res["bins"] or sp["soor"] != res["oor"]:
            return (f"specFillAll: {sp['sbins']} / {sp['soor']} vs the real histogram {res['bins']} / {res['oor']}")
        if sp["stotal"] != _total(res["bins"]):
            return f"total: model {sp['stotal']}"
    return None


def _well_shaped_sc(b, shape):
    if not shape:
        return isinstance(b, int)
    return isinstance(b, list) and len(b) == shape[0] and all(_well_shaped_sc(x, shape[1:]) for x in b)


def _short(o):
    s = json.dumps(o, sort_keys=True, default=str)
    return s if len(s) < 300 else s[:300] + "..."


# ----------------------------------------------------------------------------------------
# the property's own statement on the real code's result

def _count_index(x, axis):
    """the number of edges not greater than x, minus one"""
    return sum(1 for e in axis if e <= x) - 1


def _cell_of(xs, axes):
    """index of the one cell whose half-open intervals contain xs in every dimension, else None (direct scan of all
    intervals of every axis, independent of _count_index)"""
    idx = []
    for x, a in zip(xs, axes):
        hit = [i for i in range(len(a) - 1) if a[i] <= x < a[i + 1]]
        if len(hit) != 1:
            return None
        idx.append(hit[0])
    return idx


def _valid_axes(edges):
    """the axes if edges are 'strictly increasing finite edges' in one of the two formats, else None"""
    if not isinstance(edges, list) or not edges:
        return None
    if all(isinstance(a, list) for a in edges):
        axes = edges
    elif all(isinstance(a, (int, float)) for a in edges):
        axes = [edges]
    else:
        return None
    for a in axes:
        if len(a) < 2 or not _strict(a):
            return None
    return axes


def _well_shaped(b, shape):
    if not shape:
        return isinstance(b, (int, float)) and not isinstance(b, bool)
    return isinstance(b, list) and len(b) == shape[0] and all(_well_shaped(x, shape[1:]) for x in b)


def _get(b, idx):
    for i in idx:
        b = b[i]
    return b


def _total(b):
    return sum((Fraction(v) if not isinstance(v, str) else Fraction(v) for _, v in _flatten(b)), Fraction(0))


def _num(s):
    """scaled value back to an exact number (strings 'p/q' are exact fractions; other strings are not numbers)"""
    if isinstance(s, int):
        return Fraction(s)
    if isinstance(s, str) and "/" in s and ":" not in s:
        return Fraction(s)
    return None


_REUSE_TEXT = {
    "buf": "all points were handed over in ONE list, overwritten in place before each fill",
    "sub": "all points were handed over in ONE object of a list subclass, overwritten in place before each fill",
    "after": "each point was a new list; the list of the previous fill was overwritten with the next point after its fill",
    "tmix": "points were handed over alternately as new tuples and in ONE list overwritten in place",
}


def oracle(case, res):
    msg = _oracle(case, res)
    if msg and case.get("reuse") in _REUSE_TEXT:
        msg += f" [case['reuse']={case['reuse']!r}: {_REUSE_TEXT[case['reuse']]}]"
    return msg


def _oracle(case, res):
    op = case["op"]
    if op == "bin1d":
        arr = case["arr"]
        if len(arr) < 2 or not _strict(arr):
            return None
        for v, r in zip(case["vals"], res["r"]):
            want = _count_index(v, arr)
            if r != want:
                return (f"get_bin_on_value_1d({v!r}, {arr!r}) = {r}, but the number of edges not greater than the value, "
                        f"minus one, is {want}")
        return None
    if op == "initbins":
        return None            # correspondence only
    axes = _valid_axes(case["edges"])
    if axes is None:
        return None
    flat = axes is not case["edges"]
    shape = [len(a) - 1 for a in axes]
    if case["bins"] is not None and not _well_shaped(case["bins"], shape):
        return None
    if op == "elem2":
        if case["mk"] is not None and (case["bins"] is not None or not _well_shaped(case["mk"], shape)):
            return None
    if "e" in res and res.get("phase") == "init":
        # (before the fix 8d715e5 this reported notes/C06_defect_1: nested one-dimensional edges with their own bins)
        what = "" if case["bins"] is None else f" and bins {case['bins']!r} of the matching shape"
        return f"histogram with strictly increasing edges {case['edges']!r}{what} could not be created: {res}"
    if "n_yield" in res:
        return f"Histogram.compute yielded {res['n_yield']} values"
    # reference computation, in exact scaled numbers
    if case["bins"] is not None:
        ref = _sc_nested(case["bins"])
    elif case.get("mk") is not None:
        ref = _sc_nested(case["mk"])
    else:
        ref = _sc_nested(_full_bins(shape, case["init"]))
    ref_oor = 0
    total_w = Fraction(0)
    init_total = _total(ref)

    def proper(f):
        c = f["c"]
        if flat:
            return [c["s"]] if "s" in c else None
        return c["t"] if ("t" in c and len(c["t"]) == len(axes)) else None

    if op == "hist":
        if res["bins0"] != ref or res["oor0"] != 0:
            return (f"new histogram: bins {_unsc_nested(res['bins0'])}, n_out_of_range {_unsc(res['oor0'])}; expected "
                    f"{_unsc_nested(ref)}, 0")
        for i, (f, st) in enumerate(zip(case["fills"], res["steps"])):
            xs = proper(f)
            if xs is None:
                # not a coordinate of this histogram: the property says nothing (but nothing may change silently)
                if "e" in st and st.get("chg"):
                    return f"fill #{i} with {f['c']} raised {st['e']} but changed cells {st['chg']}"
                if "e" not in st:
                    # some other behaviour for a malformed coordinate: outside the statement; go on from the observed state
                    if st.get("shape_changed"):
                        return None
                    for idx_, new_ in st.get("chg", []):
                        if not isinstance(new_, int):
                            return None
                        _get(ref, idx_[:-1])[idx_[-1]] = new_
                    if not isinstance(st["oor"], int):
                        return None
                    ref_oor = st["oor"]
                    init_total = _total(ref) + ref_oor - total_w
                continue
            w = _scaled(f["w"])
            where = f"fill #{i}: coord {xs!r}, weight {f['w']!r}, edges {case['edges']!r}"
            if "e" in st:
                return f"{where}: raised {st['e']}"
            want_idx = [_count_index(x, a) for x, a in zip(xs, axes)]
            if st["idx"] != want_idx:
                return (f"{where}: get_bin_on_value reports {st['idx']}, but (number of edges not greater than the "
                        f"coordinate) - 1 is {want_idx}")
            cell = _cell_of(xs, axes)
            if st.get("shape_changed"):
                return f"{where}: the shape of bins changed"
            if cell is None:
                want_chg = []
                ref_oor = ref_oor + w
            else:
                old = _get(ref, cell)
                new = old + w
                _get(ref, cell[:-1])[cell[-1]] = new
                want_chg = [[cell, new]] if w != 0 else []
            if st["chg"] != want_chg or st["oor"] != ref_oor:
                tgt = f"cell {cell}" if cell is not None else "n_out_of_range (no cell contains the coordinate)"
                return (f"{where}: the weight must go to {tgt} and nothing else may change; cells changed: "
                        f"{[[c[0], _unsc(c[1])] for c in st['chg']]}, n_out_of_range {_unsc(st['oor'])} "
                        f"(expected changes {[[c[0], _unsc(c[1])] for c in want_chg]}, n_out_of_range {_unsc(ref_oor)})")
            total_w += w
        if not res.get("edges_same", True):
            return f"edges changed by filling: {case['edges']!r}"
        if res["bins"] != ref or res["oor"] != ref_oor:
            return (f"final bins {_unsc_nested(res['bins'])} / n_out_of_range {_unsc(res['oor'])} differ from the "
                    f"reference {_unsc_nested(ref)} / {_unsc(ref_oor)}")
        s = _total(res["bins"])
        o = _num(res["oor"])
        if o is None or s + o != init_total + total_w:
            return (f"sum of all bins ({s / SCALE}) + n_out_of_range ({res['oor']}/{SCALE}) differs from the initial content "
                    f"({init_total / SCALE}) plus the total filled weight ({total_w / SCALE})")
        return None
    if op == "elem2":
        if any(proper(f) is None for f in case["fills"]):
            return None
        if "e" in res:
            return (f"Histogram element over edges {case['edges']!r} (bins {case['bins']!r}, make_bins {case['mk']!r}) "
                    f"raised {res} in a history of proper fills and resets")
        content0 = copy.deepcopy(ref)
        n = 0
        hist = []
        start = (f"bins={case['bins']!r}" if case["bins"] is not None else
                 f"make_bins -> {case['mk']!r}" if case["mk"] is not None else f"initial_value={case['init']!r}")
        yields = iter(res.get("ys", []))

        def judge(got, what):
            """the histogram the element holds (as compute() shows it) against the initial content plus the values filled
            since the last reset()"""
            if got["bins"] != ref or got["oor"] != ref_oor:
                return (f"Histogram(edges={case['edges']!r}, {start}) after {', '.join(hist)}: {what} bins / n_out_of_range "
                        f"{_unsc_nested(got['bins'])} / {_unsc(got['oor'])}, but the initial content plus the values filled "
                        f"since the last reset is {_unsc_nested(ref)} / {_unsc(ref_oor)} "
                        f"(first difference at {_first_diff(got['bins'], ref)})")
            s_, o = _total(got["bins"]), _num(got["oor"])
            if o is None or s_ + o != _total(content0) + n * SCALE:
                return (f"element after {', '.join(hist)}: sum of bins + n_out_of_range = {(s_ + (o or 0)) / SCALE}, "
                        f"{n} values since the last reset")
            return None

        def calls(chs):
            nonlocal ref, ref_oor, n
            for ch in chs:
                if ch == "r":
                    ref, ref_oor, n = copy.deepcopy(content0), 0, 0
                    hist.append("reset()")
                else:
                    hist.append("compute()")
                    got = next(yields, None)
                    if got is None:
                        return f"after {', '.join(hist)}: nothing observed"
                    bad = judge(got, "compute() yields")
                    if bad:
                        return bad
            return None

        for f in case["fills"]:
            bad = calls(_pre(f))
            if bad:
                return bad
            xs = proper(f)
            hist.append(f"fill({xs!r})" if len(xs) > 1 else f"fill({xs[0]!r})")
            cell = _cell_of(xs, axes)
            if cell is None:
                ref_oor += SCALE
            else:
                _get(ref, cell[:-1])[cell[-1]] = _get(ref, cell) + SCALE
            n += 1
        bad = calls(_post(case)) or judge(res, "finally")
        if bad:
            return bad
        if not res.get("edges_same", True):
            return f"edges changed by filling: {case['edges']!r}"
        return None
    if op == "elem":
        if any(proper(f) is None for f in case["fills"]):
            return None
        if "e" in res:
            return f"Histogram element over edges {case['edges']!r} raised {res} while filling proper coordinates"
        n = 0
        for f in case["fills"]:
            xs = proper(f)
            cell = _cell_of(xs, axes)
            if cell is None:
                ref_oor += SCALE
            else:
                _get(ref, cell[:-1])[cell[-1]] = _get(ref, cell) + SCALE
            n += 1
        if res["bins"] != ref or res["oor"] != ref_oor:
            bad = _first_diff(res["bins"], ref)
            vals = [f["c"].get("s", f["c"].get("t")) for f in case["fills"]]
            return (f"Histogram element, edges {case['edges']!r}, values {vals!r} (unit weight): bins / n_out_of_range "
                    f"{_unsc_nested(res['bins'])} / {_unsc(res['oor'])} differ from the cells that contain the values: "
                    f"{_unsc_nested(ref)} / {_unsc(ref_oor)} (first difference at {bad})")
        s, o = _total(res["bins"]), _num(res["oor"])
        if o is None or s + o != init_total + n * SCALE:
            return f"element: sum of bins + n_out_of_range = {(s + (o or 0)) / SCALE}, filled {n} values"
        # (the yielded context is observed for the correspondence only: contexts are the subject of C04/C09)
        if not res.get("edges_same", True):
            return f"edges changed by filling: {case['edges']!r}"
        return None
    raise ValueError(op)


def _unsc(s):
    n = _num(s)
    if n is None:
        return s
    n = n / SCALE
    return int(n) if n.denominator == 1 else float(n)


def _unsc_nested(b):
    return [_unsc_nested(x) for x in b] if isinstance(b, list) else _unsc(b)


def _first_diff(a, b, pre=()):
    if isinstance(a, list) and isinstance(b, list) and len(a) == len(b):
        for i, (x, y) in enumerate(zip(a, b)):
            d = _first_diff(x, y, pre + (i,))
            if d is not None:
                return d
        return None
    return None if a == b else list(pre)


def _full_bins(shape, v):
    if not shape:
        return v
    return [_full_bins(shape[1:], v) for _ in range(shape[0])]


# ----------------------------------------------------------------------------------------

def nontrivial(case, res):
    if case["op"] == "bin1d":
        return any(guess_path(v, case["arr"]) for v in case["vals"])
    if case["op"] == "initbins":
        return True
    if "e" in res:
        return True
    axes = _valid_axes(case["edges"])
    if axes is None:
        return False
    in_cell = False
    guessed = False
    for f in case["fills"]:
        c = f["c"]
        xs = [c["s"]] if "s" in c else c["t"]
        if len(xs) != len(axes):
            continue
        if _cell_of(xs, axes) is not None:
            in_cell = True
        if any(guess_path(x, a) for x, a in zip(xs, axes)):
            guessed = True
    return in_cell and guessed


def _search_labels(val, arr, labs):
    """which exits / guess branches of the search a value takes (from the harness's own walk of the loop)"""
    path = guess_path(val, arr)
    for lo, hi, g in path:
        labs.add("search:guess==ind_min" if g == lo else "search:guess==ind_max" if g == hi else
                 "search:guess-inside:left" if val < arr[g] else "search:guess-inside:right")
    n = len(path)
    labs.add("search:iterations:" + ("0" if n == 0 else "1-3" if n <= 3 else "4-9" if n <= 9 else "10-63" if n <= 63 else "64+"))
    if isinstance(val, float) and math.isinf(val):
        labs.add("value:+-inf")
    elif val in arr:
        labs.add("value:on-edge")
    elif val < arr[0] or val >= arr[-1]:
        labs.add("value:outside")
    else:
        labs.add("value:inside")


def classify(case, res):
    """at most ~60 distinct labels in total (the evidence keeps the 60 most frequent)"""
    op = case["op"]
    labs = {f"op:{op}"}
    for k in (case.get("axes_as") or []):
        labs.add(f"axes-as:{k}")
    if op == "bin1d":
        arr = case["arr"]
        if case["fam"] == "nonmono":
            labs.add("bin1d:non-monotone-array")
        labs.add("edges:" + ("1" if len(arr) == 1 else "2-12" if len(arr) <= 12 else "13-40" if len(arr) <= 40 else "70-400"))
        labs.add("guesses:" + ("observed-in-real-code" if _trace_setup() is not None else "source-expression-only"))
        if case.get("full"):
            labs.add("GuessOKAt-on-all-states")
        if all(type(x) is float for x in arr):
            labs.add("Lean-Float-guess")
        if all(type(x) is int for x in arr):
            labs.add("interpGuess")
        if len(arr) >= 2:
            for v in case["vals"]:
                _search_labels(v, arr, labs)
        return sorted(labs)
    if op == "initbins":
        if "e" in res:
            labs.add("error:init_bins:" + res["e"])
        return sorted(labs)
    axes = _valid_axes(case["edges"])
    if op == "elem2":
        labs.add("init:" + ("bins+make_bins" if case["bins"] is not None and case["mk"] is not None else
                            "bins" if case["bins"] is not None else "make_bins" if case["mk"] is not None else
                            "initial_value" if case["init"] != 0 else "default"))
        calls = "".join(_pre(f) for f in case["fills"]) + _post(case)
        labs.add(f"resets:{min(calls.count('r'), 3)}")
        labs.add(f"computes:{min(calls.count('c'), 3)}")
    else:
        labs.add("init:" + ("bins" if case["bins"] is not None else "initial_value" if case["init"] != 0 else "default"))
    if case.get("big"):
        labs.add("integers-beyond-2**53")
    if case.get("long") is not None:
        labs.add("hist-axis:13-400-edges")
    if "e" in res:
        labs.add(f"error:{res.get('phase')}:{res['e']}")
    if case.get("bad"):
        labs.add(f"malformed:{case['bad']}")
    if axes is None:
        labs.add("invalid-edges")
        return sorted(labs)
    labs.add(f"dim:{len(axes)}:{'flat' if axes is not case['edges'] else 'nested'}")
    if case.get("full"):
        labs.add("GuessesOKAt-on-all-states")
    for f in case["fills"]:
        c = f["c"]
        xs = [c["s"]] if "s" in c else c["t"]
        if f.get("form", "ok") != "ok":
            labs.add(f"coord-form:{f['form']}")
            continue
        if len(xs) != len(axes):
            continue
        labs.add("fill:" + ("in-cell" if _cell_of(xs, axes) is not None else "out-of-range"))
        for x, a in zip(xs, axes):
            _search_labels(x, a, labs)
    if op == "hist":
        for st in res.get("steps", []):
            if "e" in st:
                labs.add(f"error:fill:{st['e']}")
    return sorted(labs)


def signature(case, failure):
    return case["op"] + ":" + hashlib.sha1(json.dumps(case, sort_keys=True).encode()).hexdigest()[:16]


def _sublists(xs):
    """smaller candidate lists: halves first, single removals only for short lists"""
    if len(xs) > 1:
        yield xs[:len(xs) // 2]
        yield xs[len(xs) // 2:]
        if len(xs) > 4:
            q = len(xs) // 4
            yield xs[q:]
            yield xs[:len(xs) - q]
        if len(xs) <= 10:
            for i in range(len(xs)):
                yield xs[:i] + xs[i + 1:]


def shrink(case):
    op = case["op"]
    if op == "bin1d":
        for vs in _sublists(case["vals"]):
            yield dict(case, vals=vs)
        return
    if op == "initbins":
        return
    fs = case["fills"]
    for sub in _sublists(fs):
        yield dict(case, fills=sub)
    if op == "elem2":
        post = _post(case)
        for i in range(len(post)):
            yield dict(case, post=post[:i] + post[i + 1:])
        if len(fs) <= 6:
            for i, f in enumerate(fs):
                pre = _pre(f)
                for j in range(len(pre)):
                    yield dict(case, fills=fs[:i] + [dict(f, pre=pre[:j] + pre[j + 1:])] + fs[i + 1:])
    if case.get("bins") is not None and _valid_axes(case["edges"]) is not None:
        yield dict(case, bins=None, init=0)
    if op == "hist" and len(fs) <= 3:
        for i, f in enumerate(fs):
            if f.get("w") != 1:
                yield dict(case, fills=fs[:i] + [dict(f, w=1)] + fs[i + 1:])


# ---- MANIFEST texts ------------------------------------------------------------------------
LEVEL_TEXT = ("Lean 4 theorems about a transcribed model of get_bin_on_value_1d / get_bin_on_value / histogram.__init__/fill / "
              "check_edges_increasing / init_bins / Histogram.__init__/fill/reset/compute: for all strictly increasing edge arrays in "
              "any number of dimensions, all coordinates of a linear order, all weights of a commutative monoid, any number of "
              "fills and resets, and EVERY value of the interpolation guess (no hypothesis on floating-point arithmetic, "
              "code after lena 4fbe73b): index = #edges <= value - 1, the weight goes to exactly the cell containing the "
              "coordinate or to n_out_of_range, nothing else changes, sum of bins + n_out_of_range = total weight for the "
              "structure and the element.  The model is tied to /repo by a sampled correspondence check (1-4 dimensions, "
              "2..12 edges per axis and single axes up to 400, searches up to 400 edges, list/tuple/range containers, float "
              "neighbours of every edge, +-inf, magnitudes 1e-300..1e300, dense big integers, integer weights and contents "
              "beyond 2**53, element histories of fill / reset / compute) plus a direct oracle on the real code (count of "
              "edges <= value, exactly-one-cell delta, exact conservation, every histogram compute() yields).  NaN "
              "coordinates, non-dyadic float weight sums and aliasing between objects are outside.")
LEVEL_NOTE = ("Trusted: Lean kernel (+ propext, Classical.choice, Quot.sound), the hand transcription validated by the sampled "
              "correspondence run (not exhaustive), exact instead of floating-point weight sums, the JSON protocol.  The float "
              "interpolation guess is no longer trusted for correctness (every-guess theorems); its values are observed "
              "in the real code for the correspondence where the search visited them.")
TECHNIQUE = "Lean 4 proof over hand-written model + sampled correspondence check with exact arithmetic"
DESIGN_REF = "DESIGN.md section 3, C06"
