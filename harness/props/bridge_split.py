"""Bridge check: the independent Lean transcriptions of Split.run agree with each other AND with the real code.

`lean/LenaModel/Bridge/Split.lean` proves, for all inputs, that the transcriptions of `Split.run` / `_fill` made for
C03 (event trace), C04 (tokens/heap), C05 (FillComputeSeq chains with exceptions), C16 (FillRequest schedule) and C02
(lazy generator) agree under explicit translation maps.  This module is the executable side: on every generated case
the driver `drivers/BridgeSplit.lean` evaluates ALL transcriptions concerned, each on the input translated by the
bridge's own maps (`toSplit`, `frBranch`, `embedSplit`/`canon`), and `compare` demands that they equal each other
(instances of the bridge theorems) and the result of the real lena code.

Three families of cases (every case carries "bridge": 1; anything else — the corpus of C03 — is passed through):
  fc   Split([tuple(chain)...], bufsize, copy_buf).run(flow), chains pre* acc post* of C05's vocabulary on bare
       integers: C05.splitRunTagged  vs  C03.Split.runTrace on `toSplit`  vs  real; and per branch FillComputeSeq
       filled alone: C05.fillRun vs C03.fillBuf+compute vs real                      (c05_split_agrees/_prefix, c05_fillRun_agrees)
  fr   Split([FillRequest(Rec(tag), ...)...], bufsize=m).run(flow): per branch C16.splitFR  vs  C03.outputsOf on
       `frBranch`  vs  real                                                          (c16_splitFR_agrees)
  mix  Split of Source / fill-compute / fill-request / Sequence elements (C03's harness vocabulary): C03.Split.runTrace
       vs  C04.Split.runTrace on the embedded branches with the tokens erased  vs  real    (c03_is_token_free_c04)

  fill for v in flow: obj.fill(v) until LenaStopFill, then obj.compute()/request(), obj = Split(brs, copy_buf) (common
       type) or Zip(brs): C03.splitFillAll/zipFill + splitCompute/splitRequest/zipCompute  vs  C04.fillFlow + collect on the
       embedded branches, erased  vs  real          (c04_fillFlow_erases, c04_zipFill_erases, c04_compute_erases, c04_request_erases)

PID is "C03" (the property whose check is meant to carry these theorems); EVIDENCE_NAME keeps C03's evidence file.
"""
from __future__ import annotations

import itertools

from harness.common import exc_name

PID = "C03"
EVIDENCE_NAME = "bridge_split"
TITLE = "Bridge: the independent transcriptions of Split.run / _fill / Zip._fill (C02, C03, C04, C05, C16) agree"
LEAN_MODULES = ["LenaModel.Bridge.Split"]
LEAN_SOURCES = ["LenaModel/Bridge/Split.lean"]
DRIVER = "drivers/BridgeSplit.lean"
THEOREMS = [
    # 0. blocks of a flow
    "Lena.Bridge.Split.chunks_eq_blocks",
    "Lena.Bridge.Split.c16_splitBlocks_eq_blocks",
    # 1. C05 <-> C03
    "Lena.Bridge.Split.c05_split_agrees",
    "Lena.Bridge.Split.c05_splitRun_agrees",
    "Lena.Bridge.Split.c05_project_agrees",
    "Lena.Bridge.Split.c05_fillRun_agrees",
    "Lena.Bridge.Split.c05_split_prefix",
    "Lena.Bridge.Split.c05_split_agreesX",
    "Lena.Bridge.Split.c05_splitFill_agrees",
    "Lena.Bridge.Split.c05_splitFillAll_agrees",
    "Lena.Bridge.Split.c05_splitFillRun_agrees",
    "Lena.Bridge.Split.c03_fc_branch_alone",
    "Lena.Bridge.Split.c05_split_is_schedule",
    "Lena.Bridge.Split.c03_fc_copyBuf_irrelevant",
    # 2. C16 <-> C03
    "Lena.Bridge.Split.c16_splitFR_agrees",
    "Lena.Bridge.Split.c16_single_branch_agrees",
    "Lena.Bridge.Split.c03_fr_branch_eq_run",
    "Lena.Bridge.Split.c16_splitFR_any_siblings",
    # 3. C04 <-> C03
    "Lena.Bridge.Split.c04_run_erases",
    "Lena.Bridge.Split.c04_outputs_erase",
    "Lena.Bridge.Split.c04_splitRun_erases",
    "Lena.Bridge.Split.c04_splitFill_erases",
    "Lena.Bridge.Split.c04_zipFill_erases",
    "Lena.Bridge.Split.c04_fillFlow_erases",
    "Lena.Bridge.Split.c04_compute_erases",
    "Lena.Bridge.Split.c04_request_erases",
    "Lena.Bridge.Split.embed_oblivious",
    "Lena.Bridge.Split.c03_is_token_free_c04",
    "Lena.Bridge.Split.tagger_sound",
    "Lena.Bridge.Split.c04_branch_events",
    "Lena.Bridge.Split.c04_no_assert_fail",
    "Lena.Bridge.Split.c04_copyBuf_values_irrelevant",
    # 4. C02 <-> C03
    "Lena.Bridge.Split.c02_splitG_agrees",
    "Lena.Bridge.Split.c02_splitG_fillRequest",
]
TRUSTED = [
    "Lean 4.33.0 kernel; axioms limited to propext, Classical.choice, Quot.sound (audited by #print axioms on every run)",
    "the translation maps of LenaModel/Bridge/Split.lean (toSplit/activeOps, frOps/frBranch, Erasure/canon/embed): they are "
    "definitions, evaluated by the driver on every case, so a wrong map shows as a disagreement with the real code",
    "JSON line protocol encoders (harness/props/bridge_split.py, drivers/BridgeSplit.lean)",
]
ASSUMPTIONS = [
    "the bridge theorems relate models; the tie of each model to the code is its own correspondence check plus the "
    "three-way comparison of this module on the generated cases",
    "C04 <-> C03 is proved for branches whose skeleton-level behaviour does not depend on heap contents (Erasure.Sound); "
    "the executable comparison runs C04's loops on the embedded C03 harness branches (which satisfy it: embed_oblivious)",
    "C05 <-> C03 equality is for runs without exception; with an exception the C05 output is a prefix (c05_split_prefix)",
]
RULE = ("quick: 2500 seeded cases per family (fill: 1-3 fill-compute (or fill-request) elements in a common-type Split "
        "(both copy_buf) or a Zip, flows 0..5, with and without LenaStopFill; fc: 1-3 chains of 0-2 pre-processing elements, an accumulator, 0-2 "
        "post-processing callables, flows 0..8 of small integers incl. 13 (boom), bufsize in {1..4, 1000, None}, both "
        "copy_buf; fr: 1-3 FillRequest adapters with bufsize 1..4 x reset x buffer_input/buffer_output x "
        "yield_on_remainder, Split bufsize in {1..5, None}, flows 0..9; mix: 0-4 branches over Source / fill-compute "
        "(with and without LenaStopFill, early or late) / fill-request / six Sequence elements / Sum, flows 0..6, "
        "bufsize in {1..4, 1000, None}); thorough: 40000 per family with larger flows. Non-trivial: something is yielded "
        "or an exception is raised.")
CASE_TIMEOUT = 10

# ----------------------------------------------------------------------------------------
# values


def enc(v):
    if type(v) is int or type(v) is str:
        return v
    if type(v) in (list, tuple):
        return [enc(x) for x in v]
    if type(v) is float:
        return {"f": repr(v)}
    return {"obj": type(v).__name__}


def model_value(j):
    if isinstance(j, list):
        return [model_value(x) for x in j]
    if isinstance(j, dict):
        if "q" in j:
            n, d = j["q"]
            return {"f": repr(float(n) / float(d))}
        if "t" in j:
            return [model_value(x) for x in j["t"]]
    return j


def observe(thunk):
    out = []
    try:
        for v in thunk():
            out.append(enc(v))
    except Exception as e:
        return {"r": out, "t": exc_name(e)}
    return {"r": out, "t": None}


# ----------------------------------------------------------------------------------------
# family fc: real elements

def _need_int(v):
    if type(v) is not int:
        raise TypeError("int expected")


def _inc(v):
    _need_int(v)
    return v + 1


def _neg(v):
    _need_int(v)
    return -v


def _mod3(v):
    _need_int(v)
    return v % 3


def _boom(v):
    _need_int(v)
    if v == 13:
        raise ValueError("boom")
    return v


FNS = {"inc": _inc, "neg": _neg, "mod3": _mod3, "boom": _boom, "ident": lambda v: v, "wrap": lambda v: [v]}


def _pred(p):
    def f(v):
        if p == "all":
            return True
        if p == "none":
            return False
        _need_int(v)
        return {"even": v % 2 == 0, "pos": v > 0, "lt5": v < 5}[p]
    return f


def build_fc(spec):
    import lena.flow
    import lena.math
    k = spec["k"]
    if k == "call":
        return FNS[spec["f"]]
    if k == "filter":
        return lena.flow.Filter(_pred(spec["p"]))
    if k == "slice":
        return lena.flow.Slice(*spec["args"])
    if k == "acc":
        a = spec["a"]
        if a == "sum":
            return lena.math.Sum()
        if a == "mean":
            return lena.math.Mean()
        if a == "store":
            return lena.flow.StoreFilled(spec["group"])
    raise ValueError(spec)


def run_fc(case):
    import lena.core
    flow = case["flow"]
    try:
        sp = lena.core.Split([tuple(build_fc(s) for s in b) for b in case["branches"]],
                             bufsize=case["bufsize"], copy_buf=case["copy_buf"])
    except Exception as e:
        return {"e": exc_name(e)}
    res = {"split": observe(lambda: sp.run(iter(list(flow)))), "fill": [], "alone": []}

    def fill_split():
        sp2 = lena.core.Split([tuple(build_fc(s) for s in b) for b in case["branches"]], copy_buf=case["copy_buf"])
        for v in flow:
            try:
                sp2.fill(v)
            except lena.core.LenaStopFill:
                break
        return sp2.compute()
    res["sfill"] = observe(fill_split)
    for b in case["branches"]:
        def fill_alone(b=b):
            seq = lena.core.FillComputeSeq(*[build_fc(s) for s in b])
            for v in flow:
                try:
                    seq.fill(v)
                except lena.core.LenaStopFill:
                    break
            return seq.compute()
        res["fill"].append(observe(fill_alone))
        res["alone"].append(observe(lambda b=b: lena.core.Split([tuple(build_fc(s) for s in b)],
                                                                 bufsize=case["bufsize"]).run(iter(list(flow)))))
    return res


# ----------------------------------------------------------------------------------------
# family fr: real elements

class Rec(object):
    """fill appends; request yields [tag] + values; reset forgets (`recEl` of the driver, `C16.lstEl` with a tag)"""

    def __init__(self, tag):
        self.tag, self.v = tag, []

    def fill(self, x):
        self.v.append(x)

    def request(self):
        yield [self.tag] + list(self.v)

    def reset(self):
        self.v = []


def make_fr(b):
    import lena.core
    return lena.core.FillRequest(Rec(b["tag"]), bufsize=b["N"], reset=b["rst"], buffer_input=b["bi"],
                                 buffer_output=not b["bi"], yield_on_remainder=b["yor"])


def run_fr(case):
    import lena.core
    xs = case["xs"]
    try:
        sp = lena.core.Split([make_fr(b) for b in case["brs"]], bufsize=case["m"], copy_buf=case["copy_buf"])
        out = [enc(v) for v in sp.run(iter(list(xs)))]
    except Exception as e:
        return {"e": exc_name(e)}
    alone, runs = [], []
    for b in case["brs"]:
        try:
            alone.append([enc(v) for v in lena.core.Split([make_fr(b)], bufsize=case["m"]).run(iter(list(xs)))])
        except Exception as e:
            alone.append({"e": exc_name(e)})
        try:
            runs.append([enc(v) for v in make_fr(b).run(iter(list(xs)))])
        except Exception as e:
            runs.append({"e": exc_name(e)})
    return {"out": out, "alone": alone, "runs": runs}


# ----------------------------------------------------------------------------------------
# family mix: real elements with the semantics of `Lena.C03.BSpec.ops`

class SrcEl(object):
    def __init__(self, tag, k):
        self.tag, self.k, self.calls = tag, k, 0

    def __call__(self):
        c = self.calls
        self.calls += 1
        return iter([(self.tag, "src", c, j) for j in range(self.k)])


class _Filler(object):
    def __init__(self, tag, stop, late):
        self.tag, self.stop, self.late = tag, stop, late
        self.v, self.n, self.calls = [], 0, 0

    def fill(self, x):
        import lena.core
        if self.stop is not None and self.n >= self.stop:
            if self.late:
                self.v.append(x)
            raise lena.core.LenaStopFill()
        self.n += 1
        self.v.append(x)


class FC(_Filler):
    def __init__(self, tag, stop, late, items):
        _Filler.__init__(self, tag, stop, late)
        self.items = items

    def compute(self):
        c = self.calls
        self.calls += 1
        yield (self.tag, "compute", c, tuple(self.v))
        if self.items:
            for x in list(self.v):
                yield (self.tag, "item", x)


class FR(_Filler):
    def request(self):
        c = self.calls
        self.calls += 1
        res = [(self.tag, "request", c, tuple(self.v))]
        self.v = []
        return iter(res)


class SQ(object):
    def __init__(self, tag, variant):
        self.tag, self.variant, self.calls, self.n = tag, variant, 0, 0

    def run(self, flow):
        buf = list(flow)
        t, v = self.tag, self.variant
        if v == "map":
            res = [(t, "run", x) for x in buf]
        elif v == "mapEnd":
            res = [(t, "run", x) for x in buf] + [(t, "end", self.calls)]
            self.calls += 1
        elif v == "even":
            res = [(t, "even", x) for x in buf if x % 2 == 0]
        elif v == "sumBlock":
            res = [(t, "sum", self.calls, sum(buf))]
            self.calls += 1
        elif v == "dup":
            res = [y for x in buf for y in ((t, "dup", x), (t, "dup", x))]
        elif v == "running":
            res = []
            for x in buf:
                res.append((t, "idx", self.n, x))
                self.n += 1
        else:
            raise ValueError(v)
        return iter(res)


def build_mix(sp, tag):
    import lena.core
    import lena.math
    k = sp["k"]
    if k == "src":
        return lena.core.Source(SrcEl(tag, sp["n"]))
    if k == "fc":
        return FC(tag, sp["stop"], sp["late"], sp["items"])
    if k == "fr":
        return FR(tag, sp["stop"], sp["late"])
    if k == "sq":
        return SQ(tag, sp["v"])
    if k == "sum":
        return lena.math.Sum()
    raise ValueError(sp)


def run_mix(case):
    import lena.core
    flow = case["flow"]
    try:
        sp = lena.core.Split([build_mix(b, i) for i, b in enumerate(case["brs"])], bufsize=case["bufsize"],
                             copy_buf=case["copy_buf"])
        out = [enc(v) for v in sp.run(iter(list(flow)))]
    except Exception as e:
        return {"e": exc_name(e)}
    alone = []
    for i, b in enumerate(case["brs"]):
        try:
            alone.append([enc(v) for v in lena.core.Split([build_mix(b, i)], bufsize=case["bufsize"]).run(iter(list(flow)))])
        except Exception as e:
            alone.append({"e": exc_name(e)})
    return {"out": out, "alone": alone}


def _mk_fill_obj(case):
    import lena.core
    import lena.flow
    els = [build_mix(b, i) for i, b in enumerate(case["brs"])]
    if case["mode"] == "zip":
        return lena.flow.Zip(els)
    return lena.core.Split(els, copy_buf=case["copy_buf"])


def _fill_and_yield(obj, kind, flow):
    import lena.core
    stopped = False
    for v in flow:
        try:
            obj.fill(v)
        except lena.core.LenaStopFill:
            stopped = True
            break
    gen = obj.compute() if kind == "fc" else obj.request()
    return {"stopped": stopped, "out": [enc(v) for v in gen]}


def run_fill(case):
    flow, kind = case["flow"], case["kind"]
    try:
        res = _fill_and_yield(_mk_fill_obj(case), kind, flow)
    except Exception as e:
        return {"e": exc_name(e)}
    alone = []
    for i, b in enumerate(case["brs"]):
        try:
            alone.append(_fill_and_yield(build_mix(b, i), kind, flow))
        except Exception as e:
            alone.append({"e": exc_name(e)})
    res["alone"] = alone
    return res


# ----------------------------------------------------------------------------------------

def _mine(case):
    return isinstance(case, dict) and case.get("bridge") == 1


def run_impl(case):
    if not _mine(case):
        return {"foreign": True}
    op = case["op"]
    if op == "fc":
        return run_fc(case)
    if op == "fr":
        return run_fr(case)
    if op == "mix":
        return run_mix(case)
    if op == "fill":
        return run_fill(case)
    raise ValueError(op)


def model_requests(case):
    if not _mine(case):
        return []
    return [{k: v for k, v in case.items() if k != "bridge"}]


def cs_nonempty(case):
    return len(case["branches"]) > 0


def _is_prefix(a, b):
    return len(a) <= len(b) and b[:len(a)] == a


def compare(case, res, replies):
    if not _mine(case):
        return None
    m = replies[0]
    if "err" in m:
        return f"model driver error: {m['err']}"
    op = case["op"]
    if op == "fc":
        if "e" in m or "e" in res:
            return None if m.get("e") == res.get("e") else f"construction: impl {res} vs model {m}"
        c05 = {"r": [model_value(p[1]) for p in m["c05"]["r"]], "t": m["c05"]["t"]}
        if c05 != res["split"]:
            return f"C05.splitRunTagged {c05} vs impl {res['split']}"
        t5 = [[p[0], model_value(p[1])] for p in m["c05"]["r"]]
        t3 = [[p[0], model_value(p[1])] for p in m["c03"]]
        if m["c05"]["t"] is None:
            if t3 != t5:
                return f"c05_split_agrees instance fails: C03 {t3} vs C05 {t5}"
            if [p[1] for p in t3] != res["split"]["r"]:
                return f"C03 on toSplit {t3} vs impl {res['split']}"
        elif not _is_prefix(t5, t3):
            return f"c05_split_prefix instance fails: C05 {t5} is not a prefix of C03 {t3}"
        if m["c03x"] != m["c05"]:
            return f"c05_split_agreesX instance fails: C03X {m['c03x']} vs C05 {m['c05']}"
        if cs_nonempty(case):
            sf = {"r": model_value(m["sfill"]["c05"]["r"]), "t": m["sfill"]["c05"]["t"]}
            if sf != res["sfill"]:
                return f"C05.splitFillRun {sf} vs Split driven by fill/compute {res['sfill']}"
            if sf["t"] is None and model_value(m["sfill"]["c03"]) != res["sfill"]["r"]:
                return f"c05_splitFillRun_agrees instance fails: C03 {m['sfill']['c03']} vs impl {res['sfill']}"
        for i, (f, r) in enumerate(zip(m["fill"], res["fill"])):
            f5 = {"r": model_value(f["c05"]["r"]), "t": f["c05"]["t"]}
            if f5 != r:
                return f"branch {i}: C05.fillRun {f5} vs FillComputeSeq alone {r}"
            if f["c05"]["t"] is None and model_value(f["c03"]) != r["r"]:
                return f"branch {i}: c05_fillRun_agrees instance fails: C03 {f['c03']} vs impl {r}"
        return None
    if op == "fr":
        if "e" in res:
            return f"impl raised {res['e']}"
        if m["c03"] != res["out"]:
            return f"C03.Split.run on frBranch {m['c03']} vs impl {res['out']}"
        for i, b in enumerate(case["brs"]):
            if m["by_branch"][i] != m["c16"][i]:
                return f"c16_splitFR_agrees instance fails for branch {i}: C03 {m['by_branch'][i]} vs C16 {m['c16'][i]}"
            mine = [v for v in res["out"] if v[0] == b["tag"]]
            if mine != m["c16"][i]:
                return f"branch {i}: C16.splitFR {m['c16'][i]} vs impl {mine}"
        return None
    if op == "mix":
        if "e" in res:
            return f"impl raised {res['e']}"
        if m["c03"]["trace"] != m["c04"]["trace"]:
            return "c03_is_token_free_c04 instance fails: erased C04 trace differs from the C03 trace"
        if m["c03"]["out"] != res["out"]:
            return f"C03.Split.run {m['c03']['out']} vs impl {res['out']}"
        if m["c04"]["out"] != res["out"]:
            return f"C04.Split.runTrace (embedded, erased) {m['c04']['out']} vs impl {res['out']}"
        return None
    if op == "fill":
        if "e" in res:
            return f"impl raised {res['e']}"
        if m["c03"] != m["c04"]:
            return f"c04_fillFlow/zipFill/compute_erases instance fails: C03 {m['c03']} vs erased C04 {m['c04']}"
        mine = {"stopped": res["stopped"], "out": res["out"]}
        if m["c03"] != mine:
            return f"C03 {m['c03']} vs impl {mine}"
        return None
    raise ValueError(op)


# ----------------------------------------------------------------------------------------
# oracle: statements of the transferred theorems, evaluated on the real code only (no Lean involved)

def _tag_of(v):
    return v[0] if isinstance(v, list) and v and isinstance(v[0], int) else None


def oracle(case, res):
    if not _mine(case) or "e" in res:
        return None
    op = case["op"]
    if op == "fc":
        # C05.fill_eq_split on the real code: Split([chain]) alone = FillComputeSeq alone (values and exception)
        for i, (a, f) in enumerate(zip(res["alone"], res["fill"])):
            if a != f:
                return f"branch {i}: Split([chain]).run {a} differs from the FillComputeSeq filled alone {f}"
        if res["split"]["t"] is None and all(f["t"] is None for f in res["fill"]):
            if sorted(map(repr, res["split"]["r"])) != sorted(repr(v) for f in res["fill"] for v in f["r"]):
                return "the Split does not yield exactly what its branches yield alone"
        return None
    if op == "fr":
        # c16_splitFR_any_siblings / c03_fr_branch_eq_run on the real code
        for i, b in enumerate(case["brs"]):
            mine = [v for v in res["out"] if v[0] == b["tag"]]
            if mine != res["alone"][i]:
                return f"branch {i}: inside the Split {mine}, alone in a Split {res['alone'][i]}"
            if not b["yor"] and mine != res["runs"][i]:
                return f"branch {i}: inside the Split {mine}, FillRequest.run {res['runs'][i]}"
        return None
    if op == "mix":
        # C03.projection on the real code: what a branch contributes depends on the branch and the blocks only
        sums = [i for i, b in enumerate(case["brs"]) if b["k"] == "sum"]
        for i, b in enumerate(case["brs"]):
            if b["k"] == "sum":
                if len(sums) != 1:
                    continue
                mine = [v for v in res["out"] if isinstance(v, int)]
            else:
                mine = [v for v in res["out"] if _tag_of(v) == i]
            if mine != res["alone"][i]:
                return f"branch {i}: inside the Split {mine}, alone {res['alone'][i]}"
        return None
    if op == "fill":
        # C03.common_type_fill_compute / common_type_fill_request / zip_ith on the real code: without LenaStopFill the
        # common-type object yields what its elements, filled alone with the same flow, yield (in turn / zipped)
        if res["stopped"] or any("e" in a or a["stopped"] for a in res["alone"]):
            return None
        outs = [a["out"] for a in res["alone"]]
        if case["mode"] == "zip":
            want = [list(t) for t in zip(*outs)]
        else:
            want = [v for o in outs for v in o]
        if res["out"] != want:
            return f"{case['mode']}: yields {res['out']}, its elements filled alone yield {outs}"
        return None
    return None


def nontrivial(case, res):
    if not _mine(case):
        return False
    if "e" in res:
        return True
    if case["op"] == "fc":
        return bool(res["split"]["r"]) or res["split"]["t"] is not None
    return bool(res.get("out")) or bool(res.get("stopped"))


def classify(case, res):
    if not _mine(case):
        return "foreign(corpus of C03)"
    op = case["op"]
    labels = [op]
    if op == "fc":
        labels.append(f"fc:branches={len(case['branches'])}")
        if "e" not in res:
            labels.append("fc:exception" if res["split"]["t"] else "fc:no-exception")
            if any(s["k"] == "slice" for b in case["branches"] for s in b):
                labels.append("fc:with-slice(LenaStopFill)")
    elif op == "fr":
        labels.append(f"fr:branches={len(case['brs'])}")
        labels.append("fr:yor" if any(b["yor"] for b in case["brs"]) else "fr:no-yor")
    elif op == "fill":
        labels.append(f"fill:{case['mode']}:{case['kind']}")
        if "e" not in res:
            labels.append("fill:stopped" if res["stopped"] else "fill:not-stopped")
        return labels
    else:
        labels.append(f"mix:branches={len(case['brs'])}")
        for b in case["brs"]:
            labels.append("mix:" + b["k"])
    labels.append(f"{op}:bufsize={'None' if case.get('bufsize', case.get('m')) is None else 'n'}")
    return labels


def signature(case, failure):
    return f"{case.get('op')}:{failure[:60]}"


# ----------------------------------------------------------------------------------------
# generators

PRE = ([{"k": "call", "f": f} for f in ("inc", "neg", "mod3", "boom")]
       + [{"k": "filter", "p": p} for p in ("even", "pos", "lt5", "none")]
       + [{"k": "slice", "args": a} for a in ([None, 2, None], [1, 4, None], [0, 5, 2], [None, 0, None], [2, None, None],
                                              [None, 1, None], [1, None, 3])])
ACC = [{"k": "acc", "a": "sum"}, {"k": "acc", "a": "sum"}, {"k": "acc", "a": "mean"},
       {"k": "acc", "a": "store", "group": False}, {"k": "acc", "a": "store", "group": True}]
POST = [{"k": "call", "f": f} for f in ("inc", "neg", "wrap", "ident", "boom")]
BUFS = [1, 2, 3, 4, 1000, None]
INTS = [0, 1, 2, 3, 4, 5, 6, 7, -1, -2, 13, 10]


def gen_fc(rng, big):
    nb = rng.choice([1, 1, 2, 2, 3])
    branches = []
    for _ in range(nb):
        pre = [rng.choice(PRE) for _ in range(rng.choice([0, 0, 1, 1, 2]))]
        post = [rng.choice(POST) for _ in range(rng.choice([0, 0, 0, 1, 2]))]
        branches.append(pre + [rng.choice(ACC)] + post)
    n = rng.randrange(0, 20 if big else 9)
    pool = [v for v in INTS if v != 13] * 3 + [13]
    return {"bridge": 1, "op": "fc", "branches": branches, "bufsize": rng.choice(BUFS), "copy_buf": rng.random() < 0.7,
            "flow": [rng.choice(pool) for _ in range(n)]}


def gen_fr(rng, big):
    nb = rng.choice([1, 1, 2, 3])
    brs = []
    for i in range(nb):
        brs.append({"tag": 100 * (i + 1), "N": rng.choice([1, 2, 2, 3, 3, 4] + ([7] if big else [])),
                    "rst": rng.random() < 0.6, "bi": rng.random() < 0.5, "yor": rng.random() < 0.3})
    n = rng.randrange(0, 25 if big else 10)
    return {"bridge": 1, "op": "fr", "brs": brs, "m": rng.choice([1, 2, 3, 4, 5, None] + ([9] if big else [])),
            "copy_buf": rng.random() < 0.7, "xs": list(range(n))}


def gen_mix_branch(rng):
    k = rng.choice(["src", "fc", "fc", "fr", "fr", "sq", "sq", "sum"])
    if k == "src":
        return {"k": "src", "n": rng.randrange(0, 3)}
    if k == "fc":
        return {"k": "fc", "stop": rng.choice([None, None, 0, 1, 2, 3]), "late": rng.random() < 0.5,
                "items": rng.random() < 0.5}
    if k == "fr":
        return {"k": "fr", "stop": rng.choice([None, None, 0, 1, 2, 3]), "late": rng.random() < 0.5}
    if k == "sq":
        return {"k": "sq", "v": rng.choice(["map", "mapEnd", "even", "sumBlock", "dup", "running"])}
    return {"k": "sum"}


def gen_mix(rng, big):
    nb = rng.choice([0, 1, 2, 2, 3, 3, 4])
    n = rng.randrange(0, 14 if big else 7)
    return {"bridge": 1, "op": "mix", "brs": [gen_mix_branch(rng) for _ in range(nb)], "bufsize": rng.choice(BUFS),
            "copy_buf": rng.random() < 0.7, "flow": [rng.randrange(0, 10) for _ in range(n)]}


def gen_fill(rng, big):
    kind = rng.choice(["fc", "fr"])
    nb = rng.choice([1, 2, 2, 3])
    brs = []
    for _ in range(nb):
        if kind == "fc":
            brs.append({"k": "sum"} if rng.random() < 0.25 else
                       {"k": "fc", "stop": rng.choice([None, None, None, 0, 1, 2, 3]), "late": rng.random() < 0.5,
                        "items": rng.random() < 0.5})
        else:
            brs.append({"k": "fr", "stop": rng.choice([None, None, None, 0, 1, 2, 3]), "late": rng.random() < 0.5})
    n = rng.randrange(0, 12 if big else 6)
    return {"bridge": 1, "op": "fill", "mode": rng.choice(["split", "zip"]), "kind": kind, "brs": brs,
            "copy_buf": rng.random() < 0.7, "flow": [rng.randrange(0, 10) for _ in range(n)]}


def fixed_cases():
    """the examples of Bridge/Split.lean and of the property files, as cases"""
    sl2 = {"k": "slice", "args": [None, 2, None]}
    sm = {"k": "acc", "a": "sum"}
    yield {"bridge": 1, "op": "fc", "branches": [[sl2, sm], [{"k": "call", "f": "inc"}, sm]], "bufsize": 2,
           "copy_buf": True, "flow": [1, 2, 3, 4, 5, 6, 7]}
    yield {"bridge": 1, "op": "fc", "branches": [[{"k": "call", "f": "boom"}, sm], [sm]], "bufsize": 2,
           "copy_buf": True, "flow": [1, 13, 3]}
    for m in (2, 7, None):
        for bi in (True, False):
            yield {"bridge": 1, "op": "fr", "brs": [{"tag": 100, "N": 3, "rst": True, "bi": bi, "yor": False}], "m": m,
                   "copy_buf": True, "xs": list(range(7))}
    yield {"bridge": 1, "op": "mix", "brs": [{"k": "src", "n": 2}, {"k": "fc", "stop": 2, "late": True, "items": True},
                                              {"k": "fr", "stop": None, "late": False}, {"k": "sq", "v": "running"},
                                              {"k": "sum"}], "bufsize": 2, "copy_buf": True, "flow": [1, 2, 3]}
    # every single mix branch on short flows, every bufsize
    singles = ([{"k": "src", "n": k} for k in (0, 2)]
               + [{"k": "fc", "stop": s, "late": l, "items": True} for s in (None, 0, 1, 2) for l in (False, True)]
               + [{"k": "fr", "stop": s, "late": l} for s in (None, 0, 1, 2) for l in (False, True)]
               + [{"k": "sq", "v": v} for v in ("map", "mapEnd", "even", "sumBlock", "dup", "running")] + [{"k": "sum"}])
    for b, n, bs in itertools.product(singles, (0, 1, 3), (1, 2, None)):
        yield {"bridge": 1, "op": "mix", "brs": [b], "bufsize": bs, "copy_buf": True, "flow": list(range(1, n + 1))}
    for a, b in itertools.product(singles, repeat=2):
        yield {"bridge": 1, "op": "mix", "brs": [a, b], "bufsize": 2, "copy_buf": True, "flow": [1, 2, 3]}


def gen_cases(ctx):
    rng = ctx.rng
    big = ctx.tier == "thorough"
    n = 40000 if big else 2500
    cases = list(fixed_cases())
    for _ in range(n):
        cases.append(gen_fc(rng, big))
        cases.append(gen_fr(rng, big))
        cases.append(gen_mix(rng, big))
        cases.append(gen_fill(rng, big))
    return cases


def shrink(case):
    if not _mine(case):
        return
    op = case["op"]
    key = {"fc": "branches", "fr": "brs", "mix": "brs", "fill": "brs"}[op]
    fl = {"fc": "flow", "fr": "xs", "mix": "flow", "fill": "flow"}[op]
    brs = case[key]
    if op != "fr":
        for i in range(len(brs)):
            if len(brs) > 1:
                yield dict(case, **{key: brs[:i] + brs[i + 1:]})
    flow = case[fl]
    for i in range(len(flow)):
        c = dict(case)
        c[fl] = flow[:i] + flow[i + 1:] if op != "fr" else list(range(len(flow) - 1))
        yield c
        if op == "fr":
            break
    if op == "fc":
        for i, b in enumerate(brs):
            for j, s in enumerate(b):
                if s["k"] != "acc":
                    yield dict(case, branches=brs[:i] + [b[:j] + b[j + 1:]] + brs[i + 1:])


LEVEL_TEXT = ("Lean 4 theorems relating the independent transcriptions of Split.run/_fill/Zip._fill of C02, C03, C04, C05 and "
              "C16 under explicit translation maps (all inputs), plus an executable three-way comparison (every "
              "transcription, translated, against the real code).")
LEVEL_NOTE = ("Trusted: Lean kernel (+ propext, Classical.choice, Quot.sound) and the per-property correspondence checks; "
              "the bridge removes 'the transcriptions could disagree with each other' from the trusted base.")
TECHNIQUE = "Lean 4 refinement/simulation proofs between hand-written models + differential execution against the real code"
DESIGN_REF = "DESIGN.md sections 2, 5, 9 (bridge: lean/LenaModel/Bridge/Split.lean)"
