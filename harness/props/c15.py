"""C15 — selectors evaluate compositionally; GroupBy partitions by the selected context.

Real code: lena.flow.Selector / And / Or / Not / SelectContext / Filter, lena.flow.GroupBy,
lena.context.make_include_exclude_tree / IncludeExcludeTree.get.
Model: lean/LenaModel/Model/C15.lean; specification vocabulary lean/LenaModel/Model/C15Spec.lean; helper lemmas
lean/LenaModel/Lemmas/C15.lean; theorems lean/LenaModel/Props/C15.lean.

Cases (JSON):
  {"op":"select","spec":SPEC,"roe":bool,"top":"selector"|"filter","values":[{"d":data,"c":ctx|null},..]}
  {"op":"groupby","group_by":S,"merge":S,"contexts":[ctx|null,..]}          S = "str" | ["str",..]
  {"op":"groupby","group_by":S,"merge":S,"ctxset":"ab2"}                    a named, fixed list of contexts
SPEC is the encoding documented in lean/drivers/C15.lean.
"""
import functools
import itertools
import json
import os

from harness.common import exc_name, jdump

PID = "C15"
TITLE = "Selectors evaluate compositionally; GroupBy partitions by the selected context"
LEAN_MODULES = ["LenaModel.Props.C15"]
LEAN_SOURCES = ["LenaModel/Model/C15.lean", "LenaModel/Model/C15Spec.lean", "LenaModel/Lemmas/C15.lean",
                "LenaModel/Props/C15.lean"]
DRIVER = "drivers/C15.lean"
THEOREMS = [
    # Part 1: selectors, SelectContext, Filter
    "Lena.C15.selector_compositional",
    "Lena.C15.sem_list_tuple",
    "Lena.C15.selector_init_error",
    "Lena.C15.selector_absorbs_errors",
    "Lena.C15.selector_total_leaves",
    "Lena.C15.semB_list_tuple_not",
    "Lena.C15.contains_spec",
    "Lena.C15.select_context_absent_false",
    "Lena.C15.select_context_present",
    "Lena.C15.filter_stops_at_first_error",
    "Lena.C15.filter_keeps_selected",
    # Part 2: include/exclude trees
    "Lena.C15.make_fuel_suffices",
    "Lena.C15.sel_eq_polarity",
    "Lena.C15.mem_prefixesDesc",
    "Lena.C15.polarity_spec",
    "Lena.C15.iet_get_is_longest_prefix",
    "Lena.C15.make_include_exclude_tree_get",
    "Lena.C15.keep_leaf_paths",
    "Lena.C15.same_key_iff_agree",
    # Part 3: GroupBy
    "Lena.C15.groupby_partition",
    "Lena.C15.groupby_groups_perm",
    "Lena.C15.groupby_default_one_group",
    "Lena.C15.groupby_share_iff_agree",
]
TRUSTED = [
    "Lean 4.33.0 kernel; axioms limited to propext, Classical.choice, Quot.sound (audited by #print axioms on every run)",
    "hand transcription of lena/flow/selectors.py, filter.py, group_by.py, lena/context/include_exclude_tree.py and of "
    "contains/get_recursively (lena/context/functions.py) into LenaModel/Model/C15.lean, validated by this correspondence check",
    "dictionaries as slot vectors over the key alphabet of the case (DESIGN.md section 2): iteration order of dict.items() and "
    "of the set of starting prefixes is abstracted (it only decides which of several LenaValueErrors is raised first)",
    "to_string (json.dumps, sort_keys) is injective on contexts built from None/bool/int/str and string-keyed dictionaries "
    "(the model uses the selected sub-context itself as the group key); validated by comparing groups and keys on every case",
    "JSON line protocol encoders (harness/props/c15.py, drivers/C15.lean)",
]
ASSUMPTIONS = [
    "leaves of a specification are predicates with outcome True / False / raise (callables returning non-booleans are outside "
    "the model: Selector returns what the callable returns)",
    "contexts are built from None, bool, int, str and string-keyed dictionaries; agreement of two contexts on a key path is "
    "type-strict (True and 1 differ, as they do for to_string)",
    "a key path listed in both group_by and merge has no well-defined longest-prefix entry and is excluded by hypothesis "
    "(theorem hypothesis Disjoint; such key sets are still compared with the model, but the partition oracle is silent)",
    "group_by and merge are strings or tuples of strings; SelectContext keys are strings or lists of strings",
]
RULE = ("select: exhaustive specifications of depth <= 2 over 4 leaves (string, class, total and raising callable) with lists/"
        "tuples of 1-2 items and Not with both raise_on_error values, all depth <= 1 specifications over 9 leaves, x both "
        "raise_on_error x 9 values, as Selector and as Filter; seeded random specifications of depth <= 3 (quick 2000, thorough "
        "120000) with Selector/And/Or/Not/SelectContext instances, bad items, random contexts. groupby: every assignment of the 6 "
        "paths of depth <= 2 over {a,b} to group_by/merge/neither x both roots (1458 key sets) x all 361 contexts of depth <= 2 "
        "over {a,b} with leaves {1,2} and {} (scalars where a listed path expects a dictionary included); seeded random key sets "
        "over {a,b,c} up to depth 3 with random contexts up to depth 3 (quick 800, thorough 60000), overlapping and improper key "
        "sets, string/tuple argument forms. Non-trivial: select - a value is selected and another is not, or an exception; "
        "groupby - at least two groups and a group with two values, or a construction error.")
CASE_TIMEOUT = 20
# SelectContext instances are generated inside Selector/Not/And/Or/lists/tuples too (possible since commit 0b5fd4d;
# before it the construction raised AttributeError '_selector_repr').  C15_SELCTX_NESTED=0 switches that off.
SELCTX_NESTED = os.environ.get("C15_SELCTX_NESTED", "1") != "0"

# ---------------------------------------------------------------------------------------------
# python side of the specification encoding


class _Raise:
    pass


def _fn_table():
    import lena.core

    def raise_lke(v):
        raise lena.core.LenaKeyError("leaf")

    def _data(v):
        if isinstance(v, tuple) and len(v) == 2 and isinstance(v[1], dict):
            return v[0]
        return v

    def _ctx(v):
        if isinstance(v, tuple) and len(v) == 2 and isinstance(v[1], dict):
            return v[1]
        return {}

    return {
        "true": lambda v: True,
        "false": lambda v: False,
        "raise_zde": lambda v: 1 // 0 > 0,
        "raise_lke": raise_lke,
        "pos": lambda v: _data(v) > 0,
        "inv": lambda v: 1 // _data(v) > 0,
        "has_ctx": lambda v: bool(_ctx(v)),
    }


def _pred_table():
    return {
        "true": lambda sc: True,
        "false": lambda sc: False,
        "raise_zde": lambda sc: 1 // 0 > 0,
        "isdict": lambda sc: isinstance(sc, dict),
        "pos": lambda sc: sc > 0,
        "eq1": lambda sc: sc == 1,
    }


_CLS = {"object": object, "int": int, "bool": bool, "str": str, "tuple": tuple, "float": float, "dict": dict}


def _build(spec):
    """JSON specification -> the Python value the user would write (may raise at construction)."""
    import lena.flow
    t = spec["t"]
    if t == "str":
        return spec["s"]
    if t == "cls":
        return _CLS[spec["c"]]
    if t == "fn":
        return _fn_table()[spec["f"]]
    if t == "list":
        return [_build(s) for s in spec["l"]]
    if t == "tuple":
        return tuple(_build(s) for s in spec["l"])
    if t == "not":
        return lena.flow.Not(_build(spec["s"]), raise_on_error=spec["roe"])
    if t == "sel":
        return lena.flow.Selector(_build(spec["s"]), raise_on_error=spec["roe"])
    if t == "and":
        return lena.flow.And(tuple(_build(s) for s in spec["l"]), raise_on_error=spec["roe"])
    if t == "or":
        return lena.flow.Or([_build(s) for s in spec["l"]], raise_on_error=spec["roe"])
    if t == "selctx":
        return lena.flow.SelectContext(spec["key"], _pred_table()[spec["pred"]], raise_on_error=spec["roe"])
    if t == "bad":
        return 5
    raise ValueError(t)


def _value(v):
    d = v["d"]
    if isinstance(d, dict):
        d = (1, 2)
    if v["c"] is None:
        return d
    return (d, json.loads(json.dumps(v["c"])))


def _unvalue(val):
    """inverse of _value, for comparing yielded values"""
    if isinstance(val, tuple) and len(val) == 2 and isinstance(val[1], dict):
        d, c = val
    else:
        d, c = val, None
    if isinstance(d, tuple):
        d = {"tuple": True}
    return {"d": d, "c": c}


def _out(f, *a):
    try:
        r = f(*a)
    except Exception as e:  # noqa: BLE001 - the exception class is the observation
        return {"e": exc_name(e)}
    if r is True or r is False:
        return r
    return {"nonbool": repr(r)}


# ---------------------------------------------------------------------------------------------
# named context sets

@functools.lru_cache(maxsize=None)
def _ctxset(name):
    """a named, fixed list of contexts (cached: never mutate the result, copy the contexts before use)"""
    if name == "ab2":
        sub = [dict((k, v) for k, v in zip("ab", vs) if v is not None)
               for vs in itertools.product([None, 1, 2, {}], repeat=2)]
        vals = [None, 1, 2] + sub
        return [dict((k, json.loads(json.dumps(v))) for k, v in zip("ab", vs) if v is not None)
                for vs in itertools.product(vals, repeat=2)]
    raise ValueError(name)


def _contexts(case):
    return case["contexts"] if "contexts" in case else _ctxset(case["ctxset"])


# ---------------------------------------------------------------------------------------------
# generators

_VALUES = [
    {"d": 3, "c": None},
    {"d": "s", "c": None},
    {"d": {"tuple": True}, "c": None},
    {"d": 0, "c": {"a": {"b": 1}}},
    {"d": True, "c": {"a": "b"}},
    {"d": 1, "c": {}},
    {"d": None, "c": {"a": 1, "b": {"a": {}}}},
    {"d": "x", "c": {"b": 5}},
    {"d": -2, "c": {"a": {"b": {"a": 0}}, "b": "a"}},
]


def _S(s):
    return {"t": "str", "s": s}


def _C(c):
    return {"t": "cls", "c": c}


def _F(f):
    return {"t": "fn", "f": f}


_LEAVES4 = [_S("a.b"), _C("int"), _F("true"), _F("pos")]
_LEAVES9 = [_S("a"), _S("a.b"), _S("a.b.1"), _C("int"), _C("str"), _F("true"), _F("false"), _F("inv"), _F("raise_lke")]


def _level(items, with_not=True):
    """all lists/tuples of 1-2 items and Not(item, roe) over the given specifications"""
    out = []
    for t in ("list", "tuple"):
        out.append({"t": t, "l": []})
        for a in items:
            out.append({"t": t, "l": [a]})
        for a in items:
            for b in items:
                out.append({"t": t, "l": [a, b]})
    if with_not:
        for a in items:
            for roe in (True, False):
                out.append({"t": "not", "s": a, "roe": roe})
    return out


def _rand_ctx(rng, keys, depth, leaves=(1, 2, None, True, "b", 0, "1")):
    d = {}
    for k in keys:
        r = rng.random()
        if r < 0.4:
            continue
        if r < 0.75 or depth <= 1:
            d[k] = rng.choice(leaves) if rng.random() < 0.85 else {}
        else:
            d[k] = _rand_ctx(rng, keys, depth - 1, leaves)
    return d


def _rand_selctx(rng):
    key = rng.choice(["a", "a.b", "b", "", "a.b.a", ["a"], ["a", "b"], [], "a..b", ["b", "a"]])
    return {"t": "selctx", "key": key, "pred": rng.choice(["true", "false", "raise_zde", "isdict", "pos", "eq1"]),
            "roe": rng.random() < 0.5}


def _rand_spec(rng, depth):
    r = rng.random()
    if depth <= 0 or r < 0.3:
        k = rng.random()
        if k < 0.3:
            return _S(rng.choice(["a", "b", "a.b", "a.b.1", "b.a", "a.b.a", "", "a.", "c"]))
        if k < 0.5:
            return _C(rng.choice(list(_CLS)))
        if k < 0.9:
            return _F(rng.choice(["true", "false", "raise_zde", "raise_lke", "pos", "inv", "has_ctx"]))
        if k < 0.97:
            if SELCTX_NESTED:
                return _rand_selctx(rng)
            return _F("inv")
        return {"t": "bad"}
    n = rng.choice([0, 1, 1, 2, 2, 3])
    if r < 0.5:
        return {"t": "list", "l": [_rand_spec(rng, depth - 1) for _ in range(n)]}
    if r < 0.7:
        return {"t": "tuple", "l": [_rand_spec(rng, depth - 1) for _ in range(n)]}
    if r < 0.85:
        return {"t": "not", "s": _rand_spec(rng, depth - 1), "roe": rng.random() < 0.5}
    if r < 0.9:
        return {"t": "sel", "s": _rand_spec(rng, depth - 1), "roe": rng.random() < 0.5}
    if r < 0.95:
        return {"t": "and", "l": [_rand_spec(rng, depth - 1) for _ in range(n)], "roe": rng.random() < 0.5}
    return {"t": "or", "l": [_rand_spec(rng, depth - 1) for _ in range(n)], "roe": rng.random() < 0.5}


_PATHS_AB2 = ["a", "b", "a.a", "a.b", "b.a", "b.b"]


def _keysets_ab2():
    for root_in_group in (True, False):
        for assign in itertools.product((0, 1, 2), repeat=len(_PATHS_AB2)):
            g = [p for p, a in zip(_PATHS_AB2, assign) if a == 1]
            m = [p for p, a in zip(_PATHS_AB2, assign) if a == 2]
            (g if root_in_group else m).insert(0, "")
            yield g, m


def _rand_keyset(rng):
    keys = "abc"
    paths = []
    for _ in range(rng.choice([0, 1, 1, 2, 2, 3, 4])):
        if paths and rng.random() < 0.6:
            # extend a listed path: that is how properly nested sets arise
            p = rng.choice(paths) + "." + rng.choice(keys)
            if p.count(".") > 2:
                p = rng.choice(keys)
        else:
            p = ".".join(rng.choice(keys) for _ in range(rng.choice([1, 1, 2, 3])))
        paths.append(p)
    g, m = [], []
    for p in paths:
        r = rng.random()
        # alternate polarity with depth most of the time (properly nested), otherwise anything
        if r < 0.7:
            anc = [q for q in paths if p.startswith(q + ".")]
            (m if len(anc) % 2 == 0 else g).append(p)
        elif r < 0.85:
            g.append(p)
        else:
            m.append(p)
    if rng.random() < 0.5:
        g, m = m, g
    r = rng.random()
    if r < 0.47:
        g.append("")
    elif r < 0.94:
        m.append("")
    elif r < 0.97:
        g.append("")
        m.append("")
    if rng.random() < 0.03:
        (g if rng.random() < 0.5 else m).append(rng.choice(["a..b", ".a", "a."]))
    if rng.random() < 0.05 and g:
        m.append(rng.choice(g))      # overlap: excluded by hypothesis, still compared with the model
    rng.shuffle(g)
    rng.shuffle(m)

    def form(l):
        if len(l) == 1 and rng.random() < 0.5:
            return l[0]
        return l
    return form(g), form(m)


def gen_cases(ctx):
    rng = ctx.rng
    cases = []
    # --- selectors: exhaustive small scopes
    lvl1_4 = _LEAVES4 + _level(_LEAVES4)
    specs = list(_LEAVES9) + _level(_LEAVES9) + _level(lvl1_4)
    seen = set()
    for s in specs:
        k = jdump(s)
        if k in seen:
            continue
        seen.add(k)
        for roe in (True, False):
            cases.append({"op": "select", "spec": s, "roe": roe, "top": "selector", "values": _VALUES})
        cases.append({"op": "select", "spec": s, "roe": True, "top": "filter", "values": _VALUES})
    # instances directly, SelectContext on every key form
    for key in ["a", "a.b", "b", "", "a.b.a", "b.a", ["a"], ["a", "b"], [], "a..b", "c"]:
        for pred in ["true", "false", "raise_zde", "isdict", "pos", "eq1"]:
            for roe in (True, False):
                s = {"t": "selctx", "key": key, "pred": pred, "roe": roe}
                cases.append({"op": "select", "spec": s, "roe": True, "top": "filter", "values": _VALUES})
                if SELCTX_NESTED:
                    cases.append({"op": "select", "spec": {"t": "list", "l": [s, _F("false")]}, "roe": not roe,
                                  "top": "selector", "values": _VALUES})
                    cases.append({"op": "select", "spec": {"t": "not", "s": s, "roe": not roe}, "roe": roe,
                                  "top": "filter", "values": _VALUES})
    for s in [{"t": "bad"}, {"t": "list", "l": [_F("true"), {"t": "bad"}]}, {"t": "not", "s": {"t": "bad"}, "roe": True},
              {"t": "tuple", "l": [{"t": "list", "l": [{"t": "bad"}]}]}]:
        for top in ("selector", "filter"):
            cases.append({"op": "select", "spec": s, "roe": True, "top": top, "values": _VALUES[:2]})
    # --- selectors: sampled deeper specifications
    n_sel = 2000 if ctx.tier == "quick" else 120000
    for _ in range(n_sel):
        vals = list(_VALUES)
        for _ in range(3):
            d = rng.choice([0, 1, 2, -1, True, False, None, "s", {"tuple": True}])
            c = None if rng.random() < 0.2 else _rand_ctx(rng, "ab", 3)
            vals.append({"d": d, "c": c})
        rng.shuffle(vals)
        top = "filter" if rng.random() < 0.3 else "selector"
        spec = _rand_selctx(rng) if top == "filter" and rng.random() < 0.15 else _rand_spec(rng, 3)
        cases.append({"op": "select", "spec": spec, "roe": rng.random() < 0.5, "top": top,
                      "values": vals[:rng.randint(1, 12)]})
    # --- GroupBy: exhaustive over {a,b}, depth <= 2
    for g, m in _keysets_ab2():
        cases.append({"op": "groupby", "group_by": g, "merge": m, "ctxset": "ab2"})
    # argument forms, defaults, duplicates, improper keys, overlaps
    some_ctx = _ctxset("ab2")[::7]
    for g, m in [("", ""), ("a", ""), ("", "a"), ("a.b", ""), ("", "a.b"), (["a", "a"], ""), ("", ["a", "a"]),
                 ([""], ["a", "a.b"]), (["", "a.b"], ["a", "a"]), ("a..b", ""), ("", ".a"), ("a.", ""),
                 ("a", "a"), ("", ["a", ""]), (["", "a"], ["a"]), (["a"], ["", "a"]), ([], []), ([], [""]), ([""], []),
                 (["", "a.b"], ["a"]), (["a"], ["", "a.b"]), (["", "a.b.a"], ["a.b"]), (["", "a.b"], ["a", "b"])]:
        cases.append({"op": "groupby", "group_by": g, "merge": m, "contexts": some_ctx + [None]})
    # --- GroupBy: sampled, three keys, depth <= 3
    n_gb = 800 if ctx.tier == "quick" else 60000
    for _ in range(n_gb):
        g, m = _rand_keyset(rng)
        n = rng.randint(2, 40)
        cs = [None if rng.random() < 0.03 else _rand_ctx(rng, "abc", 3, leaves=(1, 2, True, "1", None)) for _ in range(n)]
        cases.append({"op": "groupby", "group_by": g, "merge": m, "contexts": cs})
    ctx.exhaustive = False   # the deeper scopes are sampled
    return cases


# ---------------------------------------------------------------------------------------------
# the real code

def run_impl(case):
    import lena.core
    import lena.flow
    if case["op"] == "select":
        try:
            py = _build(case["spec"])
            if case["top"] == "filter":
                flt = lena.flow.Filter(py)
                sel = flt._selector
            else:
                sel = lena.flow.Selector(py, raise_on_error=case["roe"])
                flt = lena.flow.Filter(sel)
        except Exception as e:  # noqa: BLE001 - LenaTypeError is the documented one
            return {"init": exc_name(e)}
        vals = [_value(v) for v in case["values"]]
        r = [_out(sel, v) for v in vals]
        kept, stop = [], None
        try:
            for v in flt.run(iter(vals)):
                kept.append(_unvalue(v))
        except Exception as e:  # noqa: BLE001
            stop = exc_name(e)
        # fill_into: the element is filled exactly with the selected values
        class _Store:
            def __init__(self):
                self.vals = []

            def fill(self, v):
                self.vals.append(v)
        st = _Store()
        filled = []
        for v in vals:
            n = len(st.vals)
            try:
                flt.fill_into(st, v)
                filled.append(len(st.vals) == n + 1 and st.vals[-1] is v)
            except Exception as e:  # noqa: BLE001
                filled.append({"e": exc_name(e)})
        return {"r": r, "kept": kept, "stop": stop, "filled": filled}
    if case["op"] == "groupby":
        def arg(x):
            return tuple(x) if isinstance(x, list) else x
        try:
            gb = lena.flow.GroupBy(arg(case["group_by"]), arg(case["merge"]))
        except Exception as e:  # noqa: BLE001
            return {"init": exc_name(e)}
        for i, c in enumerate(_contexts(case)):
            try:
                gb.fill(i if c is None else (i, json.loads(json.dumps(c))))
            except Exception as e:  # noqa: BLE001
                return {"fill": exc_name(e), "at": i}
        groups = []
        for grp in gb.compute():
            groups.append([v if isinstance(v, int) else v[0] for v in grp])
        keys = [json.loads(k) for k in gb.groups]
        # reset() empties the element
        gb.reset()
        after = list(gb.compute())
        return {"groups": groups, "keys": keys, "after_reset": after}
    raise ValueError(case["op"])


# ---------------------------------------------------------------------------------------------
# the model

def _keys_of_ctx(c, acc):
    if isinstance(c, dict):
        for k, v in c.items():
            acc.add(k)
            _keys_of_ctx(v, acc)


def _keys_of_spec(s, acc):
    t = s["t"]
    if t == "str":
        acc.update(s["s"].split("."))
    elif t == "selctx":
        k = s["key"]
        acc.update(k.split(".") if isinstance(k, str) else k)
    for sub in s.get("l", []):
        _keys_of_spec(sub, acc)
    if "s" in s and isinstance(s["s"], dict):
        _keys_of_spec(s["s"], acc)


def model_requests(case):
    names = set()
    if case["op"] == "select":
        _keys_of_spec(case["spec"], names)
        for v in case["values"]:
            _keys_of_ctx(v["c"], names)
        return [{"op": "select", "names": sorted(names), "spec": case["spec"], "roe": case["roe"], "top": case["top"],
                 "values": case["values"]}]
    cs = _contexts(case)
    for c in cs:
        _keys_of_ctx(c, names)
    for arg in (case["group_by"], case["merge"]):
        for key in ([arg] if isinstance(arg, str) else arg):
            names.update(key.split("."))
    return [{"op": "groupby", "names": sorted(names), "group_by": case["group_by"], "merge": case["merge"], "contexts": cs}]


def compare(case, res, replies):
    m = replies[0]
    if "err" in m:
        return f"model driver error: {m['err']}"
    if "init" in res or "init" in m:
        if res.get("init") != m.get("init"):
            return f"construction: impl {res.get('init')} vs model {m.get('init')}"
        return None
    if case["op"] == "select":
        for k in ("r", "kept", "stop"):
            if jdump(res[k]) != jdump(m[k]):
                return f"{k}: impl {jdump(res[k])[:300]} vs model {jdump(m[k])[:300]}"
        # fill_into = the selector applied to each value
        if jdump(res["filled"]) != jdump(m["r"]):
            return f"fill_into: impl {jdump(res['filled'])[:300]} vs model {jdump(m['r'])[:300]}"
        return None
    if "fill" in res:
        return f"impl raised {res['fill']} in fill at value {res['at']}; the model has no such outcome"
    if res["groups"] != m["groups"]:
        return f"groups: impl {jdump(res['groups'])[:300]} vs model {jdump(m['groups'])[:300]}"
    if jdump(res["keys"]) != jdump(m["keys"]):
        return f"keys: impl {jdump(res['keys'])[:300]} vs model {jdump(m['keys'])[:300]}"
    return None


# ---------------------------------------------------------------------------------------------
# the property itself, on the real code's result (independent of the model and of lena)

def _ref_data_ctx(val):
    if isinstance(val, tuple) and len(val) == 2 and isinstance(val[1], dict):
        return val
    return val, {}


def _ref_contains(ctx, s):
    """documented meaning of contains: the dotted string addresses a key, or a scalar whose str() is the last part"""
    if s == "":
        return True          # the empty string names the context itself (as for get_recursively)
    levels = s.split(".")
    cur = ctx
    for k in levels[:-1]:
        if not isinstance(cur, dict) or k not in cur:
            return False
        cur = cur[k]
    if isinstance(cur, dict):
        return levels[-1] in cur
    return str(cur) == levels[-1]


def _absorb(roe, thunk):
    try:
        return thunk()
    except Exception:  # noqa: BLE001
        if roe:
            raise
        return False


def _is_inst(s):
    return s["t"] in ("not", "sel", "and", "or", "selctx")


def _ref_eval(s, roe, val):
    """reference semantics of a specification under the inherited raise_on_error `roe`; raises what a leaf raises"""
    t = s["t"]
    data, ctx = _ref_data_ctx(val)
    if t == "str":
        return _ref_contains(ctx, s["s"])
    if t == "cls":
        return isinstance(data, _CLS[s["c"]])
    if t == "fn":
        return _absorb(roe, lambda: _fn_table()[s["f"]](val))
    if t == "list":      # OR, short-circuit, left to right
        return _absorb(roe, lambda: any(_ref_eval(x, roe, val) for x in s["l"]))
    if t == "tuple":     # AND
        return _absorb(roe, lambda: all(_ref_eval(x, roe, val) for x in s["l"]))
    if t == "not":
        r = s["roe"]
        return not _absorb(r, lambda: _ref_eval(s["s"], r, val))
    if t == "sel":
        r = s["roe"]
        return _absorb(r, lambda: _ref_eval(s["s"], r, val))
    if t == "and":
        return all(_ref_eval(x, s["roe"], val) for x in s["l"])
    if t == "or":
        return any(_ref_eval(x, s["roe"], val) for x in s["l"])
    if t == "selctx":
        key = s["key"]
        keys = [k for k in key.split(".") if k] if isinstance(key, str) else key
        cur = ctx
        for k in keys:
            if not isinstance(cur, dict) or k not in cur:
                return False            # the addressed sub-context is absent
            cur = cur[k]
        return _absorb(s["roe"], lambda: _pred_table()[s["pred"]](cur))
    raise ValueError(t)


def _has_bad(s):
    if s["t"] == "bad":
        return True
    if isinstance(s.get("s"), dict) and _has_bad(s["s"]):
        return True
    return any(_has_bad(x) for x in s.get("l", []))


def _split_paths(arg):
    out = set()
    for key in ([arg] if isinstance(arg, str) else arg):
        out.add(() if key == "" else tuple(key.split(".")))
    return out


def _polarity(G, M, p):
    """is the longest prefix of p listed in group_by or merge a group_by entry?"""
    for n in range(len(p), -1, -1):
        q = p[:n]
        if q in G or q in M:
            return q in G
    raise AssertionError("no root")


def _nodes(c, p=()):
    """every key path of the context with what is seen there: a scalar (with its type) or 'a dictionary'"""
    for k, v in c.items():
        q = p + (k,)
        if isinstance(v, dict):
            yield q, ("dict",)
            yield from _nodes(v, q)
        else:
            yield q, ("leaf", type(v).__name__, v)


def _selected_view(G, M, c):
    return frozenset((p, view) for p, view in _nodes(c or {}) if _polarity(G, M, p))


def oracle(case, res):
    if case["op"] == "select":
        spec = case["spec"]
        if "init" in res:
            if not _has_bad(spec):
                return (f"construction raised {res['init']} for a specification made of strings, classes, callables, "
                        f"selectors, lists and tuples: {jdump(spec)}")
            if res["init"] != "LenaTypeError":
                return f"construction raised {res['init']}, not LenaTypeError, for {jdump(spec)}"
            return None
        if _has_bad(spec):
            return "a specification with an item that is neither class, callable, string, list nor tuple was accepted"
        roe = case["roe"]
        vals = [_value(v) for v in case["values"]]
        exp = []
        for v in vals:
            try:
                if case["top"] == "filter":
                    b = _ref_eval(spec, True, v) if _is_inst(spec) else _absorb(True, lambda: _ref_eval(spec, True, v))
                else:
                    b = _absorb(roe, lambda: _ref_eval(spec, roe, v))
                exp.append(bool(b))
            except Exception as e:  # noqa: BLE001
                exp.append({"e": exc_name(e)})
        for i, (a, b) in enumerate(zip(res["r"], exp)):
            if a != b or type(a) is not type(b):
                return (f"selector gives {a} on value {jdump(case['values'][i])}, the compositional reference gives {b} "
                        f"(spec {jdump(spec)}, raise_on_error={roe}, as {case['top']})")
        # Filter keeps exactly the selected values (up to the first exception, which propagates)
        kept, stop = [], None
        for v, b in zip(case["values"], exp):
            if isinstance(b, dict):
                stop = b["e"]
                break
            if b:
                kept.append(v)
        if jdump(res["kept"]) != jdump(kept) or res["stop"] != stop:
            return (f"Filter.run kept {jdump(res['kept'])[:300]} stop={res['stop']}, selected values are "
                    f"{jdump(kept)[:300]} stop={stop}")
        if jdump(res["filled"]) != jdump(exp):
            return f"Filter.fill_into filled {jdump(res['filled'])}, selected: {jdump(exp)}"
        return None
    # ---- groupby
    if "init" in res:
        return None          # the property speaks about key sets accepted by make_include_exclude_tree
    G, M = _split_paths(case["group_by"]), _split_paths(case["merge"])
    if case["group_by"] == "" and case["merge"] == "":
        G, M = set(), {()}
    if G & M:
        return None          # excluded by hypothesis: a path listed in both has no longest-prefix entry
    cs = _contexts(case)
    if "fill" in res:
        return f"GroupBy.fill raised {res['fill']} on context {jdump(cs[res['at']])}"
    groups = res["groups"]
    flat = sorted(i for g in groups for i in g)
    if flat != list(range(len(cs))):
        return f"the groups {groups} are not a partition of the {len(cs)} filled values"
    views = [_selected_view(G, M, c) for c in cs]
    owner = {}
    for gi, g in enumerate(groups):
        if g != sorted(g):
            return f"arrival order is not preserved inside the group {g}"
        if not g:
            return "an empty group was yielded"
        for i in g:
            owner[i] = gi
    by_view = {}
    for i, v in enumerate(views):
        j = by_view.setdefault(v, i)
        if owner[i] != owner[j]:
            return (f"GroupBy({case['group_by']!r}, {case['merge']!r}) separates {jdump(cs[j])} from {jdump(cs[i])} although they "
                    f"agree on every key path whose longest listed prefix is a group_by entry")
    first = {}
    for i in range(len(cs)):
        j = first.setdefault(owner[i], i)
        if views[i] != views[j]:
            diff = sorted(views[i] ^ views[j])[0]
            return (f"GroupBy({case['group_by']!r}, {case['merge']!r}) puts {jdump(cs[j])} and {jdump(cs[i])} into one group although "
                    f"they differ at the selected key path {'.'.join(diff[0])}")
    if res.get("after_reset"):
        return f"groups after reset(): {res['after_reset']}"
    return None


# ---------------------------------------------------------------------------------------------

def nontrivial(case, res):
    if "init" in res:
        return True
    if case["op"] == "select":
        r = res["r"]
        return any(isinstance(x, dict) for x in r) or (True in r and False in r)
    return len(res.get("groups", [])) >= 2 and any(len(g) >= 2 for g in res["groups"])


def _depth(s):
    subs = list(s.get("l", [])) + ([s["s"]] if isinstance(s.get("s"), dict) else [])
    if s["t"] in ("list", "tuple", "and", "or", "not", "sel"):
        return 1 + max((_depth(x) for x in subs), default=0)
    return 0


def classify(case, res):
    if case["op"] == "select":
        labels = [f"select:{case['top']}:depth={_depth(case['spec'])}:roe={case['roe']}", "select:top=" + case["spec"]["t"]]
        if "init" in res:
            labels.append("select:init-error")
        else:
            if any(isinstance(x, dict) for x in res["r"]):
                labels.append("select:raises")
            if res["stop"]:
                labels.append("filter:stopped-by-exception")
        return labels
    if "init" in res:
        return ["groupby:init=" + res["init"]]
    G, M = _split_paths(case["group_by"]), _split_paths(case["merge"])
    labels = ["groupby:root=" + ("group_by" if () in G else "merge"),
              f"groupby:maxdepth={max([len(p) for p in G | M] + [0])}",
              f"groupby:groups={min(len(res.get('groups', [])), 10)}"]
    if G & M:
        labels.append("groupby:overlap(excluded)")
    return labels


def signature(case, failure):
    c = {k: v for k, v in case.items() if k not in ("values", "contexts", "ctxset")}
    return jdump(c)


def shrink(case):
    if case["op"] == "select":
        vals = case["values"]
        if len(vals) > 1:
            for i in range(len(vals)):
                yield dict(case, values=vals[:i] + vals[i + 1:])
        s = case["spec"]
        for sub in list(s.get("l", [])) + ([s["s"]] if isinstance(s.get("s"), dict) else []):
            yield dict(case, spec=sub)
        if "l" in s and len(s["l"]) > 1:
            for i in range(len(s["l"])):
                yield dict(case, spec=dict(s, l=s["l"][:i] + s["l"][i + 1:]))
        return
    cs = _contexts(case)
    base = {k: v for k, v in case.items() if k != "ctxset"}
    if len(cs) > 2:
        # a wrong merge or a wrong separation is visible on two values
        if len(cs) <= 60:
            for i in range(len(cs)):
                for j in range(i + 1, len(cs)):
                    yield dict(base, contexts=[cs[i], cs[j]])
        else:
            half = len(cs) // 2
            yield dict(base, contexts=cs[:half])
            yield dict(base, contexts=cs[half:])
            for i in range(len(cs)):
                yield dict(base, contexts=cs[:i] + cs[i + 1:])
    for k in ("group_by", "merge"):
        a = case[k]
        if isinstance(a, list) and len(a) > 1:
            for i in range(len(a)):
                yield dict(base, contexts=cs, **{k: a[:i] + a[i + 1:]})


# ---- MANIFEST texts ------------------------------------------------------------------------
LEVEL_TEXT = ("Lean 4 theorems about a transcribed model of Selector/And/Or/Not/SelectContext/Filter (deep-embedded "
              "specifications of any nesting depth, both raise_on_error settings, construction errors) and of "
              "make_include_exclude_tree + IncludeExcludeTree.get + GroupBy (trees of any depth: get keeps exactly the paths "
              "whose longest listed prefix is an include entry; two values share a group iff their contexts agree on every such "
              "path; arrival order preserved), tied to /repo by a correspondence check (exhaustive over depth-2 specifications "
              "and over all 1458 key sets x 361 contexts on a two-key alphabet, sampled beyond) and a direct reference-evaluator / "
              "reference-partition oracle on the real code.")
LEVEL_NOTE = ("Trusted: Lean kernel (+ propext, Classical.choice, Quot.sound), the hand transcription validated by the "
              "correspondence run, slot-vector dictionaries, injectivity of to_string on JSON contexts, the JSON protocol. "
              "Hypothesis: group_by and merge list no common path.")
TECHNIQUE = "Lean 4 proof over hand-written model + correspondence check (exhaustive small scopes, sampled deeper) + reference oracle"
DESIGN_REF = "DESIGN.md section 3, C15"
