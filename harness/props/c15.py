"""C15 — selectors evaluate compositionally; GroupBy partitions by the selected context.

Real code: lena.flow.Selector / And / Or / Not / SelectContext / Filter / RunIf, lena.flow.GroupBy (and the
deprecated lena.flow.group_by._GroupBy), lena.context.make_include_exclude_tree / IncludeExcludeTree.get,
lena.context.contains / get_recursively.
Model: lean/LenaModel/Model/C15.lean; specification vocabulary lean/LenaModel/Model/C15Spec.lean; helper lemmas
lean/LenaModel/Lemmas/C15.lean; theorems lean/LenaModel/Props/C15.lean.

Cases (JSON):
  {"op":"select","spec":SPEC,"roe":bool,"top":"selector"|"filter","values":[{"d":data,"c":ctx|null},..]}
  {"op":"filterseq","a":SPEC,"b":SPEC,"values":[..]}                        Sequence(Filter(a), Filter(b))
  {"op":"runif","spec":SPEC,"seq":"ident"|"dup"|"drop"|"tag","values":[..]}
  {"op":"groupby","group_by":S,"merge":S,"contexts":[ctx|null,..],"via":"fill"|"update","end":"reset"|"clear"}
  {"op":"groupby","group_by":S,"merge":S,"ctxset":"ab2"}                    a named, fixed list of contexts
        S = "str" | ["str",..] (a tuple) | {"list":["str",..]} (a list) | {"notiter":true} (a callable)
            | {"strsub":"str"} (an instance of a subclass of str) | {"tuplesub":["str",..]} (a named tuple)
        optional "data": the data of the values — [d,..] (null / bool / int / string / {"pair":[a,b]}: a 2-tuple) or a mode
        "idx" (default: the position) | "desc" | "str"; optional "alias": [n|null,..] — values with the same number hold ONE
        context dictionary object, which is updated in place before the next of them is filled; optional "same": true — a value
        equal to an earlier one is the same Python object, filled again
  {"op":"oldgroupby","group_by":NAME | [NAME,..] | {"bad":true},"values":[..]}   the deprecated _GroupBy with callables
  {"op":"contains","ctx":ctx,"s":"a.b"}   {"op":"splitkey","s":..}   {"op":"startswith","a":[..],"b":[..]}
SPEC and KEY are the encodings documented in lean/drivers/C15.lean; a context leaf ["obj", s] is an object that json
cannot encode and whose str() is s; ["list"|"tuple"|"set", [..]] is a container as a context value (sent to the model as
["obj", str(container)]).  A specification may carry "sub": true (the string / list / tuple is an instance of a
subclass: _Str, _L, a named tuple).  Data of a value: null / bool / int / string / {"tuple":true} / {"k":KIND}.
A "fn" / "selctx" specification may carry "as": the kind of Python object the callable is (_AS_KINDS: a function, an
instance with __call__, a bound method, a functools.partial object, a callable instance of a subclass of str / list /
tuple, a lena Selector instance; {"cls": NAME}: a class called as a converter / validator - predicates only; "builtin":
a builtin function or a bound method of a builtin object).
A select case also builds a twin selector FIRST from the same specification object with the other raise_on_error.
Only the public interface of lena objects is used (with "top":"filter" the per-value result is what Filter.fill_into does
with the value); the private module-level names _GroupBy, _split_key, _startswith are looked up defensively (see ASSUMPTIONS).
"""
import collections
import collections.abc
import fractions
import functools
import itertools
import numbers
import random
import warnings

from harness.common import exc_name, jdump

PID = "C15"
TITLE = "Selectors evaluate compositionally; GroupBy partitions by the selected context"
LEAN_MODULES = ["LenaModel.Props.C15", "LenaModel.Props.C15Key", "LenaModel.Props.C15Pred"]
LEAN_SOURCES = ["LenaModel/Model/C15.lean", "LenaModel/Model/C15Spec.lean", "LenaModel/Model/C15Key.lean",
                "LenaModel/Model/C15Pred.lean", "LenaModel/Lemmas/C15.lean", "LenaModel/Props/C15.lean",
                "LenaModel/Props/C15Key.lean", "LenaModel/Props/C15Pred.lean"]
DRIVER = "drivers/C15.lean"
# the theorems that carry the property: each is about the transcribed model (Model/C15.lean)
THEOREMS = [
    # Part 1: selectors, SelectContext, Filter, RunIf
    "Lena.C15.selector_compositional",
    "Lena.C15.selector_init_error",
    "Lena.C15.selector_absorbs_errors",
    "Lena.C15.selector_total_leaves",
    "Lena.C15.contains_spec",
    "Lena.C15.select_context_absent_false",
    "Lena.C15.select_context_present",
    "Lena.C15.select_context_pred_raises",
    "Lena.C15.select_context_applies_any_callable",
    "Lena.C15.select_context_bool_predicate",
    "Lena.C15.selector_callable_dispatch",
    "Lena.C15.class_selector_tests_type",
    "Lena.C15.filter_stops_at_first_error",
    "Lena.C15.filter_keeps_selected",
    "Lena.C15.fill_into_spec",
    "Lena.C15.filter_seq_eq_and",
    "Lena.C15.filter_seq_eq_stages",
    "Lena.C15.runif_spec",
    # Part 2: include/exclude trees
    "Lena.C15.make_fuel_suffices",
    "Lena.C15.iet_get_is_longest_prefix",
    "Lena.C15.make_include_exclude_tree_get",
    "Lena.C15.iet_get_general",
    "Lena.C15.make_rejects_iff",
    "Lena.C15.make_accepts_iff",
    "Lena.C15.make_include_exclude_tree_rejects_iff",
    # Part 3: GroupBy
    "Lena.C15.groupby_partition",
    "Lena.C15.groupby_groups_perm",
    "Lena.C15.groupby_ignores_data",
    "Lena.C15.groupby_default_one_group",
    "Lena.C15.groupby_share_iff_agree",
    "Lena.C15.groupby_groups_iff_agree",
    "Lena.C15.groupby_skip_partition",
    "Lena.C15.groupby_fill_raises_iff",
    "Lena.C15.old_groupby_partition",
    "Lena.C15.old_groupby_first_error",
    # the group key and to_string (C08's token model of json.dumps)
    "Lena.C15.group_key_to_string",
]
# readings of the specification-side definitions (they do not mention the model), encoding lemmas and statements that
# are true by the definition of the model: audited, not counted as proof obligations of the property
AUX_THEOREMS = [
    "Lena.C15.sem_list_tuple",
    "Lena.C15.semB_list_tuple_not",
    "Lena.C15.not_sem",
    "Lena.C15.not_of_absorbing",
    "Lena.C15.not_not_sem",
    "Lena.C15.select_context_bad_key",
    "Lena.C15.select_context_kind_irrelevant",
    "Lena.C15.sel_eq_polarity",
    "Lena.C15.mem_prefixesDesc",
    "Lena.C15.polarity_spec",
    "Lena.C15.selC_eq_flipWalk",
    "Lena.C15.selC_snoc",
    "Lena.C15.selC_eq_polarity_of_disjoint",
    "Lena.C15.overlap_rule",
    "Lena.C15.rejectsB_iff",
    "Lena.C15.disjointB_iff",
    "Lena.C15.agreeOnB_iff",
    "Lena.C15.wfV_iff",
    "Lena.C15.idxPath_inj",
    "Lena.C15.keep_leaf_paths",
    "Lena.C15.same_key_iff_agree",
    "Lena.C15.startsWith_iff",
    "Lena.C15.groupby_init_type_error",
]
TRUSTED = [
    "Lean 4.33.0 kernel; axioms limited to propext, Classical.choice, Quot.sound (audited by #print axioms on every run)",
    "hand transcription of lena/flow/selectors.py, filter.py, group_by.py (GroupBy and _GroupBy), RunIf (elements.py), "
    "lena/context/include_exclude_tree.py and of contains/get_recursively (lena/context/functions.py) into "
    "LenaModel/Model/C15.lean, validated by this correspondence check on the generated cases",
    "dictionaries as slot vectors over the key alphabet of the case (DESIGN.md section 2): the iteration order of "
    "dict.items() and of the set of starting prefixes is abstracted, dict subclasses are dictionaries; the check builds "
    "every generated context in one of three insertion orders and about half of the dictionaries as instances of a dict "
    "subclass, and fills the same logical context in different orders into one GroupBy",
    "the model keys the groups by the selected sub-context, the code by its to_string: group_key_to_string proves that the "
    "two keyings coincide at the level of C08's token model of json.dumps(sort_keys=True) (C08's to_string_inj); that "
    "json.dumps spells different keys and scalars differently (Tok.spell, characters that JSON escapes) is C08's "
    "assumption and is not exercised here (generated keys and strings contain no such character); the driver renders "
    "every group key with C08's to_string and the harness compares it with the real key string",
    "the model is a pure function of values: that constructing a selector leaves the user's specification object as it "
    "was, that GroupBy reads the context when the value is filled (a source may update one dictionary in place), that "
    "an instance of a subclass of str / list / tuple is a string / list / tuple, are not expressible in it; the check "
    "exercises them (a twin selector built first from the same specification object with the other raise_on_error; "
    "flows whose values share context dictionaries updated in place; named tuples, list and str subclasses as "
    "specifications and as group_by / merge) and the oracle judges the results",
    "a callable is a function of the model (Val -> Res, Item -> Res) plus a tag saying what else the Python object is "
    "(CallKind of Model/C15Pred.lean: a class, a callable string / list / tuple, a selector instance, or nothing else); "
    "that a builtin, a bound method, a functools.partial object and an instance with __call__ are all 'plain' callables, "
    "and the tables of the driver for bool / int / float / str / dict / list / len / abs / tuple.__contains__ / a user "
    "validator class on the generated sub-contexts (pyBool, pyInt, ... ; integer literals without '+', blanks and "
    "underscores, the float literals '1.5' and '1e3'), are validated by the correspondence run only",
    "the isinstance table of the model (Data x PyClass, incl. numbers.Number/Integral, collections.abc.Mapping/"
    "Sequence/Hashable, user classes with a subclass) against Python's isinstance on one instance per class",
    "JSON line protocol encoders (harness/props/c15.py, drivers/C15.lean)",
]
ASSUMPTIONS = [
    "a callable / predicate is modelled by the truth value of what it returns (True / False / raise): everything the "
    "statement speaks about (list = OR, tuple = AND, Not, Filter, RunIf, SelectContext inside them) uses only the truth "
    "value; that Selector.__call__ itself hands back the raw object is not modelled (the harness compares truth values; "
    "callables returning 5, 0, '', 'x', None and the data itself are generated)",
    "'a callable is applied' / 'SelectContext applies its predicate': a callable is ANY object Python's callable() accepts - "
    "functions, lambdas, builtins (len, abs), bound methods, functools.partial objects, instances with __call__, lena "
    "selector instances; as the predicate of a SelectContext also classes (bool, int, float, str, dict, list, a user "
    "class used as a validator: the class is CALLED on the sub-context, it is not an isinstance test) and callable "
    "instances of subclasses of str / list / tuple (seed C15-I).  Given to Selector itself, a class tests the type (the "
    "statement), and an object that is a callable AND a string / list / tuple is outside the oracle: the statement "
    "names a meaning for each of the two and no precedence; lena applies it (callable is tested before str), which the "
    "model transcribes (Callable.asSpec) and the correspondence compares",
    "exceptions are instances of Exception (any class: ZeroDivisionError, TypeError, AttributeError, ValueError, "
    "RuntimeError, AssertionError, KeyError, OSError, LenaKeyError, a user-defined class, StopIteration - with its "
    "conversion to RuntimeError inside the generator expressions of And/Or/Filter.run and in RunIf.run, PEP 479, which the "
    "model transcribes); BaseExceptions that are no Exceptions (KeyboardInterrupt, SystemExit, GeneratorExit) pass through "
    "`except Exception` by design and are outside the statement and the model",
    "contexts are built from None, bool, int, str, objects json cannot encode, and string-keyed dictionaries (plain or of a "
    "subclass); for selectors and contains also non-empty lists, tuples and one-element frozensets as context values "
    "(opaque values: contains compares their str(), the model sees them as objects with that str()); for GroupBy lists "
    "only, compared as wholes, in cases judged by the oracle alone (the model's group key has no list values; a tuple and "
    "a list with the same items have the same to_string and are not both generated); floats as context values are not "
    "generated; agreement of two contexts on a key path is type-strict (True and 1 differ, as they do for to_string)",
    "'a class tests the type of the data' is Python's isinstance (inheritance and abstract base classes); 'a list is OR, a "
    "tuple is AND, a string tests the context' hold for instances of subclasses of list / tuple / str (a named tuple is a "
    "tuple); equal values of a flow are different values (each filled value is in a group as often as it was filled); "
    "'their contexts' are the contexts at the time the values were filled; a value without context has the empty "
    "context whatever its data is (also a pair whose second item is no dictionary)",
    "the key alphabet `names` of a case contains every sub-key of group_by / merge and of the specifications (hypothesis "
    "KeysKnown of the string-level theorems; the harness always sends the full alphabet): unknown sub-keys would all become "
    "one index (an example in Props/C15.lean shows the model accepting a key set the code rejects over too small an alphabet)",
    "the partition oracle speaks about accepted key sets with the root in exactly one of group_by / merge and no path "
    "listed in both (the property's longest-prefix entry is then defined for every path); which key sets are accepted, "
    "the exception classes at construction, LenaValueError of fill for an unserialisable selected object, reset/clear "
    "leaving no groups, the order in which groups are yielded: documented behaviour outside the statement, compared "
    "with the model in the correspondence (theorems make_rejects_iff, groupby_fill_raises_iff, groupby_partition), not "
    "demanded by the oracle; overlapping key sets are covered by iet_get_general / overlap_rule and the correspondence",
    "group_by and merge are strings, tuples/lists of strings or non-iterables; SelectContext keys are strings, lists or "
    "dictionaries; keys returned by the callables of the deprecated _GroupBy are None, ints or strings (no bools: True == 1 "
    "would merge); the sequence inside RunIf does not raise; __eq__/__repr__ of the classes are not modelled",
    "the harness observes lena through its public interface only: the selector a Filter holds is a private attribute, "
    "so 'the Filter's selector applied to one value' is observed as Filter.fill_into(element, value) filling the element "
    "or not (the selector's exception comes through unchanged), never by reading the attribute; no private attribute or "
    "method of a lena object is read, set or patched, no __name__ / repr of lena objects is compared.  Three private "
    "module-level names have no public counterpart: the deprecated class lena.flow.group_by._GroupBy (theorems "
    "old_groupby_partition, old_groupby_first_error) and the helpers _split_key / _startswith of "
    "lena.context.include_exclude_tree (correspondence of the model's splitKey / startsWith only).  They are looked up "
    "defensively: if lena no longer spells one of them that way, its cases return {'skipped': ...}, are neither compared "
    "nor judged, count as trivial and are counted in the input histogram of the evidence under "
    "'<op>:skipped-private-name-missing' - never an alarm, never a crash; the public behaviour they serve "
    "(make_include_exclude_tree, GroupBy) is checked through the public classes in the groupby cases",
]
RULE = ("Keys 'a', 'ab' (one a string prefix of the other), 'b'; every context built in one of three insertion orders, about "
        "half of the dictionaries as instances of a dict subclass. select: specifications of depth <= 2 over 4 leaves (quick: a "
        "seeded half of the 5832 two-level ones, thorough: all) and all of depth <= 1 over 9 leaves, x both raise_on_error x 12 "
        "values (rotated per case), as Selector and as Filter; 14 further leaves (8 exception classes incl. AttributeError, "
        "KeyError, a user-defined class, StopIteration; 6 results that are no bools) bare, in containers, under Not, in "
        "instances; all Not-chains of depth <= 3 x all raise_on_error combinations over 9 inner selectors; SelectContext "
        "over 19 key forms x 13 predicates (incl. predicates raising LenaKeyError / LenaTypeError / LenaValueError); all "
        "predicates of every kind of callable: the classes bool / int / float / str / dict / list and a user validator class, "
        "the builtins len / abs, a bound method of a tuple x 7 key forms x both raise_on_error x 16 values whose sub-contexts are "
        "numbers, flags, strings (integer / float literals, ''), None, dictionaries, an object, or absent - directly, in a list, "
        "in a (named) tuple, under Not; the 13 function predicates as instance with __call__ / bound method / partial / callable "
        "str, list, tuple subclass / lena Selector x 3 keys; the 23 leaf functions as the same kinds of object + builtin len, "
        "bare / in a list / in a tuple / under Not / in Filter sequences / in RunIf; the random specifications draw them too; "
        "18 classes (concrete, user-defined with a subclass, numbers.Number/Integral, collections.abc.Mapping/Sequence/"
        "Hashable) x data of 19 kinds (incl. float, Fraction, dict, list, user subclasses of int and str, a named tuple), as "
        "leaf / in a list / in a named tuple / under Not; strings, lists, tuples, And/Or arguments that are instances of "
        "subclasses (fixed set + a quarter of the random containers); every select case builds a twin selector first from "
        "the same specification object with the other raise_on_error; values with lists / tuples / sets as context values; "
        "seeded random specifications of depth <= 3 (quick 1800, thorough 100000). "
        "filterseq: all pairs of 11 leaves + sampled (quick 300, thorough 8000); runif: 15 selectors x 4 sequences + sampled "
        "(quick 200, thorough 5000). groupby: every assignment of the 6 paths of depth <= 2 over {a,ab} to "
        "group_by/merge/neither x both roots (1458 key sets) x all 361 contexts of depth <= 2 with leaves {1,2,{}}; the "
        "same key sets (quick: 300 of them) x 81 contexts with false and type-confusable leaves {0, False, None, '', {}, 1, "
        "True, '1', absent}; every assignment to group_by/merge/both/neither (overlaps, 8192 key sets; quick: 800) x 40 "
        "contexts; all 169 combinations of 13 spellings of the arguments (strings, tuples, lists, empty containers) with "
        "equal contexts in different insertion orders; seeded random key sets over {a,ab,b} up to depth 3 with random "
        "contexts (repeated in other orders; quick 700, thorough 40000), callables, update/clear aliases, unserialisable "
        "objects, re-use after reset. The data of the values: positions, descending numbers, strings ('10' < '9') rotated "
        "over the exhaustive scopes; 14 key sets (incl. str-subclass and named-tuple arguments) x 13 flows with equal "
        "values filled several times, data in no order, bare pairs, one or several context dictionaries shared by the "
        "values and updated in place; in the random flows: shuffled numbers, few distinct data, pairs with and without "
        "context, shared dictionaries (a quarter), lists as context values (oracle only). oldgroupby: singles, pairs, sampled triples of 6 callables x random flows. contains: 19 "
        "strings x 169 contexts; _split_key, _startswith on small sets. Non-trivial: select - a value is selected and "
        "another is not, or an exception; groupby - at least two groups and a group with two values, or a construction error.")
CASE_TIMEOUT = 20


# ---------------------------------------------------------------------------------------------
# python side of the encodings


class _Unser(object):
    """an object json.dumps cannot encode; str() is given"""

    def __init__(self, s):
        self.s = s

    def __str__(self):
        return self.s

    def __repr__(self):
        return "_Unser(%r)" % self.s

    def __eq__(self, other):
        return isinstance(other, _Unser) and other.s == self.s

    def __hash__(self):
        return hash(self.s)


class _D(dict):
    """a dictionary that is not exactly `dict` (as lena.context.Context, OrderedDict, defaultdict are)"""


class _L(list):
    """a list that is not exactly `list`: a list specification of this class is still a list (OR)"""


class _Str(str):
    """a string that is not exactly `str`"""


class _MyInt(int):
    """a user subclass of int"""


class _User(object):
    """a user-defined class, with a subclass"""

    def __eq__(self, other):
        return type(other) is type(self)

    def __hash__(self):
        return 7


class _UserSub(_User):
    pass


_Point = collections.namedtuple("_Point", ["x", "y"])


def _named_tuple(items):
    """a named tuple (a subclass of tuple) holding the items: a tuple specification of this class is still a tuple (AND)"""
    items = list(items)
    return collections.namedtuple("_Cuts", ["f%d" % i for i in range(len(items))])(*items)


_CONTAINER_LEAVES = {"list": list, "tuple": tuple, "set": frozenset}


def _mk(c, o=0, depth=0):
    """JSON context -> a fresh Python context.  `o` chooses the insertion order of the keys at every level (0: sorted,
    1: reverse sorted, 2: sorted and rotated by one) — equal dictionaries in different orders must behave alike; about
    every second dictionary is made an instance of a subclass of dict."""
    if isinstance(c, dict):
        ks = sorted(c)
        if o == 1:
            ks.reverse()
        elif o == 2:
            ks = ks[1:] + ks[:1]
        d = _D() if (len(ks) + depth) % 2 == 1 else {}
        for k in ks:
            d[k] = _mk(c[k], o, depth + 1)
        return d
    if isinstance(c, list):
        if c[0] in _CONTAINER_LEAVES:
            # a (non-empty) container as a context value: an opaque value for lena, seen through its str() only
            return _CONTAINER_LEAVES[c[0]](c[1])
        return _Unser(c[1])
    return c


def _order_of(case, i):
    """insertion order used for the i-th context of a groupby case"""
    if "orders" in case:
        return case["orders"][i]
    return i % 3 if "ctxset" in case else 0


def _unmk(c):
    if isinstance(c, dict):
        return {k: _unmk(v) for k, v in c.items()}
    if isinstance(c, _Unser):
        return ["obj", c.s]
    if isinstance(c, list) and len(c) == 2 and c[0] in ("obj", "list", "tuple", "set"):
        return c          # already the JSON form of a leaf (the function is also applied to JSON contexts)
    for name, cls in _CONTAINER_LEAVES.items():
        if isinstance(c, cls):
            return [name, sorted(c, key=repr) if cls is frozenset else list(c)]
    return c


def _model_ctx(c):
    """the context as the model sees it: a container value is an object known by its str() (lena never looks inside)"""
    if isinstance(c, dict):
        return {k: _model_ctx(v) for k, v in c.items()}
    if isinstance(c, list) and c and c[0] in _CONTAINER_LEAVES:
        return ["obj", str(_CONTAINER_LEAVES[c[0]](c[1]))]
    return c


def _has_container(c):
    if isinstance(c, dict):
        return any(_has_container(v) for v in c.values())
    return isinstance(c, list) and bool(c) and c[0] in _CONTAINER_LEAVES


def _model_values(vals):
    return [dict(v, c=_model_ctx(v["c"])) for v in vals]


class _Custom(Exception):
    """a user-defined exception class"""


def raise_(cls):
    def f(v):
        raise cls("leaf")
    return f


def _fn_table():
    import lena.core

    def raise_lke(v):
        raise lena.core.LenaKeyError("leaf")

    def raise_lte(v):
        raise lena.core.LenaTypeError("leaf")

    def raise_lve(v):
        raise lena.core.LenaValueError("leaf")

    def _data(v):
        if isinstance(v, tuple) and len(v) == 2 and isinstance(v[1], dict):
            return v[0]
        return v

    def _ctx(v):
        if isinstance(v, tuple) and len(v) == 2 and isinstance(v[1], dict):
            return v[1]
        return {}

    return {
        "true": lambda v: True,
        "false": lambda v: False,
        "raise_zde": lambda v: 1 // 0 > 0,
        "raise_lke": raise_lke,
        "raise_lte": raise_lte,
        "raise_lve": raise_lve,
        "pos": lambda v: _data(v) > 0,
        "inv": lambda v: 1 // _data(v) > 0,
        "has_ctx": lambda v: bool(_ctx(v)),
        # other exception classes: raise_on_error=False must absorb every Exception
        "raise_attr": lambda v: v.no_such_attribute,
        "raise_val": lambda v: int("x") > 0,
        "raise_rt": raise_(RuntimeError),
        "raise_assert": raise_(AssertionError),
        "raise_custom": raise_(_Custom),
        "raise_key": lambda v: {}["missing"],
        "raise_os": raise_(OSError),
        "raise_stop": raise_(StopIteration),
        # results that are no bools: selected means true
        "five": lambda v: 5,
        "zero": lambda v: 0,
        "empty": lambda v: "",
        "xstr": lambda v: "x",
        "none": lambda v: None,
        "data": lambda v: _data(v),
        # a builtin function, applied to the value as it is (a (data, context) pair has length 2)
        "b_len": len,
    }


# --- callables of every kind.  "a callable is applied", "SelectContext applies its predicate": the callable may be a
# function or a lambda, and just as well an instance with __call__, a bound method, a functools.partial object, a builtin,
# a class (a predicate only: as a selector a class tests the type), an object that is callable AND a string / list / tuple

class _CallInst(object):
    """an instance of a class with __call__"""

    def __init__(self, f):
        self.f = f

    def __call__(self, x):
        return self.f(x)


class _Holder(object):
    """`_Holder(f).check` is a bound method"""

    def __init__(self, f):
        self.f = f

    def check(self, x):
        return self.f(x)


def _apply(f, x):
    return f(x)


class _CallStr(str):
    """a string that can be called (its characters name a key that the generated contexts have)"""

    def __new__(cls, s, f):
        o = str.__new__(cls, s)
        o.f = f
        return o

    def __call__(self, x):
        return self.f(x)


class _CallList(list):
    """a list that can be called"""

    def __init__(self, items, f):
        list.__init__(self, items)
        self.f = f

    def __call__(self, x):
        return self.f(x)


class _CallTuple(tuple):
    """a tuple that can be called"""

    def __new__(cls, items, f):
        o = tuple.__new__(cls, items)
        o.f = f
        return o

    def __call__(self, x):
        return self.f(x)


class _Positive(object):
    """a user class used as a validator: `SelectContext("energy", _Positive)`"""

    def __init__(self, x):
        if not x > 0:
            raise ValueError("not positive")


# the kinds a function of the tables can be wrapped into ("selector": a lena Selector instance - predicates only, as a
# leaf it is the specification {"t": "sel"})
_AS_PLAIN = ["instance", "method", "partial"]
_AS_AMBIGUOUS = ["callstr", "calllist", "calltuple"]
_AS_KINDS = _AS_PLAIN + _AS_AMBIGUOUS


def _as_kind(f, kind):
    """the function f as a callable object of another kind"""
    if kind is None or kind in ("function", "builtin") or isinstance(kind, dict):
        return f
    if kind == "instance":
        return _CallInst(f)
    if kind == "method":
        return _Holder(f).check
    if kind == "partial":
        return functools.partial(_apply, f)
    if kind == "callstr":
        return _CallStr("a", f)
    if kind == "calllist":
        return _CallList(["a", lambda v: True], f)
    if kind == "calltuple":
        return _CallTuple(("a", lambda v: True), f)
    if kind == "selector":
        import lena.flow
        return lena.flow.Selector(f)
    raise ValueError(kind)


def _fn_obj(spec):
    """the Python callable of a {"t": "fn"} specification"""
    return _as_kind(_fn_table()[spec["f"]], spec.get("as"))


def _pred_obj(spec):
    """the Python predicate of a {"t": "selctx"} specification"""
    return _as_kind(_pred_table()[spec["pred"]], spec.get("as"))


# classes and builtins as predicates: name -> (the callable, its "as")
_PRED_BUILTINS = {
    "c_bool": (bool, {"cls": "bool"}), "c_int": (int, {"cls": "int"}), "c_float": (float, {"cls": "float"}),
    "c_str": (str, {"cls": "str"}), "c_dict": (dict, {"cls": "dict"}), "c_list": (list, {"cls": "list"}),
    "c_pos": (_Positive, {"cls": "User"}), "b_len": (len, "builtin"), "b_abs": (abs, "builtin"),
    "m_in": ((1, "ab").__contains__, "builtin"),
}
# these look INSIDE a list / tuple / set found in a context (the model knows such a value by its str() only): they are
# generated with values whose contexts hold no containers
_PREDS_INSIDE = ("c_int", "c_float", "c_dict", "c_list", "b_len")


def _pred_table():
    import lena.core
    return dict({k: v[0] for k, v in _PRED_BUILTINS.items()}, **{
        # lena's own exception classes: the ones SelectContext meets when it looks up its key
        "raise_lke": raise_(lena.core.LenaKeyError),
        "raise_lte": raise_(lena.core.LenaTypeError),
        "raise_lve": raise_(lena.core.LenaValueError),
        "true": lambda sc: True,
        "false": lambda sc: False,
        "raise_zde": lambda sc: 1 // 0 > 0,
        "isdict": lambda sc: isinstance(sc, dict),
        "pos": lambda sc: sc > 0,
        "eq1": lambda sc: sc == 1,
        "ident": lambda sc: sc,
        "raise_attr": lambda sc: sc.no_such_attribute,
        "raise_custom": raise_(_Custom),
        "raise_stop": raise_(StopIteration),
    })


_CLS = {"object": object, "int": int, "bool": bool, "str": str, "tuple": tuple, "float": float, "dict": dict,
        # further concrete classes, user-defined classes, abstract base classes (isinstance of a registered class)
        "list": list, "NoneType": type(None), "MyInt": _MyInt, "Str": _Str, "User": _User, "UserSub": _UserSub,
        "Number": numbers.Number, "Integral": numbers.Integral, "Mapping": collections.abc.Mapping,
        "Sequence": collections.abc.Sequence, "Hashable": collections.abc.Hashable}

# data that is no None / bool / int / str: {"k": KIND} in the JSON form of a value
_DATA_KINDS = {
    "float": lambda: 1.5, "dict": lambda: {"x": 1}, "list": lambda: [1, 2], "myint": lambda: _MyInt(7),
    "mystr": lambda: _Str("s"), "user": _User, "usersub": _UserSub, "frac": lambda: fractions.Fraction(1, 2),
    "point": lambda: _Point(1, 2),
}
_DATA_KIND_OF = {float: "float", dict: "dict", list: "list", _MyInt: "myint", _Str: "mystr", _User: "user",
                 _UserSub: "usersub", fractions.Fraction: "frac", _Point: "point"}


def _build_key(key):
    """JSON key -> what the user passes to SelectContext"""
    if isinstance(key, dict):
        tail = key["tail"]
        if tail == "stop":
            val = {}
        elif tail == "multi":
            val = {"x": 1, "y": 2}
        else:
            val = tail["key"] if tail["key"] is not None else 5
        for k in reversed(key["dict"]):
            val = {k: val}
        return val
    if isinstance(key, list):
        return list(key)
    return key


def _build(spec, memo=None):
    """JSON specification -> the Python value the user would write (may raise at construction).  Equal parts of a
    specification are ONE Python object (`cut = Not(f); Selector([cut, (cut, g)])`)."""
    if memo is None:
        memo = {}
    k = jdump(spec)
    if k not in memo:
        memo[k] = _build1(spec, memo)
    return memo[k]


def _build1(spec, memo):
    import lena.flow

    def _build(s):          # noqa: F811 - the parts share the memo
        return globals()["_build"](s, memo)
    t = spec["t"]
    sub = spec.get("sub")       # an instance of a subclass of str / list / tuple is a string / list / tuple
    if t == "str":
        return _Str(spec["s"]) if sub else spec["s"]
    if t == "cls":
        return _CLS[spec["c"]]
    if t == "fn":
        return _fn_obj(spec)
    if t == "list":
        return _L(_build(s) for s in spec["l"]) if sub else [_build(s) for s in spec["l"]]
    if t == "tuple":
        return _named_tuple(_build(s) for s in spec["l"]) if sub else tuple(_build(s) for s in spec["l"])
    if t == "not":
        return lena.flow.Not(_build(spec["s"]), raise_on_error=spec["roe"])
    if t == "sel":
        return lena.flow.Selector(_build(spec["s"]), raise_on_error=spec["roe"])
    if t == "and":
        items = [_build(s) for s in spec["l"]]
        return lena.flow.And(_named_tuple(items) if sub else tuple(items), raise_on_error=spec["roe"])
    if t == "or":
        items = [_build(s) for s in spec["l"]]
        return lena.flow.Or(_L(items) if sub else items, raise_on_error=spec["roe"])
    if t == "selctx":
        return lena.flow.SelectContext(_build_key(spec["key"]), _pred_obj(spec), raise_on_error=spec["roe"])
    if t == "bad":
        return 5
    raise ValueError(t)


def _value(v):
    d = v["d"]
    if isinstance(d, dict):
        d = _DATA_KINDS[d["k"]]() if "k" in d else (1, 2)
    if v["c"] is None:
        return d
    return (d, _mk(v["c"], v.get("o", 0)))


def _unvalue(val):
    """inverse of _value, for comparing yielded values"""
    if isinstance(val, tuple) and len(val) == 2 and isinstance(val[1], dict):
        d, c = val
    else:
        d, c = val, None
    if type(d) in _DATA_KIND_OF:
        d = {"k": _DATA_KIND_OF[type(d)]}
    elif isinstance(d, tuple):
        d = {"tuple": True}
    return {"d": d, "c": _unmk(c)}


def _out(f, *a):
    try:
        r = f(*a)
    except Exception as e:  # noqa: BLE001 - the exception class is the observation
        return {"e": exc_name(e)}
    if r is True or r is False:
        return r
    try:
        return bool(r)          # "selected" = the result is true (Filter, And, Or, Not, RunIf use it that way)
    except Exception as e:  # noqa: BLE001
        return {"e": exc_name(e)}


def _drain(thunk):
    """the values a (lazy) run yields and the exception that ended it; `thunk()` makes the generator"""
    kept, stop = [], None
    try:
        for v in thunk():
            kept.append(_unvalue(v))
    except Exception as e:  # noqa: BLE001
        stop = exc_name(e)
    return kept, stop


# ---------------------------------------------------------------------------------------------
# named context sets.  Keys: "a" and "ab" (one key is a string prefix of the other), "b" in the sampled scopes.

K1, K2, K3 = "a", "ab", "b"


@functools.lru_cache(maxsize=None)
def _ctxset(name):
    """a named, fixed list of contexts (cached: never mutate the result, copy the contexts before use)"""
    if name == "ab2":
        sub = [dict((k, v) for k, v in zip((K1, K2), vs) if v is not None)
               for vs in itertools.product([None, 1, 2, {}], repeat=2)]
        vals = [None, 1, 2] + sub
        return [dict((k, v) for k, v in zip((K1, K2), vs) if v is not None)
                for vs in itertools.product(vals, repeat=2)]
    if name == "ab2s":
        # a spread sample of ab2 (overlap scope)
        return _ctxset("ab2")[::9]
    if name == "falsy":
        # present but false values against absent ones, and type-strictness, at both keys
        vals = ["absent", 0, False, None, "", {}, 1, True, "1"]
        return [dict((k, v) for k, v in zip((K1, K2), vs) if v != "absent") for vs in itertools.product(vals, repeat=2)]
    raise ValueError(name)


def _contexts(case):
    return case["contexts"] if "contexts" in case else _ctxset(case["ctxset"])


# ---------------------------------------------------------------------------------------------
# generators

_U = ["obj", "U"]
_VALUES = [
    {"d": 3, "c": None},
    {"d": 0, "c": {K1: {K2: 1}}},
    {"d": "s", "c": None},
    {"d": True, "c": {K1: K2}, "o": 1},
    {"d": {"tuple": True}, "c": None},
    {"d": 1, "c": {}},
    {"d": None, "c": {K1: 1, K2: {K1: {}}}, "o": 1},
    {"d": "x", "c": {K2: 5}},
    {"d": -2, "c": {K1: {K2: {K1: 0}}, K2: K1}, "o": 2},
    # present but falsy sub-contexts, an object that is no JSON value
    {"d": 2, "c": {K1: {}, K2: 0}},
    {"d": 4, "c": {K1: {K2: None}, K2: ""}, "o": 1},
    {"d": 5, "c": {K1: {K2: _U}}},
    # data of further classes (a float, a user subclass of int, a dictionary, instances of user classes, a named tuple,
    # a Fraction: a Number by registration, not by inheritance); containers as context values
    {"d": {"k": "float"}, "c": None},
    {"d": {"k": "myint"}, "c": {K1: ["list", [K2, "1"]]}},
    {"d": {"k": "dict"}, "c": None},
    {"d": {"k": "usersub"}, "c": {K1: {K2: ["tuple", [1]]}, K2: ["set", [K1]]}, "o": 2},
    {"d": {"k": "frac"}, "c": {K1: {K2: ["list", ["1"]]}}},
    {"d": {"k": "point"}, "c": None},
]
_NV = 12       # values per exhaustively enumerated specification (a rotating window over _VALUES)
_DATA_JSON = [None, True, False, 0, 1, 2, -1, "s", "", {"tuple": True}] + [{"k": k} for k in sorted(_DATA_KINDS)]


def _S(s):
    return {"t": "str", "s": s}


def _C(c):
    return {"t": "cls", "c": c}


def _F(f):
    return {"t": "fn", "f": f}


_LEAVES4 = [_S("a.ab"), _C("int"), _F("true"), _F("pos")]
_LEAVES9 = [_S("a"), _S("a.ab"), _S("a.ab.1"), _C("int"), _C("str"), _F("true"), _F("false"), _F("inv"), _F("raise_lke")]
# leaves raising other exception classes, and leaves whose result is no bool
_LEAVES_EXC = [_F(n) for n in ("raise_attr", "raise_val", "raise_rt", "raise_assert", "raise_custom", "raise_key", "raise_os",
                               "raise_stop", "raise_lte", "raise_lve")]
_LEAVES_VAL = [_F(n) for n in ("five", "zero", "empty", "xstr", "none", "data")]
_FNS = ["true", "false", "raise_zde", "raise_lke", "raise_lte", "raise_lve", "pos", "inv", "has_ctx", "raise_attr", "raise_val", "raise_rt",
        "raise_assert", "raise_custom", "raise_key", "raise_os", "raise_stop", "five", "zero", "empty", "xstr", "none", "data", "b_len"]

_KEY_FORMS = ["a", "a.ab", "ab", "", "a.ab.a", "ab.a", ["a"], ["a", "ab"], [], "a..ab", "c",
              {"dict": ["a"], "tail": "stop"}, {"dict": ["a"], "tail": {"key": "ab"}}, {"dict": ["a", "ab"], "tail": "stop"},
              {"dict": [], "tail": "stop"}, {"dict": ["a"], "tail": "multi"}, {"dict": [], "tail": "multi"},
              {"dict": ["a"], "tail": {"key": None}}, ["a", 5]]
_PREDS = ["true", "false", "raise_zde", "isdict", "pos", "eq1", "ident", "raise_attr", "raise_custom", "raise_stop",
          "raise_lke", "raise_lte", "raise_lve"]


_NEW_PREDS = sorted(_PRED_BUILTINS)


def _selctx(key, pred, roe, kind=None):
    """a SelectContext specification; a class / builtin predicate says what it is, another one may be given a kind"""
    s = {"t": "selctx", "key": key, "pred": pred, "roe": roe}
    if pred in _PRED_BUILTINS:
        s["as"] = _PRED_BUILTINS[pred][1]
    elif kind:
        s["as"] = kind
    return s


# values for the predicates of every kind: sub-contexts that are numbers, flags, strings (integer and float literals,
# the empty string), None, dictionaries (empty and not), an object; absent ones; no containers (see _PREDS_INSIDE)
_PVALUES = [
    {"d": 1, "c": {K1: 1, K2: "1"}},
    {"d": 2, "c": {K1: 0, K2: ""}, "o": 1},
    {"d": 3, "c": {K1: True, K2: "ab"}},
    {"d": "s", "c": {K1: {K2: 1}, K2: None}, "o": 2},
    {"d": None, "c": {K1: {K2: "1e3"}, K2: 2}},
    {"d": 0, "c": {K1: {}, K2: False}},
    {"d": True, "c": {K1: "1.5", K2: {K1: 1}}, "o": 1},
    {"d": {"k": "float"}, "c": {K1: None}},
    {"d": 4, "c": {K1: _U, K2: -1}},
    {"d": 5, "c": {K1: {K2: {}}}},
    {"d": 6, "c": {}},
    {"d": 7, "c": None},
    {"d": {"tuple": True}, "c": {K1: -2, K2: "0"}, "o": 2},
    {"d": "", "c": {K1: {K2: 0, K1: "ab"}, K2: "-3"}},
    {"d": 8, "c": {K1: {K2: ""}, K2: 1}},
    {"d": 9, "c": {K1: {K2: True}, K2: {}}},
]


def _no_containers(c):
    """the JSON context with every list / tuple / set value replaced by its first item"""
    if isinstance(c, dict):
        return {k: _no_containers(v) for k, v in c.items()}
    if isinstance(c, list) and c and c[0] in _CONTAINER_LEAVES:
        return c[1][0]
    return c


def _looks_inside(s):
    """does the specification hold a predicate that looks inside a container found in a context?"""
    if s["t"] == "selctx":
        return s["pred"] in _PREDS_INSIDE
    return any(_looks_inside(x) for x in list(s.get("l", [])) + ([s["s"]] if isinstance(s.get("s"), dict) else []))


def _vals_for(vals, *specs):
    if any(_looks_inside(s) for s in specs):
        return [dict(v, c=_no_containers(v["c"])) for v in vals]
    return vals


def _level(items, with_not=True):
    """all lists/tuples of 1-2 items and Not(item, roe) over the given specifications"""
    out = []
    for t in ("list", "tuple"):
        out.append({"t": t, "l": []})
        for a in items:
            out.append({"t": t, "l": [a]})
        for a in items:
            for b in items:
                out.append({"t": t, "l": [a, b]})
    if with_not:
        for a in items:
            for roe in (True, False):
                out.append({"t": "not", "s": a, "roe": roe})
    return out


# containers as context values (never empty; a set has one element: its str() does not depend on the hash seed)
_CLEAVES = (["list", ["ab", "1"]], ["list", [1]], ["tuple", ["ab"]], ["tuple", [1, "a"]], ["set", ["ab"]], ["set", [1]])


def _rand_ctx(rng, keys, depth, leaves=(1, 2, None, True, "ab", 0, "1")):
    d = {}
    for k in keys:
        r = rng.random()
        if r < 0.4:
            continue
        if r < 0.75 or depth <= 1:
            d[k] = rng.choice(leaves) if rng.random() < 0.85 else {}
        else:
            d[k] = _rand_ctx(rng, keys, depth - 1, leaves)
    return d


def _rand_selctx(rng):
    key = rng.choice(_KEY_FORMS + ["a", "a.ab", "ab", ["ab", "a"]])
    # the predicate: a function, a class / builtin, or a function as a callable object of another kind
    r = rng.random()
    if r < 0.3:
        return _selctx(key, rng.choice(_NEW_PREDS), rng.random() < 0.5)
    kind = rng.choice(_AS_KINDS + ["selector"]) if r < 0.55 else None
    return _selctx(key, rng.choice(_PREDS), rng.random() < 0.5, kind)


def _rand_fn(rng):
    f = _F(rng.choice(_FNS))
    if rng.random() < 0.3:
        f["as"] = rng.choice(_AS_KINDS) if f["f"] != "b_len" else "builtin"
    return f


def _sub(rng, spec):
    """sometimes the string / list / tuple is an instance of a subclass (a named tuple, a list subclass)"""
    if rng.random() < 0.25:
        spec["sub"] = True
    return spec


def _rand_spec(rng, depth):
    r = rng.random()
    if depth <= 0 or r < 0.3:
        k = rng.random()
        if k < 0.3:
            return _sub(rng, _S(rng.choice(["a", "ab", "a.ab", "a.ab.1", "ab.a", "a.ab.a", "", "a.", "c", "a.ab.U", "a.None", "b",
                                            "a.a", "a.['ab']", "a.ab.[1]"])))
        if k < 0.5:
            return _C(rng.choice(list(_CLS)))
        if k < 0.9:
            return _rand_fn(rng)
        if k < 0.97:
            return _rand_selctx(rng)
        return {"t": "bad"}
    n = rng.choice([0, 1, 1, 2, 2, 3])
    if r < 0.5:
        return _sub(rng, {"t": "list", "l": [_rand_spec(rng, depth - 1) for _ in range(n)]})
    if r < 0.7:
        return _sub(rng, {"t": "tuple", "l": [_rand_spec(rng, depth - 1) for _ in range(n)]})
    if r < 0.85:
        return {"t": "not", "s": _rand_spec(rng, depth - 1), "roe": rng.random() < 0.5}
    if r < 0.9:
        return {"t": "sel", "s": _rand_spec(rng, depth - 1), "roe": rng.random() < 0.5}
    if r < 0.95:
        return _sub(rng, {"t": "and", "l": [_rand_spec(rng, depth - 1) for _ in range(n)], "roe": rng.random() < 0.5})
    return _sub(rng, {"t": "or", "l": [_rand_spec(rng, depth - 1) for _ in range(n)], "roe": rng.random() < 0.5})


def _rand_values(rng, n_extra=3, lo=1, hi=None):
    vals = list(_VALUES)
    for _ in range(n_extra):
        d = rng.choice(_DATA_JSON)
        c = None if rng.random() < 0.2 else _rand_ctx(rng, (K1, K2), 3, leaves=(1, 2, None, True, "ab", 0, "1", "", _U) + _CLEAVES)
        vals.append({"d": d, "c": c, "o": rng.randrange(3)})
    rng.shuffle(vals)
    return vals[:rng.randint(lo, hi or len(vals))]


def _rot(vals, i):
    """the fixed values, rotated: an exception on an early value must not hide the later ones in every case"""
    i %= len(vals)
    return vals[i:] + vals[:i]


_PATHS_AB2 = ["a", "ab", "a.a", "a.ab", "ab.a", "ab.ab"]


def _keysets_ab2():
    for root_in_group in (True, False):
        for assign in itertools.product((0, 1, 2), repeat=len(_PATHS_AB2)):
            g = [p for p, a in zip(_PATHS_AB2, assign) if a == 1]
            m = [p for p, a in zip(_PATHS_AB2, assign) if a == 2]
            (g if root_in_group else m).insert(0, "")
            yield g, m


def _keysets_ab2_overlap():
    """every assignment of the six paths to group_by / merge / both / neither with at least one path in both"""
    for root_in_group in (True, False):
        for assign in itertools.product((0, 1, 2, 3), repeat=len(_PATHS_AB2)):
            if 3 not in assign:
                continue
            g = [p for p, a in zip(_PATHS_AB2, assign) if a in (1, 3)]
            m = [p for p, a in zip(_PATHS_AB2, assign) if a in (2, 3)]
            (g if root_in_group else m).insert(0, "")
            yield g, m


_RKEYS = (K1, K2, K3)


def _rand_keyset(rng):
    keys = _RKEYS
    paths = []
    for _ in range(rng.choice([0, 1, 1, 2, 2, 3, 4])):
        if paths and rng.random() < 0.6:
            # extend a listed path: that is how properly nested sets arise
            p = rng.choice(paths) + "." + rng.choice(keys)
            if p.count(".") > 2:
                p = rng.choice(keys)
        else:
            p = ".".join(rng.choice(keys) for _ in range(rng.choice([1, 1, 2, 3])))
        paths.append(p)
    g, m = [], []
    for p in paths:
        r = rng.random()
        # alternate polarity with depth most of the time (properly nested), otherwise anything
        if r < 0.7:
            anc = [q for q in paths if p.startswith(q + ".")]
            (m if len(anc) % 2 == 0 else g).append(p)
        elif r < 0.85:
            g.append(p)
        else:
            m.append(p)
    if rng.random() < 0.5:
        g, m = m, g
    r = rng.random()
    if r < 0.47:
        g.append("")
    elif r < 0.94:
        m.append("")
    elif r < 0.97:
        g.append("")
        m.append("")
    if rng.random() < 0.03:
        (g if rng.random() < 0.5 else m).append(rng.choice(["a..ab", ".a", "a."]))
    if rng.random() < 0.08 and g:
        m.append(rng.choice(g))      # overlap: outside the partition oracle, compared with model and specification
    rng.shuffle(g)
    rng.shuffle(m)

    def form(l):
        if len(l) == 1 and rng.random() < 0.5:
            return l[0]
        if rng.random() < 0.15:
            return {"list": l}
        return l
    g, m = form(g), form(m)
    if rng.random() < 0.02:
        if rng.random() < 0.5:
            g = {"notiter": True}
        else:
            m = {"notiter": True}
    return g, m


_KEYFNS = ["parity", "name", "zero", "const", "keyerr", "sign"]
_SEQS = ["ident", "dup", "drop", "tag"]


def _subrng(rng):
    return random.Random(rng.random())


def _round_robin(gens):
    gens = [iter(g) for g in gens]
    while gens:
        alive = []
        for g in gens:
            try:
                yield next(g)
                alive.append(g)
            except StopIteration:
                pass
        gens = alive


def _gen_select_exhaustive(ctx, rng):
    lvl1_4 = _LEAVES4 + _level(_LEAVES4)
    deep = _level(lvl1_4)
    if ctx.tier == "quick":
        deep = rng.sample(deep, len(deep) // 2)      # the thorough tier runs all of them
    specs = list(_LEAVES9) + _level(_LEAVES9) + deep
    seen = set()
    for i, s in enumerate(specs):
        k = jdump(s)
        if k in seen:
            continue
        seen.add(k)
        vals = _rot(_VALUES, i)[:_NV]
        for roe in (True, False):
            yield {"op": "select", "spec": s, "roe": roe, "top": "selector", "values": vals}
        yield {"op": "select", "spec": s, "roe": True, "top": "filter", "values": vals}


def _gen_select_special(ctx):
    # every exception class and every kind of result, bare, in containers, under Not, with both settings
    i = 0
    for leaf in _LEAVES_EXC + _LEAVES_VAL:
        for s in [leaf, {"t": "list", "l": [leaf]}, {"t": "tuple", "l": [_C("int"), leaf]}, {"t": "list", "l": [_F("false"), leaf]},
                  {"t": "not", "s": leaf, "roe": False}, {"t": "not", "s": leaf, "roe": True},
                  {"t": "sel", "s": leaf, "roe": False}, {"t": "tuple", "l": [{"t": "sel", "s": leaf, "roe": True}]},
                  {"t": "and", "l": [leaf], "roe": False}, {"t": "or", "l": [leaf, _F("true")], "roe": True}]:
            i += 1
            for roe in (True, False):
                yield {"op": "select", "spec": s, "roe": roe, "top": "selector", "values": _rot(_VALUES, i)[:6]}
            yield {"op": "select", "spec": s, "roe": True, "top": "filter", "values": _rot(_VALUES, i)[:6]}
    # SelectContext on every key form, directly and inside other selectors
    for key in _KEY_FORMS:
        for pred in _PREDS:
            for roe in (True, False):
                i += 1
                s = {"t": "selctx", "key": key, "pred": pred, "roe": roe}
                yield {"op": "select", "spec": s, "roe": True, "top": "filter", "values": _rot(_VALUES, i)[:_NV]}
                if pred in ("true", "raise_zde", "eq1", "ident", "raise_lke"):
                    yield {"op": "select", "spec": {"t": "list", "l": [s, _F("false")]}, "roe": not roe,
                           "top": "selector", "values": _rot(_VALUES, i)[:_NV]}
                    yield {"op": "select", "spec": {"t": "not", "s": s, "roe": not roe}, "roe": roe,
                           "top": "filter", "values": _rot(_VALUES, i)[:_NV]}
    for s in [{"t": "bad"}, {"t": "list", "l": [_F("true"), {"t": "bad"}]}, {"t": "not", "s": {"t": "bad"}, "roe": True},
              {"t": "tuple", "l": [{"t": "list", "l": [{"t": "bad"}]}]}]:
        for top in ("selector", "filter"):
            yield {"op": "select", "spec": s, "roe": True, "top": top, "values": _VALUES[:2]}
    # Not-chains of depth <= 3, every raise_on_error combination, over raising / total / partial inner selectors
    inner = []
    for leaf in (_F("raise_zde"), _F("true"), _F("inv")):
        inner.append(leaf)
        for r in (True, False):
            inner.append({"t": "sel", "s": leaf, "roe": r})
    for base in inner:
        for depth in (1, 2, 3):
            for roes in itertools.product((True, False), repeat=depth):
                s = base
                for r in roes:
                    s = {"t": "not", "s": s, "roe": r}
                for roe in (True, False):
                    yield {"op": "select", "spec": s, "roe": roe, "top": "selector", "values": _VALUES[:6]}
                yield {"op": "select", "spec": s, "roe": True, "top": "filter", "values": _VALUES[:6]}
                if depth <= 2:
                    for cont in ("list", "tuple"):
                        for roe in (True, False):
                            yield {"op": "select", "spec": {"t": cont, "l": [s, _C("int")]}, "roe": roe, "top": "selector",
                                   "values": _VALUES[:6]}


def _gen_select_classes(ctx):
    """a class tests the type of the data: every class (concrete, user-defined, abstract base classes) on data of
    every kind, bare and with a context; as a leaf, in a list, in a tuple, under Not.  Strings, lists and tuples that
    are instances of subclasses (a named tuple is a tuple: AND; a list subclass is a list: OR)."""
    datas = [{"d": d, "c": None if i % 3 else {K1: i}} for i, d in enumerate(_DATA_JSON)]
    for i, c in enumerate(sorted(_CLS)):
        leaf = _C(c)
        for s in (leaf, {"t": "list", "l": [_F("false"), leaf]}, {"t": "tuple", "l": [leaf, _F("true")], "sub": i % 2 == 0},
                  {"t": "not", "s": leaf, "roe": True}):
            yield {"op": "select", "spec": s, "roe": i % 2 == 0, "top": "selector", "values": datas}
        yield {"op": "select", "spec": leaf, "roe": True, "top": "filter", "values": datas}
    subs = [
        {"t": "tuple", "l": [_C("int"), _F("pos")], "sub": True},
        {"t": "list", "l": [_C("str"), _F("pos")], "sub": True},
        {"t": "list", "l": [_C("str"), {"t": "tuple", "l": [_C("int"), _F("pos")], "sub": True}], "sub": True},
        {"t": "tuple", "l": [], "sub": True}, {"t": "list", "l": [], "sub": True},
        {"t": "str", "s": "a.ab", "sub": True}, {"t": "list", "l": [{"t": "str", "s": "a", "sub": True}, _C("str")]},
        {"t": "and", "l": [_C("int"), _F("inv")], "roe": False, "sub": True},
        {"t": "or", "l": [_F("inv"), _C("str")], "roe": False, "sub": True},
        {"t": "not", "s": {"t": "tuple", "l": [_C("int"), _F("pos")], "sub": True}, "roe": True},
        {"t": "tuple", "l": [{"t": "list", "l": [_F("raise_zde"), _C("int")], "sub": True}, _F("true")]},
    ]
    for i, s in enumerate(subs):
        for top, roe in (("selector", True), ("selector", False), ("filter", True)):
            yield {"op": "select", "spec": s, "roe": roe, "top": top, "values": _rot(_VALUES, 3 * i)[:_NV]}
        yield {"op": "filterseq", "a": s, "b": _C("object"), "values": _rot(_VALUES, i)[:_NV]}
        yield {"op": "runif", "spec": s, "seq": "dup", "values": _rot(_VALUES, i)[:_NV]}


def _gen_select_callables(ctx):
    """any callable is a predicate of SelectContext / a leaf of Selector: classes (bool, int, float, str, dict, list, a
    user class), builtins, bound methods, partial objects, instances with __call__, callable strings / lists / tuples,
    lena selectors - on every kind of sub-context, present and absent, both raise_on_error settings, directly and
    inside other selectors"""
    keys = ["a", "a.ab", "ab", "", ["a", "ab"], {"dict": ["a"], "tail": "stop"}, "c"]
    i = 0
    for pred in _NEW_PREDS:
        for key in keys:
            for roe in (True, False):
                i += 1
                s = _selctx(key, pred, roe)
                vals = _rot(_PVALUES, i)
                yield {"op": "select", "spec": s, "roe": True, "top": "filter", "values": vals}
                yield {"op": "select", "spec": s, "roe": not roe, "top": "selector", "values": vals}
                if key in ("a", "a.ab", "ab"):
                    yield {"op": "select", "spec": {"t": "list", "l": [_F("false"), s]}, "roe": not roe, "top": "selector",
                           "values": vals}
                    yield {"op": "select", "spec": {"t": "not", "s": s, "roe": roe}, "roe": True, "top": "filter", "values": vals}
                    yield {"op": "select", "spec": {"t": "tuple", "l": [s, _C("int")], "sub": i % 2 == 0}, "roe": roe,
                           "top": "selector", "values": vals}
    # the functions of the tables as callable objects of the other kinds
    for kind in _AS_KINDS + ["selector"]:
        for pred in _PREDS:
            for key in ("a", "a.ab", ""):
                for roe in (True, False):
                    i += 1
                    s = _selctx(key, pred, roe, kind)
                    yield {"op": "select", "spec": s, "roe": True, "top": "filter", "values": _rot(_PVALUES, i)[:_NV]}
                    if key == "a":
                        yield {"op": "select", "spec": {"t": "list", "l": [s, _F("false")]}, "roe": not roe, "top": "selector",
                               "values": _rot(_VALUES, i)[:_NV]}
    for kind in _AS_KINDS + ["builtin"]:
        for f in (_FNS if kind != "builtin" else ["b_len"]):
            if f == "b_len" and kind != "builtin":
                continue
            i += 1
            leaf = dict(_F(f), **{"as": kind})
            vals = _rot(_VALUES, i)[:_NV]
            for roe in (True, False):
                yield {"op": "select", "spec": leaf, "roe": roe, "top": "selector", "values": vals}
            yield {"op": "select", "spec": leaf, "roe": True, "top": "filter", "values": vals}
            yield {"op": "select", "spec": {"t": "list", "l": [leaf, _S("a.ab")]}, "roe": i % 2 == 0, "top": "selector", "values": vals}
            yield {"op": "select", "spec": {"t": "tuple", "l": [_C("int"), leaf], "sub": i % 2 == 1}, "roe": i % 2 == 1,
                   "top": "selector", "values": vals}
            if f in ("pos", "inv", "true", "raise_zde", "data", "b_len"):
                yield {"op": "select", "spec": {"t": "not", "s": leaf, "roe": i % 2 == 0}, "roe": True, "top": "filter", "values": vals}
                yield {"op": "filterseq", "a": leaf, "b": _C("object"), "values": vals}
                yield {"op": "runif", "spec": leaf, "seq": "dup", "values": vals}


def _gen_select_random(ctx, rng, n):
    for _ in range(n):
        top = "filter" if rng.random() < 0.3 else "selector"
        spec = _rand_selctx(rng) if top == "filter" and rng.random() < 0.15 else _rand_spec(rng, 3)
        yield {"op": "select", "spec": spec, "roe": rng.random() < 0.5, "top": top,
               "values": _vals_for(_rand_values(rng, hi=8), spec)}


def _gen_filterseq(ctx, rng, n):
    for i, a in enumerate(_LEAVES9 + [_F("raise_stop"), _F("five")]):
        for b in _LEAVES9 + [_F("raise_stop"), _F("zero")]:
            yield {"op": "filterseq", "a": a, "b": b, "values": _rot(_VALUES, i)[:_NV]}
    for _ in range(n):
        a, b = _rand_spec(rng, 2), _rand_spec(rng, 2)
        yield {"op": "filterseq", "a": a, "b": b, "values": _vals_for(_rand_values(rng, hi=8), a, b)}


def _gen_runif(ctx, rng, n):
    sels = _LEAVES9 + [{"t": "list", "l": [_C("int"), _S("a.ab")]}, {"t": "not", "s": _F("inv"), "roe": False},
                      {"t": "selctx", "key": "a.ab", "pred": "eq1", "roe": True}, {"t": "bad"}, _F("raise_stop"), _F("data")]
    for i, s in enumerate(sels):
        for seq in _SEQS:
            yield {"op": "runif", "spec": s, "seq": seq, "values": _rot(_VALUES, i)[:_NV]}
    for _ in range(n):
        spec = _rand_spec(rng, 2)
        yield {"op": "runif", "spec": spec, "seq": rng.choice(_SEQS), "values": _vals_for(_rand_values(rng, hi=8), spec)}


def _gen_groupby_exhaustive(ctx, rng):
    sets = list(_keysets_ab2())
    modes = ("idx", "desc", "str")      # the data of the values: positions, descending numbers, strings
    for i, (g, m) in enumerate(sets):
        yield {"op": "groupby", "group_by": g, "merge": m, "ctxset": "ab2", "data": modes[i % 3]}
    # false values against absent ones and type-strictness at selected paths
    if ctx.tier == "quick":
        sets = rng.sample(sets, 300)
    for i, (g, m) in enumerate(sets):
        yield {"op": "groupby", "group_by": g, "merge": m, "ctxset": "falsy", "data": modes[i % 3]}


def _gen_groupby_overlap(ctx, rng):
    sets = list(_keysets_ab2_overlap())
    if ctx.tier == "quick":
        sets = rng.sample(sets, 800)
    for i, (g, m) in enumerate(sets):
        yield {"op": "groupby", "group_by": g, "merge": m, "ctxset": "ab2s", "data": ("idx", "desc", "str")[i % 3]}


def _gen_groupby_special(ctx):
    # argument forms, defaults, duplicates, improper keys, overlaps, callables, aliases, unserialisable objects
    some_ctx = list(_ctxset("ab2")[::7])
    orders = [i % 3 for i in range(len(some_ctx) + 1)]
    nt = {"notiter": True}
    for g, m in [("", ""), ("a", ""), ("", "a"), ("a.ab", ""), ("", "a.ab"), (["a", "a"], ""), ("", ["a", "a"]),
                 ([""], ["a", "a.ab"]), (["", "a.ab"], ["a", "a"]), ("a..ab", ""), ("", ".a"), ("a.", ""),
                 ("a", "a"), ("", ["a", ""]), (["", "a"], ["a"]), (["a"], ["", "a"]), ([], []), ([], [""]), ([""], []),
                 (["", "a.ab"], ["a"]), (["a"], ["", "a.ab"]), (["", "a.ab.a"], ["a.ab"]), (["", "a.ab"], ["a", "ab"]),
                 (nt, ""), ("", nt), (nt, nt), (nt, "a"), (["", "a"], nt), (nt, ["a..ab"]), ("a..ab", nt)]:
        for via, end in (("fill", "reset"), ("update", "clear")):
            yield {"op": "groupby", "group_by": g, "merge": m, "contexts": some_ctx + [None], "orders": orders, "via": via,
                   "end": end}
    # every combination of the spellings of "nothing", "the root", and keys — string, tuple, list, empty containers;
    # the same dictionary in two insertion orders; a key that is a string prefix of another
    forms = ["", [], {"list": []}, [""], {"list": [""]}, "a", ["a"], {"list": ["a"]}, ["", "a"], ["a", "ab"], "a.ab",
             ["", "a.ab"], {"list": ["", "ab"]}]
    vals = [{"a": 1}, {"a": 2}, {"a": 1, "ab": 1}, {}, None, {"a": {"ab": 1, "a": 2}}, {"a": {"ab": 2}}, {"ab": 1}, {"a": 1},
            {"ab": 1, "a": 1}, {"a": {"a": 2, "ab": 1}}, {"ab": 2}]
    vorders = [0, 0, 0, 0, 0, 0, 0, 0, 1, 1, 1, 2]
    for g in forms:
        for m in forms:
            yield {"op": "groupby", "group_by": g, "merge": m, "contexts": vals, "orders": vorders}
    # the flow itself: equal values filled several times, data in no particular order, bare values that are pairs,
    # sources that re-use one context dictionary and update it in place; arguments that are instances of subclasses
    ctxs = [{"a": 1, "ab": 1}, {"a": 2, "ab": 1}, {"a": 1, "ab": 1}, {"a": 1, "ab": 2}, {"a": 2, "ab": 1}, {"a": 1, "ab": 1},
            {"a": {"ab": 1}}, {"a": {"ab": 2}}, {"a": {"ab": 1}}, {}, None, {}, None, {"a": 2, "ab": 2}]
    nn = len(ctxs)
    flows = [
        {"data": [5] * nn}, {"data": [i % 2 for i in range(nn)]}, {"data": "desc"}, {"data": "str"},
        {"data": [(i * 5) % 7 - 3 for i in range(nn)]}, {"data": ["x", None, "x", 3, None, "x", 1, 1, 1, "", "", "", 0, 0]},
        {"data": [{"pair": [i, i + 1]} for i in range(nn)]}, {"data": [{"pair": [1, 2]}] * nn},
        {"data": [{"pair": ["x", None]}, 1] * (nn // 2)},
        {"alias": [None if c is None else 0 for c in ctxs]}, {"alias": [None if c is None else i % 2 for i, c in enumerate(ctxs)]},
        {"alias": [None if c is None else i // 3 for i, c in enumerate(ctxs)], "data": "desc"},
        {"alias": [None if c is None else 0 for c in ctxs], "data": [1] * nn},
        {"data": [5] * nn, "same": True}, {"data": [i % 2 for i in range(nn)], "same": True},
    ]
    for g, m in [("a", ""), ("", "a"), ("", ""), ("ab", ""), ("", "ab"), (["", "a.ab"], ["a"]), (["a"], ["", "a.ab"]), ("a.ab", ""),
                 ({"strsub": "a"}, ""), ("", {"strsub": "a"}), ({"tuplesub": ["a"]}, {"strsub": ""}),
                 ({"tuplesub": ["", "a.ab"]}, {"tuplesub": ["a"]}), ({"strsub": ""}, {"strsub": ""}), ({"tuplesub": []}, "")]:
        for k, fl in enumerate(flows):
            c = dict({"op": "groupby", "group_by": g, "merge": m, "contexts": ctxs, "orders": [(i + k) % 3 for i in range(nn)]}, **fl)
            if k % 4 == 3:
                c["via"], c["end"] = "update", "clear"
            yield c
    objs = [{"a": 1, "ab": _U}, {"a": _U}, {"a": {"ab": _U, "a": 1}}, {"a": {"a": 1}, "ab": {"ab": _U}}, {"a": 1}, {"ab": 2},
            {"a": {"ab": 1, "a": _U}}, None]
    for g, m in [("a", ""), ("", "a"), ("", "ab"), ("a.a", ""), ("", "a.ab"), (["", "a.ab"], ["a"]), ("", ""), ("ab", ""),
                 (["", "a"], ["a"])]:
        yield {"op": "groupby", "group_by": g, "merge": m, "contexts": objs}


def _gen_groupby_random(ctx, rng, n):
    for _ in range(n):
        g, m = _rand_keyset(rng)
        k = rng.choice([2, 2, 3, 3, 4, 5, 6, 8, 12, 24])
        leaves = (1, 2, True, "1", None, 0, "", _U) if rng.random() < 0.2 else (1, 2, True, "1", None, 0, "")
        if rng.random() < 0.12:
            # lists as context values (JSON arrays for to_string): opaque values, compared as wholes.  The model has no
            # such leaves: these cases are judged by the oracle alone (model_requests sends nothing)
            leaves = (1, "1", None, ["list", [1]], ["list", ["1"]], ["list", [1, 2]], ["list", ["a", "ab"]], ["list", ["a"]])
        cs = [None if rng.random() < 0.03 else _rand_ctx(rng, _RKEYS, 3, leaves=leaves) for _ in range(k)]
        # the same logical context once more (it will be built with another insertion order)
        for _ in range(rng.choice([0, 1, 2])):
            cs.append(rng.choice(cs))
        c = {"op": "groupby", "group_by": g, "merge": m, "contexts": cs, "orders": [rng.randrange(3) for _ in cs]}
        if rng.random() < 0.1:
            c["via"], c["end"] = "update", "clear"
        # the data of the values: positions, other orders, few distinct data (equal values several times), pairs
        r = rng.random()
        if r < 0.15:
            c["data"] = rng.choice(["desc", "str"])
        elif r < 0.3:
            c["data"] = rng.sample(range(-len(cs), len(cs)), len(cs))
        elif r < 0.5:
            pool = rng.choice([[0], [0, 1], [1, "x", None], [{"pair": [1, 2]}, 3]])
            c["data"] = [rng.choice(pool) for _ in cs]
        elif r < 0.6:
            c["data"] = [{"pair": [rng.choice([i, "p", None]), rng.choice([i, 0, "q"])]} if rng.random() < 0.6 else i
                         for i in range(len(cs))]
            for i in range(len(cs)):
                if rng.random() < 0.3:
                    cs[i] = None          # a bare value that is a pair (a two-dimensional point)
        # a source that keeps one dictionary (or a few) and updates it in place for every value
        if rng.random() < 0.25:
            k = rng.choice([1, 1, 2, 3])
            c["alias"] = [None if x is None or rng.random() < 0.1 else rng.randrange(k) for x in cs]
        elif rng.random() < 0.2:
            c["same"] = True          # an equal value is the same object, filled again
        yield c


def _gen_old(ctx, rng, n):
    data = [1, 2, 3, -1, 0, "x", "y", None, 4, "x"]
    yield {"op": "oldgroupby", "group_by": {"bad": True}, "values": [{"d": 1, "c": None}]}
    gbs = list(_KEYFNS) + [[a] for a in _KEYFNS] + [[a, b] for a in _KEYFNS for b in _KEYFNS]
    for gb in gbs:
        yield {"op": "oldgroupby", "group_by": gb, "values": [{"d": d, "c": None} for d in data]}
    for _ in range(n):
        gb = [rng.choice(_KEYFNS) for _ in range(rng.randint(1, 3))]
        if len(gb) == 1 and rng.random() < 0.5:
            gb = gb[0]
        vals = [{"d": rng.choice(data), "c": None if rng.random() < 0.7 else {"a": 1}} for _ in range(rng.randint(0, 12))]
        c = {"op": "oldgroupby", "group_by": gb, "values": vals}
        if rng.random() < 0.3:
            c["via"], c["end"] = "update", "clear"
        yield c


def _gen_small(ctx):
    strings = ["", "a", "ab", "a.ab", "a.ab.1", "a.1", "a.", ".a", "a..ab", "c", "a.ab.c", "a.None", "a.True", "a.U", "ab.a",
               "a.ab.a", "a.a", "b", "a.b", "a.['ab', '1']", "a.('ab',)", "ab.['a']", "a.ab.[1]"]
    # containers as values: contains compares str(value) with the last part, it never looks inside
    leaves = [None, 1, True, "ab", _U, {}, {"ab": 1}, {"ab": {"a": 1}}, {"a": "1", "ab": None}, {"ab": _U}, "a", "abc",
              ["list", ["ab", "1"]], ["tuple", ["ab"]], ["set", ["ab"]], {"ab": ["list", [1]]}, ["list", ["a"]]]
    leaves_b = [None, 1, "ab", {"a": 1}, ["list", ["a"]], {"ab": _U}]
    ctxs = []
    for va in leaves + ["absent"]:
        for vb in leaves_b + ["absent"]:
            c = {}
            if va != "absent":
                c["a"] = va
            if vb != "absent":
                c["ab"] = vb
            ctxs.append(c)
    for i, c in enumerate(ctxs):
        for s in strings:
            yield {"op": "contains", "ctx": c, "s": s, "o": i % 3}
    for s in ["", "a", "a.ab", "a..ab", ".a", "a.", ".", "a.ab.c", "abc", ".."]:
        yield {"op": "splitkey", "s": s}
    words = [[], ["a"], ["ab"], ["a", "ab"], ["a", "a"], ["a", "ab", "c"], ["ab", "a"]]
    for a in words:
        for b in words:
            yield {"op": "startswith", "a": a, "b": b}


def gen_cases(ctx):
    ctx.exhaustive = False   # the deeper scopes are sampled
    rng = ctx.rng
    quick = ctx.tier == "quick"
    r = [_subrng(rng) for _ in range(12)]
    cheap = [
        _gen_small(ctx),
        _gen_select_special(ctx),
        _gen_select_classes(ctx),
        _gen_select_callables(ctx),
        _gen_groupby_special(ctx),
        _gen_old(ctx, r[0], 150 if quick else 4000),
        _gen_filterseq(ctx, r[1], 300 if quick else 8000),
        _gen_runif(ctx, r[2], 200 if quick else 5000),
        _gen_select_random(ctx, r[4], 1800 if quick else 100000),
        _gen_groupby_random(ctx, r[5], 700 if quick else 40000),
        _gen_select_exhaustive(ctx, r[6]),
    ]
    # cases with many contexts each come last: a quick run on a changed tree adds a sample of the first 150 000 cases of
    # the thorough generator, which must stay cheap (the quick tier has these scopes itself)
    heavy = [_gen_groupby_overlap(ctx, r[3]), _gen_groupby_exhaustive(ctx, r[7])]
    if quick:
        return _round_robin(cheap + heavy)
    cheap_rr = _round_robin(cheap)
    return itertools.chain(itertools.islice(cheap_rr, 150000), _round_robin([cheap_rr] + heavy))


# ---------------------------------------------------------------------------------------------
# the real code

class _Dup(object):
    def run(self, flow):
        for v in flow:
            yield v
            yield v


def _seq_args(name):
    import lena.flow
    if name == "ident":
        return ()
    if name == "dup":
        return (_Dup(),)
    if name == "drop":
        return (lena.flow.Filter(lambda v: False),)
    if name == "tag":
        return (lambda val: ("t", lena.flow.get_context(val)),)
    raise ValueError(name)


def _keyfn_table():
    import lena.core
    import lena.flow

    def name(v):
        d = lena.flow.get_data(v)
        if isinstance(d, str):
            return d
        raise lena.core.LenaKeyError("no name")

    def keyerr(v):
        raise lena.core.LenaKeyError("never")

    def sign(v):
        d = lena.flow.get_data(v)
        if isinstance(d, int):
            return (d > 0) - (d < 0)
        return None

    return {"parity": lambda v: lena.flow.get_data(v) % 2, "name": name, "zero": lambda v: 0, "const": lambda v: "k",
            "keyerr": keyerr, "sign": sign}


def _arg_items(x):
    """the strings of a group_by / merge argument in its JSON form: "s" -> ["s"]; [..] (a tuple) and {"list": [..]} (a
    list) -> the items; {"notiter": true} (a callable) -> None"""
    x = _plain_arg(x)
    if isinstance(x, dict):
        return list(x["list"]) if "list" in x else None
    return [x] if isinstance(x, str) else list(x)


def _plain_arg(x):
    """{"strsub": s} (an instance of a subclass of str) is the string s, {"tuplesub": [..]} (a named tuple) the tuple"""
    if isinstance(x, dict) and "strsub" in x:
        return x["strsub"]
    if isinstance(x, dict) and "tuplesub" in x:
        return list(x["tuplesub"])
    return x


def _gb_data(case, i, n):
    """the data of the i-th of the n values of a groupby case (JSON form): by default its index"""
    d = case.get("data")
    if d is None or d == "idx":
        return i
    if isinstance(d, list):
        return d[i]
    if d == "desc":
        return n - 1 - i
    if d == "str":
        return str(i)        # "10" < "9": no order of the data is the arrival order
    raise ValueError(d)


def _gb_pydata(j):
    return tuple(j["pair"]) if isinstance(j, dict) else j


def _gb_jdata(x):
    if isinstance(x, tuple):
        return {"pair": [canon_keys(y) for y in x]}
    return canon_keys(x)


def canon_keys(x):
    """JSON-able form of keys / data an implementation may return (anything unexpected becomes its repr)"""
    if isinstance(x, (list, tuple)):
        return [canon_keys(y) for y in x]
    if x is None or isinstance(x, (bool, int, str)):
        return x
    return {"repr": repr(x)}


def _gb_arg(x):
    if isinstance(x, dict):
        if "strsub" in x:
            return _Str(x["strsub"])
        if "tuplesub" in x:
            return _named_tuple(x["tuplesub"])
        if "list" in x:
            return list(x["list"])
        return lambda val: 0          # group_by "is no longer a function"
    return tuple(x) if isinstance(x, list) else x


class _FillStore(object):
    """an element with fill(value): remembers what it was filled with"""

    def __init__(self):
        self.vals = []

    def fill(self, v):
        self.vals.append(v)


_PRIVATE_MISSING = "the private name %s of lena is not there (renamed or removed); nothing public observes it"


def _private(module, name):
    """a private module-level name of lena (the deprecated class _GroupBy, the helpers _split_key / _startswith), read
    defensively: None when lena no longer spells it that way - the observation is then skipped, never an alarm"""
    import importlib
    try:
        return getattr(importlib.import_module(module), name, None)
    except ImportError:
        return None


def run_impl(case):
    import lena.core
    import lena.flow
    op = case["op"]
    if op == "select":
        try:
            py = _build(case["spec"])
            # the specification the user wrote is one Python object; he may build several selectors from it (a strict one
            # and a lenient one): the twin, with the other raise_on_error, is built FIRST from the same object
            twin_roe = False if case["top"] == "filter" else not case["roe"]
            twin = lena.flow.Selector(py, raise_on_error=twin_roe)
            if case["top"] == "filter":
                flt = lena.flow.Filter(py)

                # "the selector of the Filter applied to one value", observed through the public interface only (the
                # attribute that holds the selector is private): fill_into(element, v) fills the element exactly when
                # the value is selected, and lets the selector's exception through as it is
                def sel(v, flt=flt):
                    st = _FillStore()
                    flt.fill_into(st, v)
                    return len(st.vals) == 1
            else:
                sel = lena.flow.Selector(py, raise_on_error=case["roe"])
                flt = lena.flow.Filter(sel)
        except Exception as e:  # noqa: BLE001 - LenaTypeError is the documented one
            return {"init": exc_name(e)}
        vals = [_value(v) for v in case["values"]]
        r = [_out(sel, v) for v in vals]
        rt = [_out(twin, v) for v in vals]
        kept, stop = _drain(lambda: flt.run(iter(vals)))

        # fill_into: the element is filled exactly with the selected values
        st = _FillStore()
        filled = []
        for v in vals:
            n = len(st.vals)
            try:
                flt.fill_into(st, v)
                filled.append(len(st.vals) == n + 1 and st.vals[-1] == v)
            except Exception as e:  # noqa: BLE001
                filled.append({"e": exc_name(e)})
        # a flow filled into one element through fill_into, up to the first exception
        st2, fill_stop = _FillStore(), None
        for v in vals:
            try:
                flt.fill_into(st2, v)
            except Exception as e:  # noqa: BLE001
                fill_stop = exc_name(e)
                break
        fill_all = {"kept": [_unvalue(v) for v in st2.vals], "stop": fill_stop}
        # the same selector object applied to the same values once more: selectors keep no state
        r2 = [_out(sel, v) for v in vals]
        return {"r": r, "kept": kept, "stop": stop, "filled": filled, "r2": r2, "fillAll": fill_all, "rt": rt}
    if op == "filterseq":
        try:
            a, b = _build(case["a"]), _build(case["b"])
            seq = lena.core.Sequence(lena.flow.Filter(a), lena.flow.Filter(b))
            # the law: two filters in a row are one filter with the AND of the selectors
            a2, b2 = _build(case["a"]), _build(case["b"])
            both = lena.flow.Filter(lena.flow.And((a2, b2)))
        except Exception as e:  # noqa: BLE001
            return {"init": exc_name(e)}
        vals = [_value(v) for v in case["values"]]
        kept, stop = _drain(lambda: seq.run(iter(vals)))
        kept2, stop2 = _drain(lambda: both.run(iter([_value(v) for v in case["values"]])))
        return {"kept": kept, "stop": stop, "and": {"kept": kept2, "stop": stop2}}
    if op == "runif":
        try:
            el = lena.flow.RunIf(_build(case["spec"]), *_seq_args(case["seq"]))
        except Exception as e:  # noqa: BLE001
            return {"init": exc_name(e)}
        kept, stop = _drain(lambda: el.run(iter([_value(v) for v in case["values"]])))
        return {"kept": kept, "stop": stop}
    if op == "groupby":
        try:
            gb = lena.flow.GroupBy(_gb_arg(case["group_by"]), _gb_arg(case["merge"]))
        except Exception as e:  # noqa: BLE001
            return {"init": exc_name(e)}
        fill = gb.update if case.get("via") == "update" else gb.fill
        errors = []
        cs = _contexts(case)
        n = len(cs)
        alias = case.get("alias")
        shared = {}

        again = {}

        def make(i):
            """the i-th value of the flow: bare data, or (data, context); with "alias" several values hold ONE dictionary
            object, which the source updates in place before it yields the next value; with "same" a value equal to an
            earlier one is the same Python object, filled once more"""
            if case.get("same"):
                k = jdump([_gb_data(case, i, n), cs[i]])
                if k not in again:
                    again[k] = make1(i)
                return again[k]
            return make1(i)

        def make1(i):
            d = _gb_pydata(_gb_data(case, i, n))
            if cs[i] is None:
                return d
            c = _mk(cs[i], _order_of(case, i))
            if alias is not None and alias[i] is not None:
                if alias[i] in shared:
                    obj = shared[alias[i]]
                    obj.clear()
                    obj.update(c)
                    c = obj
                else:
                    shared[alias[i]] = c
            return (d, c)

        def view(grp):
            out = []
            for v in grp:
                if isinstance(v, tuple) and len(v) == 2 and isinstance(v[1], dict):
                    out.append({"d": _gb_jdata(v[0]), "c": _unmk(v[1])})
                else:
                    out.append({"d": _gb_jdata(v), "c": None})
            return out

        with warnings.catch_warnings():
            warnings.simplefilter("ignore")
            for i in range(n):
                val = make(i)
                try:
                    fill(val)
                except Exception as e:  # noqa: BLE001
                    errors.append({"at": i, "e": exc_name(e)})
            import json
            try:
                gvals = [view(grp) for grp in gb.compute()]
                groups = [[v["d"] for v in g] for g in gvals]
                keystrs = [k if isinstance(k, str) else repr(k) for k in gb.groups]
                keys = []
                for k in keystrs:
                    try:
                        keys.append(json.loads(k))
                    except ValueError:
                        keys.append({"not-json": k})
            except Exception as e:  # noqa: BLE001 - an implementation that cannot even yield its groups
                return {"broken": f"compute() / groups raised {exc_name(e)} after the values were filled", "errors": errors}
            # reset() / clear() empty the element, which can then be used again
            reuse = None
            after = None
            try:
                if case.get("end") == "clear":
                    gb.clear()
                else:
                    gb.reset()
                after = [list(g) for g in gb.compute()]
                shared.clear()
                again.clear()
                for i in range(n):
                    try:
                        fill(make(i))
                    except lena.core.LenaValueError:
                        pass
                reuse = [[v["d"] for v in view(grp)] for grp in gb.compute()]
            except Exception as e:  # noqa: BLE001
                reuse = {"e": exc_name(e)}
        return {"groups": groups, "keys": keys, "keystrs": keystrs, "errors": errors, "after": after, "reuse": reuse,
                "gvals": gvals}
    if op == "oldgroupby":
        old_group_by = _private("lena.flow.group_by", "_GroupBy")
        if old_group_by is None:
            return {"skipped": _PRIVATE_MISSING % "lena.flow.group_by._GroupBy"}
        gbj = case["group_by"]
        t = _keyfn_table()
        if isinstance(gbj, dict):
            arg = 5
        elif isinstance(gbj, list):
            arg = tuple(t[n] for n in gbj)
        else:
            arg = t[gbj]
        try:
            gb = old_group_by(arg)
        except Exception as e:  # noqa: BLE001
            return {"init": exc_name(e)}
        errors = []
        fill = gb.update if case.get("via") == "update" else gb.fill
        with warnings.catch_warnings():
            warnings.simplefilter("ignore")
            for i, v in enumerate(case["values"]):
                try:
                    fill(_value(v))
                except Exception as e:  # noqa: BLE001
                    errors.append({"at": i, "e": exc_name(e)})
            try:
                keys, groups = [], []
                for k, grp in gb.groups.items():
                    keys.append(list(k) if isinstance(k, tuple) else [k])
                    groups.append([_unvalue(v)["d"] for v in grp])
                if case.get("end") == "clear":
                    gb.clear()
                else:
                    gb.reset()
                after = len(gb.groups)
            except Exception as e:  # noqa: BLE001
                return {"broken": f"groups / reset raised {exc_name(e)}", "errors": errors}
        return {"groups": canon_keys(groups), "keys": canon_keys(keys), "errors": errors, "after": after}
    if op == "contains":
        import lena.context
        return {"r": _out(lena.context.contains, _mk(case["ctx"], case.get("o", 0)), case["s"])}
    if op == "splitkey":
        _split_key = _private("lena.context.include_exclude_tree", "_split_key")
        if _split_key is None:
            return {"skipped": _PRIVATE_MISSING % "lena.context.include_exclude_tree._split_key"}
        try:
            return {"r": list(_split_key(case["s"]))}
        except Exception as e:  # noqa: BLE001
            return {"e": exc_name(e)}
    if op == "startswith":
        _startswith = _private("lena.context.include_exclude_tree", "_startswith")
        if _startswith is None:
            return {"skipped": _PRIVATE_MISSING % "lena.context.include_exclude_tree._startswith"}
        return {"r": _out(_startswith, list(case["a"]), list(case["b"]))}
    raise ValueError(op)


# ---------------------------------------------------------------------------------------------
# the model

def _keys_of_ctx(c, acc):
    if isinstance(c, dict):
        for k, v in c.items():
            acc.add(k)
            _keys_of_ctx(v, acc)


def _keys_of_key(k, acc):
    if isinstance(k, str):
        acc.update(k.split("."))
    elif isinstance(k, list):
        acc.update(x for x in k if isinstance(x, str))
    else:
        acc.update(k["dict"])
        if isinstance(k["tail"], dict) and k["tail"]["key"] is not None:
            acc.add(k["tail"]["key"])


def _keys_of_spec(s, acc):
    t = s["t"]
    if t == "str":
        acc.update(s["s"].split("."))
    elif t == "selctx":
        _keys_of_key(s["key"], acc)
    for sub in s.get("l", []):
        _keys_of_spec(sub, acc)
    if "s" in s and isinstance(s["s"], dict):
        _keys_of_spec(s["s"], acc)


def model_requests(case):
    names = set()
    op = case["op"]
    if op in ("select", "filterseq", "runif"):
        for k in ("spec", "a", "b"):
            if k in case:
                _keys_of_spec(case[k], names)
        for v in case["values"]:
            _keys_of_ctx(v["c"], names)
        return [dict(case, names=sorted(names), values=_model_values(case["values"]))]
    if op == "groupby":
        cs = _contexts(case)
        if "contexts" in case and any(_has_container(c) for c in cs):
            return []           # a list as a context value: outside the model's values, the oracle judges these cases
        for c in cs:
            _keys_of_ctx(c, names)
        for arg in (case["group_by"], case["merge"]):
            for key in _arg_items(arg) or []:
                names.update(key.split("."))
        return [{"op": "groupby", "names": sorted(names), "group_by": _plain_arg(case["group_by"]), "merge": _plain_arg(case["merge"]),
                 "contexts": [_unmk(c) for c in cs], "via": case.get("via", "fill"), "end": case.get("end", "reset")}]
    if op == "contains":
        _keys_of_ctx(case["ctx"], names)
        names.update(case["s"].split("."))
        return [dict(case, names=sorted(names), ctx=_model_ctx(case["ctx"]))]
    return [case]


def _eq(what, a, b):
    if jdump(a) != jdump(b):
        return f"{what}: impl {jdump(a)[:300]} vs model {jdump(b)[:300]}"
    return None


def compare(case, res, replies):
    try:
        return _compare(case, res, replies)
    except Exception as e:  # noqa: BLE001 - an implementation result of an unexpected shape is a disagreement
        return f"implementation result of unexpected shape ({type(e).__name__}: {e}): {jdump(_jsonable(res))[:300]}"


def _compare(case, res, replies):
    if "skipped" in res:
        return None          # a private name of lena that is not there: nothing observed, nothing to compare
    m = replies[0]
    if "err" in m:
        return f"model driver error: {m['err']}"
    op = case["op"]
    if op in ("splitkey",):
        return _eq("_split_key", res.get("r"), m["r"]) if "r" in res else (
            None if m["r"] is None and res.get("e") == "LenaValueError" else f"_split_key: impl {res} vs model {m}")
    if op == "startswith":
        return _eq("_startswith", res["r"], m["r"]) or _eq("_startswith vs isPrefixOf", res["r"], m["spec"])
    if op == "contains":
        return _eq("contains", res["r"], m["r"]) or (
            _eq("contains vs containsLast/valAt", res["r"], m["spec"]) if m["spec"] is not None else None)
    if "init" in res or "init" in m:
        if res.get("init") != m.get("init"):
            return f"construction: impl {res.get('init')} vs model {m.get('init')}"
        if op == "select" and m.get("hasBad") is not True:
            return "construction failed but hasBad is false"
        if op == "groupby":
            return _compare_gb_init(case, res, m)
        return None
    if op in ("select", "filterseq", "runif"):
        # the yielded values as the model sees them (containers in a context are objects known by their str())
        res = dict(res)
        res["kept"] = _model_values(res["kept"])
        if "and" in res:
            res["and"] = dict(res["and"], kept=_model_values(res["and"]["kept"]))
        if "fillAll" in res:
            res["fillAll"] = dict(res["fillAll"], kept=_model_values(res["fillAll"]["kept"]))
    if op == "select":
        for k in ("r", "kept", "stop"):
            e = _eq(k, res[k], m[k])
            if e:
                return e
        e = _eq("the twin selector built first from the same specification object, with the other raise_on_error",
                res["rt"], m["rTwin"])
        if e:
            return e
        # fill_into = the selector applied to each value
        e = (_eq("fill_into", res["filled"], m["fill"]) or _eq("beforeError/firstError = filterRun", True, m["specRun_eq_model"])
             or _eq("sem", res["r"], m["sem"])
             or _eq("fill_into into one element", [res["fillAll"]["kept"], res["fillAll"]["stop"]],
                    [m["fillAll"]["kept"], m["fillAll"]["stop"]])
             or _eq("fill_into_spec = fillIntoAll", True, m["fillAll_eq_spec"]))
        if e:
            return e
        if m["semFold"] is not None:
            e = _eq("orRes/andRes", res["r"], m["semFold"])
            if e:
                return e
        if m["hasBad"]:
            return "hasBad is true for a specification that was constructed"
        if case["top"] == "selector" and not case["roe"] and m["allRoeF"] and m["keysOk"]:
            e = _eq("semB (raise_on_error=False)", res["r"], m["semB"])
            if e:
                return e
        for i, tot in enumerate(m["totalOn"]):
            if tot and res["r"][i] != m["semB"][i]:
                return f"semB (total leaves) at value {i}: impl {res['r'][i]} vs {m['semB'][i]}"
        return None
    if op == "filterseq":
        return (_eq("Sequence(Filter, Filter)", [res["kept"], res["stop"]], [m["kept"], m["stop"]])
                or _eq("Filter(And)", [res["and"]["kept"], res["and"]["stop"]], [m["and"]["kept"], m["and"]["stop"]])
                or _eq("two stages = filterSeqRun", True, m["stages_eq_model"]))
    if op == "runif":
        return (_eq("RunIf.run", [res["kept"], res["stop"]], [m["kept"], m["stop"]])
                or _eq("runif_spec = runIfRun", True, m["specRun_eq_model"]))
    if op == "oldgroupby":
        e = _eq("groups", res["groups"], m["groups"]) or _eq("keys", res["keys"], m["keys"]) or _eq("errors", res["errors"], m["errors"])
        if e:
            return e
        if res["after"] != m["after"]:
            return f"groups after reset/clear: impl {res['after']} vs model {m['after']}"
        if m["specEqModel"] is not True:
            return "groupsOfG differs from the model's groups"
        if res["errors"]:
            if m["all"].get("e") != res["errors"][0]["e"]:
                return f"oldFillAll: {m['all']} vs first impl error {res['errors'][0]}"
        elif m["all"].get("ok") is not True:
            return f"oldFillAll: {m['all']}"
        return None
    # groupby
    e = _compare_gb_init(case, res, m)
    if e:
        return e
    if "broken" in res:
        return f"implementation: {res['broken']}"
    # the model tags the values with their positions in the flow; the flow of the case carries the data of the case
    n = len(_contexts(case))
    mgroups = [[_gb_data(case, i, n) for i in g] for g in m["groups"]]
    e = (_eq("groups", res["groups"], mgroups) or _eq("keys", res["keys"], m["keys"])
         or _eq("to_string of the keys (C08's model)", res["keystrs"], m["keystrs"])
         or _eq("fill errors", res["errors"], m["errors"]) or _eq("after reset/clear", res["after"], m["after"]))
    if e:
        return e
    if m.get("parse") == "ok":
        always = ["keyC_eq_model", "keyFlip_eq_model", "groupsOf_eq_model", "wf", "agreeC_iff_key"]
        if case.get("via") != "update":
            always.append("skip_eq_model")
        if m["disjoint"]:
            always += ["keyP_eq_model", "keySel_eq_model", "agreeP_iff_key"]
        for k in always:
            if m.get(k) is None and k in ("groupsOf_eq_model", "skip_eq_model") and len(_contexts(case)) > 64:
                continue      # evaluated by the driver on flows of at most 64 values
            if m.get(k) is not True:
                return f"specification-side check {k} is {m.get(k)}"
        G, M = _gm(case)
        cs = _contexts(case)
        for c, nodes in zip(cs, m["nodes"]):
            ref = {p: v for p, v in _nodes(c or {})}
            if len(nodes) != len(ref):
                return f"allPathsV: {len(nodes)} paths vs {len(ref)} in {jdump(_unmk(c))}"
            for path, seen, sc, fw, pol, sel in nodes:
                p = tuple(path)
                if p not in ref or _seen_json(ref[p]) != seen:
                    return f"seen at {path}: model {seen} vs context {jdump(_unmk(c))}"
                exp_c = _flipwalk(G, M, p)
                if sc != exp_c or fw != exp_c:
                    return f"selC/flipWalk at {path}: {sc}/{fw} vs reference {exp_c} for {case['group_by']!r},{case['merge']!r}"
                if m["disjoint"] and (pol != _polarity(G, M, p) or sel != pol):
                    return f"polarity/sel at {path}: {pol}/{sel} vs reference {_polarity(G, M, p)}"
        bad_at = {e["at"] for e in res["errors"]}
        for i, h in enumerate(m["hasObjSel"]):
            if h != (i in bad_at):
                return f"hasObjL of the selected part of value {i}: {h}, impl raised: {i in bad_at}"
    return None


def _compare_gb_init(case, res, m):
    """construction of GroupBy: exception class, and the specification-side reason for a LenaValueError"""
    p = m.get("parse")
    init = res.get("init")
    if p == "type":
        return None if init == "LenaTypeError" else f"non-iterable argument: impl {init}"
    if p in ("root", "subkey"):
        return None if init == "LenaValueError" else f"{p}: impl {init}, expected LenaValueError"
    if p == "ok":
        if (init == "LenaValueError") != m["rejects"]:
            return f"rejectsB = {m['rejects']} but the implementation {'rejected' if init else 'accepted'} the key sets"
        if init not in (None, "LenaValueError"):
            return f"construction raised {init}"
    return None


# ---------------------------------------------------------------------------------------------
# the property itself, on the real code's result (independent of the model and of lena)

def _ref_data_ctx(val):
    if isinstance(val, tuple) and len(val) == 2 and isinstance(val[1], dict):
        return val
    return val, {}


def _ref_contains(ctx, s):
    """documented meaning of contains: the dotted string addresses a key, or a scalar whose str() is the last part"""
    if s == "":
        return True          # the empty string names the context itself (as for get_recursively)
    levels = s.split(".")
    cur = ctx
    for k in levels[:-1]:
        if not isinstance(cur, dict) or k not in cur:
            return False
        cur = cur[k]
    if isinstance(cur, dict):
        return levels[-1] in cur
    return str(cur) == levels[-1]


def _absorb(roe, thunk):
    try:
        return thunk()
    except Exception:  # noqa: BLE001
        if roe:
            raise
        return False


def _is_inst(s):
    return s["t"] in ("not", "sel", "and", "or", "selctx")


class _RefError(Exception):
    def __init__(self, name):
        Exception.__init__(self, name)
        self.name = name


def _ref_keys(key):
    """the simple keys a SelectContext key stands for; None = a key that is in no context"""
    if isinstance(key, str):
        return [k for k in key.split(".") if k]
    if isinstance(key, list):
        if not all(isinstance(k, str) for k in key):
            raise _RefError("LenaTypeError")
        return list(key)
    tail = key["tail"]
    if tail == "multi":
        raise _RefError("LenaValueError")
    ks = list(key["dict"])
    if tail == "stop":
        return ks
    if tail["key"] is None:
        return None
    return ks + [tail["key"]]


def _ref_eval(s, roe, val):
    """reference semantics of a specification under the inherited raise_on_error `roe`; raises what a leaf raises"""
    t = s["t"]
    data, ctx = _ref_data_ctx(val)
    if t == "str":
        return _ref_contains(ctx, s["s"])
    if t == "cls":
        return isinstance(data, _CLS[s["c"]])
    if t == "fn":
        return _absorb(roe, lambda: _fn_obj(s)(val))
    if t == "list":      # OR, short-circuit, left to right
        return _absorb(roe, lambda: any(_ref_eval(x, roe, val) for x in s["l"]))
    if t == "tuple":     # AND
        return _absorb(roe, lambda: all(_ref_eval(x, roe, val) for x in s["l"]))
    if t == "not":
        r = s["roe"]
        return not _absorb(r, lambda: _ref_eval(s["s"], r, val))
    if t == "sel":
        r = s["roe"]
        return _absorb(r, lambda: _ref_eval(s["s"], r, val))
    if t == "and":
        return all(_ref_eval(x, s["roe"], val) for x in s["l"])
    if t == "or":
        return any(_ref_eval(x, s["roe"], val) for x in s["l"])
    if t == "selctx":
        keys = _ref_keys(s["key"])      # a malformed key raises, whatever raise_on_error is
        if keys is None:
            return False
        cur = ctx
        for k in keys:
            if not isinstance(cur, dict) or k not in cur:
                return False            # the addressed sub-context is absent
            cur = cur[k]
        # "SelectContext applies its predicate to the addressed sub-context": the predicate - whatever kind of callable
        # it is - called on the sub-context
        return _absorb(s["roe"], lambda: _pred_obj(s)(cur))
    raise ValueError(t)


def _exc(e):
    return e.name if isinstance(e, _RefError) else exc_name(e)


def _has_bad(s):
    if s["t"] == "bad":
        return True
    if isinstance(s.get("s"), dict) and _has_bad(s["s"]):
        return True
    return any(_has_bad(x) for x in s.get("l", []))


def _has_ambiguous_leaf(s):
    """a leaf of a Selector that is a callable AND a string / list / tuple: the statement names a meaning for each of
    the two ("a string tests the context", "a callable is applied") and does not say which one wins - lena applies it
    (callable is tested first); compared with the model, not demanded.  (As the predicate of a SelectContext such an
    object is unambiguous: the predicate is applied.)"""
    if s["t"] == "fn":
        return s.get("as") in _AS_AMBIGUOUS
    return any(_has_ambiguous_leaf(x) for x in list(s.get("l", [])) + ([s["s"]] if isinstance(s.get("s"), dict) else []))


def _ref_filter_value(spec, v):
    """Filter(spec) / RunIf(spec): an instance is used as it is, anything else becomes Selector(spec)"""
    try:
        b = _ref_eval(spec, True, v) if _is_inst(spec) else _absorb(True, lambda: _ref_eval(spec, True, v))
        return bool(b)
    except Exception as e:  # noqa: BLE001
        return {"e": _exc(e)}


def _split_paths(arg):
    out = set()
    for key in _arg_items(arg) or []:
        out.add(() if key == "" else tuple(key.split(".")))
    return out


def _gm(case):
    """the key paths listed in group_by and in merge, after the adjustment of the default arguments"""
    if _plain_arg(case["group_by"]) == "" and _plain_arg(case["merge"]) == "":
        return set(), {()}          # GroupBy(): everything into one group
    return _split_paths(case["group_by"]), _split_paths(case["merge"])


def _ref_rejects(G, M):
    """the documented nesting rule ("include/exclude keys should be strictly within exclude/include keys"): some
    listed path runs through a key path q whose parent already has that polarity while nothing of the opposite set
    runs through q"""
    for p in G | M:
        for n in range(1, len(p) + 1):
            q = p[:n]
            c = _flipwalk(G, M, q[:-1])
            same, opp = (G, M) if c else (M, G)
            if any(x[:n] == q for x in same) and not any(x[:n] == q for x in opp):
                return True
    return False


def _ref_gb_init(case):
    """what the documentation says GroupBy(group_by, merge) does at construction: None = accepted, else the exception"""
    gi, mi = _arg_items(case["group_by"]), _arg_items(case["merge"])
    if gi is None or mi is None:
        return "LenaTypeError"      # "group_by and merge should be strings or containers of strings"
    G, M = _gm(case)
    if (() in G) + (() in M) != 1:
        return "LenaValueError"     # the root must be in exactly one of them
    if not (_plain_arg(case["group_by"]) == "" and _plain_arg(case["merge"]) == ""):
        for key in gi + mi:
            if key != "" and "" in key.split("."):
                return "LenaValueError"     # improper subkey
    if _ref_rejects(G, M):
        return "LenaValueError"
    return None


def _polarity(G, M, p):
    """is the longest prefix of p listed in group_by or merge a group_by entry?  (None: not even the root is listed)"""
    for n in range(len(p), -1, -1):
        q = p[:n]
        if q in G or q in M:
            return q in G
    return None


def _flipwalk(G, M, p):
    """the rule for all accepted key sets: the polarity flips at a prefix listed in the set opposite to the current one"""
    c = () in G
    for n in range(1, len(p) + 1):
        if p[:n] in (M if c else G):
            c = not c
    return c


def _nodes(c, p=()):
    """every key path of the context with what is seen there: a scalar (with its type) or 'a dictionary'"""
    for k, v in c.items():
        q = p + (k,)
        if isinstance(v, dict):
            yield q, ("dict",)
            yield from _nodes(v, q)
        elif isinstance(v, list) and v[0] in _CONTAINER_LEAVES:
            yield q, ("leaf", v[0], jdump(v[1]))         # a container is a value, compared as a whole
        elif isinstance(v, (_Unser, list)):
            yield q, ("leaf", "obj", v.s if isinstance(v, _Unser) else v[1])
        else:
            yield q, ("leaf", type(v).__name__, v)


def _seen_json(view):
    if view == ("dict",):
        return "dict"
    if view[1] == "obj":
        return {"leaf": ["obj", view[2]]}
    return {"leaf": view[2]}


def _selected_view(G, M, c):
    return frozenset((p, view) for p, view in _nodes(c or {}) if _polarity(G, M, p))


def _run_ref(exp, values, each, convert=True):
    """what a lazy element yields: `each(value, selected)` for the values before the first exception (which reaches
    the consumer of a generator as RuntimeError when it is a StopIteration: PEP 479)"""
    kept, stop = [], None
    for v, b in zip(values, exp):
        if isinstance(b, dict):
            stop = b["e"]
            if convert and stop == "Other:StopIteration":
                stop = "Other:RuntimeError"
            break
        kept.extend(each({"d": v["d"], "c": v["c"]}, b))
    return kept, stop


def _ref_seq(name, v):
    if name == "ident":
        return [v]
    if name == "dup":
        return [v, v]
    if name == "drop":
        return []
    return [{"d": "t", "c": v["c"] if v["c"] is not None else {}}]


def oracle(case, res):
    """total: a result of the implementation that cannot be interpreted is reported as a failure with its input, the
    harness does not crash on it"""
    try:
        return _oracle(case, res)
    except Exception as e:  # noqa: BLE001
        return (f"the result of the implementation could not be interpreted ({type(e).__name__}: {e}); "
                f"result {jdump(_jsonable(res))[:300]}")


def _jsonable(x):
    if isinstance(x, dict):
        return {str(k): _jsonable(v) for k, v in x.items()}
    if isinstance(x, (list, tuple)):
        return [_jsonable(v) for v in x]
    if x is None or isinstance(x, (bool, int, str)):
        return x
    return repr(x)


def _oracle(case, res):
    if "skipped" in res:
        return None          # a private helper / the deprecated private class is not there: no observation, no alarm
    op = case["op"]
    if op == "select":
        spec = case["spec"]
        # the statement covers specifications made of strings, classes, callables, lists, tuples and selectors; what
        # happens with an item of another type (LenaTypeError, documented) is compared in the correspondence only
        if _has_bad(spec) or _has_ambiguous_leaf(spec):
            return None
        if "init" in res:
            return (f"construction raised {res['init']} for a specification made of strings, classes, callables, "
                    f"selectors, lists and tuples: {jdump(spec)}")
        roe = case["roe"]
        vals = [_value(v) for v in case["values"]]
        exp = []
        for v in vals:
            if case["top"] == "filter":
                exp.append(_ref_filter_value(spec, v))
            else:
                try:
                    exp.append(bool(_absorb(roe, lambda: _ref_eval(spec, roe, v))))
                except Exception as e:  # noqa: BLE001
                    exp.append({"e": _exc(e)})
        if jdump(res["r2"]) != jdump(res["r"]):
            return (f"the selector gives {jdump(res['r2'])} when applied to the same values a second time, "
                    f"{jdump(res['r'])} the first time (spec {jdump(spec)})")
        for i, (a, b) in enumerate(zip(res["r"], exp)):
            if a != b or type(a) is not type(b):
                return (f"selector gives {a} on value {jdump(case['values'][i])}, the compositional reference gives {b} "
                        f"(spec {jdump(spec)}, raise_on_error={roe}, as {case['top']}; the same specification object had been "
                        f"used for Selector(spec, raise_on_error={False if case['top'] == 'filter' else not roe}) before)")
        # the same specification object had been used for another selector (with the other raise_on_error) before:
        # each of the two evaluates the specification with its own setting
        troe = False if case["top"] == "filter" else not roe
        for i, v in enumerate(vals):
            try:
                b = bool(_absorb(troe, lambda: _ref_eval(spec, troe, v)))
            except Exception as e:  # noqa: BLE001
                b = {"e": _exc(e)}
            a = res["rt"][i]
            if a != b or type(a) is not type(b):
                return (f"Selector(spec, raise_on_error={troe}) gives {a} on value {jdump(case['values'][i])}, the compositional "
                        f"reference gives {b}; a second selector was built from the same specification object afterwards "
                        f"(spec {jdump(spec)})")
        # Filter keeps exactly the selected values (up to the first exception, which propagates)
        kept, stop = _run_ref(exp, case["values"], lambda v, b: [v] if b else [])
        if jdump(res["kept"]) != jdump(kept) or res["stop"] != stop:
            return (f"Filter.run kept {jdump(res['kept'])[:300]} stop={res['stop']}, selected values are "
                    f"{jdump(kept)[:300]} stop={stop}")
        if jdump(res["filled"]) != jdump(exp):
            return f"Filter.fill_into filled {jdump(res['filled'])}, selected: {jdump(exp)}"
        # a flow filled into one element through fill_into: the element holds exactly the selected values
        fk, fs = _run_ref(exp, case["values"], lambda v, b: [v] if b else [], convert=False)
        if jdump(res["fillAll"]["kept"]) != jdump(fk) or res["fillAll"]["stop"] != fs:
            return (f"Filter.fill_into filled the element with {jdump(res['fillAll']['kept'])[:300]} stop={res['fillAll']['stop']}; "
                    f"the selected values are {jdump(fk)[:300]} stop={fs}")
        return None
    if op in ("filterseq", "runif"):
        specs = [case["a"], case["b"]] if op == "filterseq" else [case["spec"]]
        if any(_has_bad(s) or _has_ambiguous_leaf(s) for s in specs):
            return None
        if "init" in res:
            return f"construction raised {res['init']} for {jdump(specs)}"
        vals = [_value(v) for v in case["values"]]
        if op == "filterseq":
            # value by value: the first filter, then (if it passed) the second — the AND of the two
            exp = []
            for v in vals:
                a = _ref_filter_value(specs[0], v)
                exp.append(a if (isinstance(a, dict) or not a) else _ref_filter_value(specs[1], v))
            kept, stop = _run_ref(exp, case["values"], lambda v, b: [v] if b else [])
            for what, got in (("Sequence(Filter(a), Filter(b))", res), ("Filter(And((a, b)))", res["and"])):
                if jdump(got["kept"]) != jdump(kept) or got["stop"] != stop:
                    return (f"{what} yields {jdump(got['kept'])[:300]} stop={got['stop']}; the values selected by both are "
                            f"{jdump(kept)[:300]} stop={stop} (a={jdump(specs[0])}, b={jdump(specs[1])})")
            return None
        exp = [_ref_filter_value(specs[0], v) for v in vals]
        kept, stop = _run_ref(exp, case["values"], lambda v, b: _ref_seq(case["seq"], v) if b else [v])
        if jdump(res["kept"]) != jdump(kept) or res["stop"] != stop:
            return (f"RunIf({jdump(specs[0])}, {case['seq']}) yields {jdump(res['kept'])[:300]} stop={res['stop']}; selected values "
                    f"run through the sequence and the others unchanged give {jdump(kept)[:300]} stop={stop}")
        return None
    if op == "contains":
        exp = _ref_contains(_mk(case["ctx"], case.get("o", 0)), case["s"])
        if res["r"] != exp:
            return f"contains({jdump(case['ctx'])}, {case['s']!r}) is {res['r']}, the documented meaning gives {exp}"
        return None
    if op in ("splitkey", "startswith"):
        return None          # private helpers: compared with the model only
    if op == "oldgroupby":
        return _oracle_old(case, res)
    # ---- groupby.  The property speaks about key sets accepted at construction: for those — whenever exactly one of
    # group_by / merge lists the root "" and no path is listed in both, so that "the longest listed prefix" of every
    # key path is defined — the groups must be the partition the statement describes.  Which key sets are accepted or
    # rejected (improper nesting, a missing root, arguments of another type) is documented behaviour outside the
    # statement: it is compared with the model in the correspondence (compare / _compare_gb_init), not demanded here.
    if "init" in res:
        return None
    if _arg_items(case["group_by"]) is None or _arg_items(case["merge"]) is None:
        return None
    if "broken" in res:
        return f"GroupBy({case['group_by']!r}, {case['merge']!r}): {res['broken']}"
    G, M = _gm(case)
    if (() in G) + (() in M) != 1 or (G & M):
        return None          # no root, two roots, or a path listed in both: no well-defined longest-prefix entry
    cs = _contexts(case)
    views = [_selected_view(G, M, c) for c in cs]
    unser = {i for i, v in enumerate(views) if any(view[:2] == ("leaf", "obj") for _, view in v)}
    raised = {e["at"] for e in res["errors"]}
    for e in res["errors"]:
        if e["at"] not in unser:
            i = e["at"]
            val = (f"the value {jdump(_gb_data(case, i, len(cs)))} without context (its context is empty)" if cs[i] is None
                   else f"data {jdump(_gb_data(case, i, len(cs)))} with context {jdump(_unmk(cs[i]))}")
            return f"GroupBy({case['group_by']!r}, {case['merge']!r}).fill raised {e['e']} on {val}: the value was not filled"
    what = f"GroupBy({case['group_by']!r}, {case['merge']!r})"
    orders = [_order_of(case, i) for i in range(len(cs))]
    if any(orders):
        what += f" [contexts built with key insertion orders {orders if len(orders) <= 12 else '...'}: 0 sorted, 1 reversed, 2 rotated]"
    data = [_gb_data(case, i, len(cs)) for i in range(len(cs))]
    if case.get("alias"):
        what += (f" [values {case['alias']} share one context dictionary each, updated in place by the source between "
                 f"the values; contexts as they were when the values were filled]")
    msg = _partition_failure(what, cs, views, res["groups"], raised, data)
    if msg:
        return msg
    if not case.get("alias"):
        # the groups hold the filled values themselves (data and context), each as often as it was filled
        exp = sorted(jdump({"d": data[i], "c": cs[i]}) for i in range(len(cs)) if i not in raised)
        got = sorted(jdump(v) for g in res["gvals"] for v in g)
        if exp != got:
            return f"{what} does not yield the values it was filled with (a value or a context was changed or replaced)"
    # the same element used again after reset() / clear(): the property holds for the second flow too
    if isinstance(res["reuse"], dict):
        return f"{what} filled again after reset()/clear(): {res['reuse']['e']}"
    return _partition_failure(what + " filled again after reset()/clear()", cs, views, res["reuse"], raised, data)


def _partition_failure(what, cs, views, groups, raised, data):
    """the statement: the groups partition the filled values; arrival order inside a group; two values share a group
    exactly when their selected views are equal.  `groups` holds the data of the values, `data[i]` is the data of the
    i-th value of the flow."""
    filled = [i for i in range(len(cs)) if i not in raised]
    keyd = [jdump(d) for d in data]
    if len({keyd[i] for i in filled}) != len(filled):
        # several values of the flow carry the same data (equal values are still different values of the flow): the
        # groups must be the classes of the filled values under "same selected view", each in arrival order
        classes = {}
        for i in filled:
            classes.setdefault(views[i], []).append(i)
        exp = [[data[i] for i in cl] for cl in classes.values()]
        if sorted(jdump(g) for g in groups) != sorted(jdump(g) for g in exp):
            return (f"{what}: filled with values whose data are {[data[i] for i in filled]}, the groups hold {jdump(groups)[:300]}; "
                    f"the filled values that agree on every selected key path, in arrival order, are {jdump(exp)[:300]}")
        return None
    idx = {keyd[i]: i for i in filled}
    try:
        groups = [[idx[jdump(d)] for d in g] for g in groups]
    except KeyError:
        return f"{what}: the groups {jdump(groups)[:300]} hold a value that was not filled"
    flat = sorted(i for g in groups for i in g)
    if flat != filled:
        return f"{what}: the groups {groups} (positions in the flow) are not a partition of the {len(filled)} filled values"
    owner = {}
    for gi, g in enumerate(groups):
        if g != sorted(g):
            return (f"{what}: arrival order is not preserved inside the group {[data[i] for i in g]} "
                    f"(the values arrived in the order {[data[i] for i in sorted(g)]})")
        for i in g:
            owner[i] = gi
    by_view = {}
    for i in filled:
        j = by_view.setdefault(views[i], i)
        if owner[i] != owner[j]:
            return (f"{what} separates {jdump(_unmk(cs[j]))} from {jdump(_unmk(cs[i]))} "
                    f"although they agree on every key path whose longest listed prefix is a group_by entry")
    first = {}
    for i in filled:
        j = first.setdefault(owner[i], i)
        if views[i] != views[j]:
            diff = sorted(views[i] ^ views[j], key=repr)[0]
            return (f"{what} puts {jdump(_unmk(cs[j]))} and {jdump(_unmk(cs[i]))} into one "
                    f"group although they differ at the selected key path {'.'.join(diff[0])}")
    return None


def _oracle_old(case, res):
    """the deprecated _GroupBy: values grouped by the value of the callable(s), arrival order kept"""
    gbj = case["group_by"]
    if "init" in res:
        return None if isinstance(gbj, dict) and res["init"] == "LenaTypeError" else f"_GroupBy construction raised {res['init']}"
    if isinstance(gbj, dict):
        return "_GroupBy accepted a group_by that is neither a callable nor a string"
    if "broken" in res:
        return f"_GroupBy({gbj}): {res['broken']}"
    import lena.core
    t = _keyfn_table()
    keys, errs = [], {}
    for i, v in enumerate(case["values"]):
        val = _value(v)
        try:
            if isinstance(gbj, list):
                group = []
                for n in gbj:
                    try:
                        group.append(t[n](val))
                    except lena.core.LenaKeyError:
                        group.append("")
                if not any(group):
                    raise lena.core.LenaValueError("no key")
                keys.append(group)
            else:
                try:
                    keys.append([t[gbj](val)])
                except lena.core.LenaKeyError:
                    raise lena.core.LenaValueError("no key")
        except Exception as e:  # noqa: BLE001
            keys.append(None)
            errs[i] = exc_name(e)
    got = {e["at"]: e["e"] for e in res["errors"]}
    # a value whose key exists must be filled; which exception leaves fill() otherwise is compared with the model only
    extra = sorted(set(got) - set(errs))
    if extra:
        return (f"_GroupBy.fill raised {got[extra[0]]} on value {jdump(case['values'][extra[0]])} although group_by={gbj} "
                f"gives it a key")
    order, members = [], {}
    for i, k in enumerate(keys):
        if k is None:
            continue
        kk = jdump(k)
        if kk not in members:
            members[kk] = []
            order.append(k)
        members[kk].append(case["values"][i]["d"])
    exp = [members[jdump(k)] for k in order]
    if jdump(res["groups"]) != jdump(exp) or jdump(res["keys"]) != jdump(order):
        return f"_GroupBy groups {jdump(res['groups'])} keys {jdump(res['keys'])}; by key and arrival: {jdump(exp)} keys {jdump(order)}"
    return None


# ---------------------------------------------------------------------------------------------

def nontrivial(case, res):
    if "skipped" in res:
        return False
    if "init" in res:
        return True
    op = case["op"]
    if op == "select":
        r = res["r"]
        return any(isinstance(x, dict) for x in r) or (True in r and False in r)
    if op in ("filterseq", "runif"):
        return bool(res["kept"]) and (res["stop"] is not None or len(res["kept"]) != len(case["values"]))
    if op in ("groupby", "oldgroupby"):
        return len(res.get("groups", [])) >= 2 and any(len(g) >= 2 for g in res["groups"])
    return False


def _depth(s):
    subs = list(s.get("l", [])) + ([s["s"]] if isinstance(s.get("s"), dict) else [])
    if s["t"] in ("list", "tuple", "and", "or", "not", "sel"):
        return 1 + max((_depth(x) for x in subs), default=0)
    return 0


def _kinds_of(s):
    """the kinds of callable objects in a specification (for the input histogram)"""
    out = set()
    if s["t"] in ("fn", "selctx"):
        k = s.get("as")
        out.add("function" if k is None else ("class" if isinstance(k, dict) else k))
    for x in list(s.get("l", [])) + ([s["s"]] if isinstance(s.get("s"), dict) else []):
        out |= _kinds_of(x)
    return out


def classify(case, res):
    if "skipped" in res:
        return [case["op"], case["op"] + ":skipped-private-name-missing"]
    op = case["op"]
    if op == "select":
        labels = [f"select:{case['top']}:depth={_depth(case['spec'])}:roe={case['roe']}", "select:top=" + case["spec"]["t"]]
        labels += sorted({"select:callable-kind=" + k for k in _kinds_of(case["spec"])})
        if "init" in res:
            labels.append("select:init-error")
        else:
            if any(isinstance(x, dict) for x in res["r"]):
                labels.append("select:raises")
            if res["stop"]:
                labels.append("filter:stopped-by-exception")
        return labels
    if op in ("filterseq", "runif", "oldgroupby"):
        labels = [op]
        if "init" in res:
            labels.append(op + ":init-error")
        elif res.get("stop") or res.get("errors"):
            labels.append(op + ":exception")
        return labels
    if op != "groupby":
        return [op]
    if "init" in res:
        return ["groupby:init=" + res["init"]]
    G, M = _gm(case)
    labels = ["groupby:root=" + ("group_by" if () in G else "merge"),
              f"groupby:maxdepth={max([len(p) for p in G | M] + [0])}",
              f"groupby:groups={min(len(res.get('groups', [])), 10)}"]
    if G & M:
        labels.append("groupby:overlap(accepted)")
    if res.get("errors"):
        labels.append("groupby:fill-error")
    if case.get("via") == "update":
        labels.append("groupby:update/clear")
    return labels


def signature(case, failure):
    c = {k: v for k, v in case.items() if k not in ("values", "contexts", "ctxset", "data", "alias", "same")}
    return jdump(c)


def _shrink_spec(s):
    for sub in list(s.get("l", [])) + ([s["s"]] if isinstance(s.get("s"), dict) else []):
        yield sub
    if "l" in s and len(s["l"]) > 1:
        for i in range(len(s["l"])):
            yield dict(s, l=s["l"][:i] + s["l"][i + 1:])


def shrink(case):
    op = case["op"]
    if op in ("select", "filterseq", "runif", "oldgroupby"):
        vals = case["values"]
        if len(vals) > 1:
            for i in range(len(vals)):
                yield dict(case, values=vals[:i] + vals[i + 1:])
        for k in ("spec", "a", "b"):
            if k in case:
                for sub in _shrink_spec(case[k]):
                    yield dict(case, **{k: sub})
        if op == "oldgroupby" and isinstance(case["group_by"], list) and len(case["group_by"]) > 1:
            for i in range(len(case["group_by"])):
                yield dict(case, group_by=case["group_by"][:i] + case["group_by"][i + 1:])
        return
    if op != "groupby":
        return
    cs = [_unmk(c) for c in _contexts(case)]
    os_ = [_order_of(case, i) for i in range(len(cs))]
    base = {k: v for k, v in case.items() if k not in ("ctxset", "orders", "data", "alias")}
    n = len(cs)
    ds = [_gb_data(case, i, n) for i in range(n)]
    al = case.get("alias")

    def sub(idx):
        idx = list(idx)
        c = dict(base, contexts=[cs[i] for i in idx], orders=[os_[i] for i in idx])
        if case.get("data") not in (None, "idx") or len(idx) != n:
            c["data"] = [ds[i] for i in idx]
        if al:
            c["alias"] = [al[i] for i in idx]
        return c
    full = sub(range(n))
    if n > 2:
        # a wrong merge or a wrong separation is visible on two values
        if n <= 60:
            for i in range(n):
                for j in range(i + 1, n):
                    yield sub([i, j])
        else:
            half = n // 2
            yield sub(range(half))
            yield sub(range(half, n))
            for i in range(n):
                yield sub([j for j in range(n) if j != i])
    elif n == 2:
        yield sub([0])
        yield sub([1])
    if any(os_):
        yield dict(full, orders=[0] * n)
    if al:
        yield {k: v for k, v in full.items() if k != "alias"}
    if "data" in full:
        yield {k: v for k, v in full.items() if k != "data"}
    for k in ("group_by", "merge"):
        a = case[k]
        if isinstance(a, list) and len(a) > 1:
            for i in range(len(a)):
                yield dict(full, **{k: a[:i] + a[i + 1:]})


# ---- MANIFEST texts ------------------------------------------------------------------------
LEVEL_TEXT = ("Lean 4 theorems about a transcribed model of Selector/And/Or/Not/SelectContext/Filter/RunIf (deep-embedded "
              "specifications of any nesting depth, both raise_on_error settings, construction errors, malformed keys, "
              "StopIteration becoming RuntimeError in generator expressions, fill_into with an explicit element, two filters "
              "in a sequence = one filter with And) and of make_include_exclude_tree + IncludeExcludeTree.get + GroupBy (trees "
              "of any depth: get keeps exactly the paths selected by the rule the code implements for ALL accepted key sets, "
              "which is the longest-listed-prefix rule when no path is listed twice; the rejected key sets are exactly the "
              "improperly nested ones; a value of the flow is in the same yielded group as another iff their contexts agree on "
              "every selected path; arrival order preserved; fill raises exactly for an unserialisable object at a selected "
              "path; the data of the values plays no role) and of the deprecated _GroupBy - 36 theorems about the model, 23 auxiliary ones about the specification "
              "vocabulary - tied to /repo by a correspondence check (exhaustive small scopes, sampled beyond; contexts in "
              "varying insertion orders and dict subclasses, keys that are string prefixes of each other, ten exception "
              "classes, results that are no bools, callables of every kind (classes, builtins, bound methods, partial objects, callable "
              "instances, callable strings / lists / tuples, selectors) as SelectContext predicates and Selector leaves, 18 classes x 19 kinds of data, subclass instances as specifications, "
              "re-used specification objects, shared and mutated context dictionaries, repeated values, data in any order; "
              "the specification-side definitions are executed by the driver and compared too) and a direct reference-evaluator / reference-partition oracle on the real code that states the property "
              "only (documented behaviour outside the statement is compared with the model, not demanded).")
LEVEL_NOTE = ("Trusted: Lean kernel (+ propext, Classical.choice, Quot.sound), the hand transcription validated by the "
              "correspondence run, slot-vector dictionaries over a key alphabet that contains every listed sub-key, truth "
              "values for callable results, the spelling of keys/scalars by json.dumps (C08's Tok.spell), the JSON protocol. "
              "The partition oracle is silent on key sets that list a path in both group_by and merge or the root in none or "
              "both (covered by theorems and correspondence).")
TECHNIQUE = "Lean 4 proof over hand-written model + correspondence check (exhaustive small scopes, sampled deeper) + reference oracle"
DESIGN_REF = "DESIGN.md section 3, C15"
