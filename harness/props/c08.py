"""C08 — context addressing, formatting and update elements touch exactly the named item.

Real code: lena.context.get_recursively / str_to_dict / str_to_list / contains / format_context / to_string /
update_recursively / format_update_with, lena.context.UpdateContext, lena.context.DeleteContext, lena.meta.SetContext.
Model: lean/LenaModel/Model/C08.lean, theorems lean/LenaModel/Props/C08.lean, driver lean/drivers/C08.lean.

Wire form of a value (cases, model protocol): scalars are JSON scalars (null, booleans, integers, strings); a dictionary is
{"d": [[key, value], ...]} in insertion order (the order matters for to_string and must survive json.dumps(sort_keys=True));
{"L": [...]} is a list, {"f": repr} a float, {"o": str|null} a foreign object; {"d": [...], "c": tag} an instance of a dict
subclass (od/dd/cx/md), {"o": .., "ix": W} a foreign object that can be indexed; {"T": [...]} a tuple, {"S": [...]} a set,
{"FS": [...]} a frozenset, {"BA": [...]} a bytearray, {"box": W} a foreign object with state (value model: not sent; heap model
and oracle: yes), {"py": "set"} a set.

Cases:
  {"op":"addr","d":W,"alpha":[..],"maxlen":n}     every key path over alpha of length 0..maxlen, three notations, contains
  {"op":"getx","d":W,"keys":K,"default":W?}       one get_recursively call, K as in the driver (malformed arguments)
  {"op":"s2d","s":str,"value":W?}                 str_to_dict / str_to_list / the round trip through get_recursively
  {"op":"format","pieces":[..]|"raw":str|"nonstr":1,"ctxs":[W,..]}    format_context
  {"op":"tostr","vs":[W,..]}                      to_string on a family of values, judged pairwise
  {"op":"upd","d":W,"other":{"s":str}|{"v":W},"value":W?}            update_recursively
  {"op":"fuw","key":str,"value":W|{"pieces":..}|{"raw":..},"d":W}    format_update_with
  {"op":"uc","args":{..},"items":[W|null,..]}     UpdateContext: construction and calls (null = a value without context)
  {"op":"dc","key":{"s":str}|{"l":[..]}|{"t":[..]},"items":[W|null,..]}   DeleteContext
  {"op":"setctx","key":str,"value":W|{"pieces":..},"ctxs":[W,..]}    SetContext._set_context / _get_context
  {"op":"context","items":[W|null,..],"names":[str,..]}              Context.__call__ / __getattr__ / __repr__
  {"op":"tostrj","vs":[J,..]}                     to_string on dictionaries with keys that are not strings ({"D":[[key,J],..]})
  {"op":"wfdup","vs":[W,..]}                      model only: the well-formedness test on wire values with repeated keys
Keys of dc/fuw/setctx/s2d may also be non-strings (an int, null, a wire list): the malformed-argument contract.
"""
import copy
import itertools
import json
import re

from harness.common import exc_name, jdump

PID = "C08"
TITLE = "Context addressing, formatting and update elements touch exactly the named item"
LEAN_MODULES = ["LenaModel.Props.C08", "LenaModel.Props.C08Heap"]
LEAN_SOURCES = ["LenaModel/Model/C08.lean", "LenaModel/Model/C08Spec.lean", "LenaModel/Props/C08.lean", "LenaModel/Lemmas/C08.lean",
                "LenaModel/Lemmas/C08Json.lean", "LenaModel/Lemmas/C08JsonV.lean",
                "LenaModel/Lemmas/C08Fmt.lean", "LenaModel/Lemmas/C08Str.lean",
                "LenaModel/Model/C08Heap.lean", "LenaModel/Lemmas/C08Heap.lean", "LenaModel/Props/C08Heap.lean"]
DRIVER = "drivers/C08.lean"
THEOREMS = [
    # the three notations address the same item; get_recursively / str_to_dict / contains
    "Lena.C08.notations_agree",
    "Lena.C08.get_eq_path",
    "Lena.C08.get_of_str_to_dict",
    "Lena.C08.contains_iff",
    "Lena.C08.contains_empty",
    "Lena.C08.getRec_errors",
    # format_context
    "Lena.C08.format_exact",
    "Lena.C08.format_init_total",
    "Lena.C08.formatCall_errors",
    # to_string is canonical
    "Lena.C08.to_string_perm",
    "Lena.C08.to_string_reorder",
    "Lena.C08.to_string_inj_tokens_partial",
    "Lena.C08.to_string_inj_chars_partial",
    "Lena.C08.to_string_canonical",
    "Lena.C08.jsonStrC_inj",
    "Lena.C08.pyEq_iff",
    "Lena.C08.jTokens_toJ",
    # UpdateContext: exactly the addressed item; the option matrix from the constructor arguments
    "Lena.C08.update_exact",
    "Lena.C08.merge_keeps_siblings",
    "Lena.C08.ucInit_subctx",
    "Lena.C08.init_matrix",
    "Lena.C08.value_template",
    "Lena.C08.strip_blanks",
    "Lena.C08.ucInit_value",
    "Lena.C08.jinjaParse_templateString",
    "Lena.C08.ucInit_template",
    "Lena.C08.missing_key_matrix_value",
    "Lena.C08.missing_key_outcomes",
    "Lena.C08.present_key_outcome",
    "Lena.C08.missing_key_matrix_template",
    "Lena.C08.update_context_value_end_to_end",
    "Lena.C08.update_context_template_end_to_end",
    "Lena.C08.ucCall_errors",
    # DeleteContext
    "Lena.C08.delete_notations",
    "Lena.C08.delete_exact",
    "Lena.C08.delete_absent_noop",
    # format_update_with / update_recursively / SetContext
    "Lena.C08.fuw_plain",
    "Lena.C08.fuw_frame",
    "Lena.C08.fuw_template",
    "Lena.C08.fuw_template_exact",
    "Lena.C08.formatUpdateWith_errors",
    "Lena.C08.update_recursively_spec",
    "Lena.C08.set_context_plain",
    "Lena.C08.set_context_missing",
    # results are well-formed dictionaries again
    "Lena.C08.update_keeps_wf",
    "Lena.C08.delete_keeps_wf",
    # object identities: "a deep copy of another context item" (Props/C08Heap.lean)
    "Lena.C08.deep_copy_spec",
    "Lena.C08.uc_deep_copy",
    "Lena.C08.uc_no_alias",
    "Lena.C08.uc_heap_refines",
    "Lena.C08.uc_source_spec",
    # to_string on values with tuples
    "Lena.C08.to_string_tuples_perm",
    "Lena.C08.to_string_tuples_inj_partial",
]
# true by definition / one branch of the model restated / Boolean encodings of hypotheses / a proved negation: audited
# (built, axiom-checked) but not counted as proof obligations of the property (review F7)
AUX_THEOREMS = [
    "Lena.C08.get_non_dict",
    "Lena.C08.get_bad_keys",
    "Lena.C08.str_to_dict_errors",
    "Lena.C08.update_value_cases",
    "Lena.C08.update_keeps_data",
    "Lena.C08.simple_update_outcome",
    "Lena.C08.delete_bare_and_empty",
    "Lena.C08.fuw_errors",
    "Lena.C08.non_string_key",
    "Lena.C08.to_string_errors",
    "Lena.C08.to_string_raw_keys",
    "Lena.C08.context_element",
    "Lena.C08.to_string_inj_full_false",
    "Lena.C08.poke_unreachable",
    "Lena.C08.uc_missing_untouched",
    "Lena.C08.to_string_tuples_canonical",
    "Lena.C08.to_string_tuple_list_collide",
    "Lena.C08.pieceWFB_iff",
    "Lena.C08.illFormedB_iff",
    "Lena.C08.strFieldsB_iff",
    "Lena.C08.notTemplateB_iff",
    "Lena.C08.wfPathB_iff",
    "Lena.C08.valWFB_iff",
]
TRUSTED = [
    "Lean 4.33.0 kernel; axioms limited to propext, Classical.choice, Quot.sound (audited by #print axioms on every run)",
    "hand transcription of lena/context/functions.py (contains, format_context, format_update_with, get_recursively, str_to_dict, "
    "str_to_list, to_string, update_recursively), lena/context/update_context.py, lena/context/elements.py, "
    "lena/context/context.py (Context) and lena/meta/elements.py (SetContext) at /repo d8e17d6 into LenaModel/Model/C08.lean, "
    "validated by this correspondence check",
    "third-party semantics as transcribed and validated likewise: str.format on the format strings the scanner produces; "
    "Python str() of None/bool/int/float/str and repr of containers with plain ASCII strings; json.dumps(sort_keys=True, "
    "separators=(',',':'), ensure_ascii=True): structure, key sorting and the escaping of strings are modelled and proved "
    "uniquely decodable (jsonStrC_inj, to_string_inj_chars_partial); the decimal spelling of integers and float.__repr__ are "
    "NOT analysed (the model holds a float as its repr string): that they are injective, contain none of , ] } and cannot be "
    "confused with each other is trusted and sampled; re.match(r'{{\\s*[^{}\\s][^{}]*}}\\Z') and str.strip() with the "
    "str.isspace() blanks; the jinja2 fragment 'literal text and {{dotted.name}}' with ChainableUndefined/StrictUndefined "
    "(blanks inside the braces per str.isspace()); copy.deepcopy as the identity on values",
    "JSON line protocol encoders (harness/props/c08.py, drivers/C08.lean)",
    "copy.deepcopy as transcribed in Model/C08Heap.lean (deepcopyH: every dictionary, list and other mutable object reachable from "
    "the argument, inside tuples too, is a new object; scalars are shared) - validated by the in-place-change observations; "
    "json.dumps writes a tuple as an array (toStringH) - validated by the tostr families",
]
ASSUMPTIONS = [
    "contexts are built from None, bool, int, float (by its repr; nan excluded from equality), str, objects of other classes "
    "(observed only through str()), lists and string-keyed dictionaries; equality of contexts is type-strict (True and 1, 1 and "
    "1.0 differ, as they do for to_string); dictionaries with other keys exist only in the to_string sub-model JVal; tuples, sets, "
    "frozensets, bytearrays and foreign objects with state exist in the heap model (UpdateContext, to_string) and in the oracle",
    "str() of a container is modelled (repr in insertion order) when its strings are printable ASCII without quotes and "
    "backslashes; otherwise the model answers 'unmodelled' and only the oracle judges",
    "key paths are lists of non-empty, dot-free keys (WFPath): dotted strings with empty components are documented as undefined; "
    "they are still compared with the model, but the oracle is silent on them",
    "names used in jinja2 fields are not attributes of dict/str/int (items, keys, real, ...) nor jinja2 globals/keywords",
    "aliasing (deep copies) is not expressible in the value model; it is stated in the heap model (Model/C08Heap.lean: "
    "dictionaries, lists and other mutable objects carry addresses, tuples/frozensets are immutable containers of possibly mutable "
    "members; values are trees) and observed on the real code by changing in place every dictionary, list, set, bytearray and "
    "foreign object with state reachable from the inserted item (through tuples too) and re-reading the default, the update "
    "argument, the source item and a second call; the heap model is compared with those observations; sharing INSIDE one value "
    "(the memo of copy.deepcopy) is not modelled",
    "contexts and sub-dictionaries may be instances of dict subclasses (OrderedDict, defaultdict(dict), lena.context.Context, a "
    "class with __missing__): for lena they are dictionaries, the model gets the dictionary of their items. jinja2 reads a nested "
    "dictionary with obj[name], which for a class with __missing__ answers (and for defaultdict stores) an item that is not there: "
    "format-string updates of UpdateContext (value=False) are not exercised on such contexts - third-party behaviour, recorded in "
    "notes/adversary_C08.md - while get_recursively, contains, format_context, format_update_with, DeleteContext and "
    "UpdateContext with a plain value or value=True are",
    "a foreign object that can be indexed with a string (class Idx: __getitem__/__contains__/get/keys, not a dict) is a value like "
    "any other: a key path through it names nothing (model: a foreign object); jinja2 would subscript it, so it is not put under "
    "format-string updates either",
    "JSON has one array type: to_string writes a tuple like a list, so {'a': (1, 2)} and {'a': [1, 2]} - different for Python - "
    "give the same string (to_string_tuple_list_collide). 'Different dictionaries give different strings' is demanded up to "
    "tuple/list; 'equal dictionaries give equal strings' is demanded for Python's own == (a tuple equals only a tuple)",
    "JUDGEMENT (adversary candidate 5): UpdateContextFromStatic.run (lena/meta/elements.py, an anchored file because SetContext "
    "lives there) is not one of the callables the statement names (UpdateContext, DeleteContext, format_update_with); that it "
    "copies the static context is the subject of C13, whose check reports the candidate with a failing input. Not checked here",
    "a builtin ValueError raised by str.format at call time for a template that is not 'literals and {{fields}}' is the documented "
    "behaviour of format_context and not counted as a foreign exception",
    "'different dictionaries give different strings' is proved at the level of tokens for all values and at the level of "
    "characters for values without numbers; the full character-level statement (to_string_inj_full) is FALSE of the model, which "
    "holds a float as an arbitrary repr string (float '1' is spelled like int 1: to_string_inj_full_false) - that real float reprs "
    "and decimal integers are decodable and distinct is trusted and sampled by the tostr families",
    "the data of a value are opaque to the model (Item is parametric in them): 'leave the data untouched' is established on the "
    "real code only (identity of the data object, payload unchanged), not by a theorem",
    "replacing a scalar that lies ON the path to the sub-context by a dictionary (UpdateContext('a.b', 1) on {'a': 5}) is read "
    "as part of writing the addressed item, not as touching another item: update_exact and the reference ref_set speak about "
    "paths that are not prefix-comparable with the sub-context",
    "get_recursively with a dictionary notation whose innermost value is a non-empty list or a foreign object (it becomes a "
    "key; a list is unhashable: builtin TypeError when reached) is judged outside the malformed-argument sentence, which names "
    "UpdateContext, DeleteContext and format_update_with; the model answers 'unmodelled', the oracle accepts the TypeError",
    "contains through a list whose repr the model does not transcribe (a non-ASCII or quote-bearing string, a foreign object "
    "inside the list): the model's contains answers False there, the driver reports that field as declined and it is not compared",
    "blanks are the str.isspace() characters listed in Model/C08.lean (isSpace); the Unicode database is not consulted",
    "key paths of UpdateContext sub-contexts and DeleteContext keys are exercised up to 5 components, templates up to 3 fields; "
    "the theorems have no such bound",
]
RULE = ("addr: every context over keys {a,b} of depth <= 2 with leaves {1,'b',None} (400) and - thorough: every, quick: 400 sampled - "
        "context of depth <= 3 with leaves {1,'b'} (21609) x every key path of length 0..4 over {a,b,1} (121) x dotted/list/two "
        "dictionary notations, with and without default, contains, plus seeded random contexts of depth <= 3 with lists, floats "
        "and objects (str() given or raising) as leaves; getx: malformed keys and dictionaries; s2d: all dotted strings of <= 4 "
        "components over {a,b,''} x values, non-string arguments; format: all templates of 0..2 (thorough 3) fields (paths of "
        "length 1..3 over {a,b,c}) with literals from {'', 'x_', ': !'} x 16 contexts (dictionary-, list-, float-valued fields "
        "included), every string of length <= 6 over '{}a.' (thorough <= 7, plus '!:'), non-strings; tostr: families of contexts "
        "with every key order and one-step mutants, lists, floats, unserialisable objects; tostrj: dictionaries with int/bool/"
        "None/float/object keys in all pairs and orders; uc: the complete option matrix value x default x skip x raise x "
        "recursively (default in {absent, 0, None, a dictionary}) x 18 update kinds x 4 subcontexts on 17 items, 17 edge templates "
        "({{ a }}, Unicode blanks, trailing newline, ...) x options, sub-contexts of 4 and 5 components, keys with blanks at their "
        "ends / quotes / backslashes / non-ASCII, non-string subcontexts; dc: all paths <= 3 over {a,b} in string/list/tuple form, "
        "paths of 4-5 components, keys with blanks, non-string keys and list/tuple keys with a non-string member at every "
        "position; addr/s2d/tostr also over keys and strings ' a', 'a ', 'a b', 'q\"', '\\', 'e-acute', newline; fuw/setctx/upd "
        "likewise incl. non-string keys; context: Context.__call__/__getattr__/__repr__ on the item set; every case also executes "
        "the specification-side definitions (WFPath, EntriesWF, Piece.WF, StrFields, renderSpec, templateString, IllFormed, "
        "NotTemplate, ucSet/delPath/nestPath/subDict, pyStrVal, pyEq) in the driver and compares them with Python references; "
        "seeded random cases of every kind. Adversary round 1: addr/getx/format/fuw/setctx/upd/uc/dc on contexts whose "
        "dictionaries are OrderedDict/defaultdict/lena Context/__missing__ instances (every level, one class or mixed) and with "
        "indexable foreign objects as values; format_context fields with blanks at the ends of a key ([' a'], ['a ', 'b '], ...) x "
        "contexts holding both ' a' and 'a', every string of length 5..6 (thorough 7) over '{} a.' with a blank and balanced "
        "braces; to_string on values with tuples (dictionaries inside tuples in every key order), floats from a pool of awkward "
        "values (0.1+0.2, 1+1e-13, 5e-324, 2**53, ...) and random ones, long strings, each with up to 40-60 near misses (the "
        "neighbouring floats, the float rounded to 17..3 digits, int/str/bool confusions, strings that differ in a blank, the case, "
        "the last character, a homoglyph, an NFC/NFD form, a key renamed or moved one level, a member dropped/added/swapped, a "
        "list for a tuple); format_update_with/SetContext/UpdateContext with dictionary and list VALUES that hold formatting "
        "strings; seed round K: format_update_with/SetContext with every string over '{', '}', 'a' of length 1..4 (thorough 5) that "
        "holds a brace, and braces inside otherwise plain text ('[0, 1}', 'x}', '}}', '}{', 'set {1, 2}', ...) as VALUES - a string "
        "without an opening brace is the given value, one with it a (possibly malformed) template - and UpdateContext with the "
        "closing-brace-only strings as update x missing-key options; "
        "UpdateContext inserting (plain value / value=True source / default) tuples of lists, sets, tuples holding "
        "dictionaries, frozensets, bytearrays, foreign objects with state - also through the heap model. "
        "Non-trivial: a present item is returned/rendered/changed, or a documented exception is raised.")
CASE_TIMEOUT = 20

MISSING = object()
RAISES = object()

# ---------------------------------------------------------------------------------------------
# wire form


class Obj:
    """an object of a class lena knows nothing about: str() gives `s` or raises; hashable; not JSON-serialisable"""

    def __init__(self, s):
        self.s = s

    def __str__(self):
        if self.s is None:
            raise RuntimeError("no string representation")
        return self.s

    def __repr__(self):
        return "<Obj %r>" % (self.s,)

    def __eq__(self, other):
        return type(other) is type(self) and other.s == self.s

    def __hash__(self):
        return hash(self.s)


class Idx(Obj):
    """a foreign object that can be indexed with a string (a mapping that is not a `dict`: think of UserDict or a
    MappingProxy): every key is 'present' and gives 7.  For lena it is a value like any other - a key path that goes through it
    names nothing.  What is written into it is remembered (and seen by ==)."""

    def __init__(self, s):
        Obj.__init__(self, s)
        self.m = {}

    def __getitem__(self, k):
        return self.m.get(k, 7)

    def __setitem__(self, k, v):
        self.m[k] = v

    def __delitem__(self, k):
        self.m[k] = "deleted"

    def __contains__(self, k):
        return True

    def get(self, k, default=None):
        return self.m.get(k, 7)

    def keys(self):
        return ["a", "b"]

    def __iter__(self):
        return iter(["a", "b"])

    def __len__(self):
        return 2

    def __repr__(self):
        return "<Idx %r %r>" % (self.s, self.m)

    def __eq__(self, other):
        return type(other) is type(self) and other.s == self.s and other.m == self.m

    def __hash__(self):
        return hash(self.s)


class Box:
    """a foreign object with state that can be changed in place (a deep copy has its own state)"""

    def __init__(self, x):
        self.x = x

    def __repr__(self):
        return "<Box %r>" % (self.x,)

    def __eq__(self, other):
        return type(other) is type(self) and strict_eq(other.x, self.x)

    __hash__ = None


class MissingDict(dict):
    """a dict subclass that answers d[absent key] with {} (it does not store it): `key in d`, d.get and d[present key] are
    those of dict"""

    def __missing__(self, key):
        return {}


def _dict_classes():
    import collections
    import lena.context
    return {"od": collections.OrderedDict, "dd": lambda items=(): collections.defaultdict(dict, items),
            "cx": lambda items=(): lena.context.Context(items, formatter=_context_text), "md": MissingDict}


def _context_text(c):
    """formatter of the lena.context.Context instances used as contexts (the default one is json.dumps, which cannot write a
    foreign object)"""
    return "Context(%s)" % dict.__repr__(c)


def _dict_tag(v):
    import collections
    if type(v) is dict:
        return None
    if isinstance(v, collections.defaultdict):
        return "dd"
    if isinstance(v, collections.OrderedDict):
        return "od"
    if isinstance(v, MissingDict):
        return "md"
    if type(v).__name__ == "Context":
        return "cx"
    return "sub"


def enc(v, _stack=()):
    if isinstance(v, (dict, list, tuple, Box)):
        if id(v) in _stack:
            return {"py": "cycle"}          # a container that contains itself (only a broken implementation makes one)
        _stack = _stack + (id(v),)
    if isinstance(v, dict):
        w = {"d": [[k, enc(x, _stack)] for k, x in v.items()]}
        tag = _dict_tag(v)
        if tag:
            w["c"] = tag                   # an instance of a dict subclass
        return w
    if isinstance(v, list):
        return {"L": [enc(x, _stack) for x in v]}
    if isinstance(v, tuple):
        return {"T": [enc(x, _stack) for x in v]}
    if v is None or isinstance(v, (bool, int, str)):
        return v
    if isinstance(v, float):
        return {"f": repr(v)}
    if isinstance(v, Idx):
        return {"o": v.s, "ix": enc(v.m)}
    if isinstance(v, Obj):
        return {"o": v.s}
    if isinstance(v, Box):
        return {"box": enc(v.x, _stack)}
    if isinstance(v, (set, frozenset)):
        return {"FS" if isinstance(v, frozenset) else "S": sorted((enc(x) for x in v), key=jdump)}
    if isinstance(v, bytearray):
        return {"BA": list(v)}
    return {"py": type(v).__name__}


def dec(w):
    if isinstance(w, dict):
        if "d" in w:
            items = [(k, dec(x)) for k, x in w["d"]]
            if w.get("c") in ("od", "dd", "cx", "md"):
                return _dict_classes()[w["c"]](items)
            return dict(items)
        if "L" in w:
            return [dec(x) for x in w["L"]]
        if "T" in w:
            return tuple(dec(x) for x in w["T"])
        if "f" in w:
            return float(w["f"])
        if "o" in w:
            if "ix" in w:
                o = Idx(w["o"])
                o.m = dec(w["ix"]) if isinstance(w["ix"], dict) else {}
                return o
            return Obj(w["o"])
        if "box" in w:
            return Box(dec(w["box"]))
        if "S" in w:
            return set(dec(x) for x in w["S"])
        if "FS" in w:
            return frozenset(dec(x) for x in w["FS"])
        if "BA" in w:
            return bytearray(w["BA"])
        if w.get("py") == "set":
            return {1, 2}
        if w.get("py") == "tuple":
            return (1, 2)
        return object()
    return w


def decj(w):
    """wire form with arbitrary scalar keys: {"D": [[key, value], ...]}"""
    if isinstance(w, dict) and "D" in w:
        return {dec(k): decj(x) for k, x in w["D"]}
    if isinstance(w, dict) and "d" in w:
        return {k: decj(x) for k, x in w["d"]}
    if isinstance(w, dict) and "L" in w:
        return [decj(x) for x in w["L"]]
    return dec(w)


def modelable(w):
    """None/bool/int/str/float, objects with a known str(), lists and string-keyed dictionaries exist in the model (an
    instance of a dict subclass is sent as the dictionary of its items, an indexable foreign object as a foreign object)"""
    if isinstance(w, dict):
        if "d" in w:
            return all(isinstance(k, str) and modelable(x) for k, x in w["d"])
        if "L" in w:
            return all(modelable(x) for x in w["L"])
        return "f" in w or "o" in w
    return w is None or isinstance(w, (bool, int, str))


def wire_has_subclass(w):
    """is a dictionary of the wire value an instance of a dict subclass (its str() is not the repr of the dictionary)"""
    if isinstance(w, dict):
        if "d" in w:
            return "c" in w or any(wire_has_subclass(x) for _, x in w["d"])
        for k in ("L", "T"):
            if k in w:
                return any(wire_has_subclass(x) for x in w[k])
    return False


def tuples_as_lists(w):
    """json.dumps writes a tuple as an array: the wire value with every tuple replaced by a list (to_string only)"""
    if isinstance(w, dict):
        if "d" in w:
            return {"d": [[k, tuples_as_lists(x)] for k, x in w["d"]]}
        if "L" in w or "T" in w:
            return {"L": [tuples_as_lists(x) for x in w.get("L", w.get("T"))]}
    return w


def has_tuple(w):
    if isinstance(w, dict):
        if "T" in w:
            return True
        if "d" in w:
            return any(has_tuple(x) for _, x in w["d"])
        if "L" in w:
            return any(has_tuple(x) for x in w["L"])
    return False


def for_model(j):
    """a request as the driver reads it: the class of a dict-subclass instance and the contents of an indexable object
    are not part of the model's values"""
    if isinstance(j, dict):
        if "d" in j and "c" in j:
            j = {k: v for k, v in j.items() if k != "c"}
        if "o" in j and "ix" in j:
            j = {k: v for k, v in j.items() if k != "ix"}
        return {k: for_model(v) for k, v in j.items()}
    if isinstance(j, list):
        return [for_model(v) for v in j]
    return j


def strict_eq(a, b, _depth=0, arrays=False):
    """equality of contexts that does not identify True with 1 (an instance of a dict subclass equals the dictionary with
    its items, as in Python).  arrays=True: a tuple and a list with equal members are identified (JSON has one array type)"""
    if _depth > 60:
        return False                # a cyclic structure is never equal to a reference value
    if isinstance(a, dict) and isinstance(b, dict):
        return a.keys() == b.keys() and all(strict_eq(a[k], b[k], _depth + 1, arrays) for k in a)
    if isinstance(a, (list, tuple)) and isinstance(b, (list, tuple)) and (arrays or type(a) is type(b)):
        return len(a) == len(b) and all(strict_eq(x, y, _depth + 1, arrays) for x, y in zip(a, b))
    if isinstance(a, float) and isinstance(b, float):
        return repr(a) == repr(b)
    if isinstance(a, Box) and isinstance(b, Box):
        return strict_eq(a.x, b.x, _depth + 1, arrays)
    return type(a) is type(b) and a == b


def canon_w(w):
    """order-insensitive canonical form of a wire value (for comparing with the model)"""
    if isinstance(w, dict) and "d" in w:
        return {"d": sorted(([k, canon_w(x)] for k, x in w["d"]), key=lambda kv: kv[0])}
    if isinstance(w, dict) and "L" in w:
        return {"L": [canon_w(x) for x in w["L"]]}
    if isinstance(w, dict) and "o" in w:
        return {"o": w["o"]}
    for tag in ("T", "S", "FS"):
        if isinstance(w, dict) and tag in w:
            return {tag: [canon_w(x) for x in w[tag]]}
    if isinstance(w, dict) and "box" in w:
        return {"box": canon_w(w["box"])}
    return w


def weq(a, b):
    return jdump(canon_w(a)) == jdump(canon_w(b))


# ---------------------------------------------------------------------------------------------
# reference semantics (the property's own notions, on plain Python values)


def ref_get(d, path):
    """the item a key path names: walk the dictionaries; MISSING when a key is absent or a scalar is met"""
    cur = d
    for k in path:
        if not isinstance(cur, dict) or k not in cur:
            return MISSING
        cur = cur[k]
    return cur


def ref_merge(dst, src):
    for k, v in src.items():
        if isinstance(v, dict) and isinstance(dst.get(k, MISSING), dict):
            ref_merge(dst[k], v)
        else:
            dst[k] = copy.deepcopy(v)


def ref_set(ctx, path, v, recursively=True):
    """set the item named by a non-empty path: the dictionaries on the way are created (a scalar on the way is
    replaced); with `recursively` a dictionary is merged into an existing dictionary"""
    cur = ctx
    for k in path[:-1]:
        if not isinstance(cur.get(k, MISSING), dict):
            cur[k] = {}
        cur = cur[k]
    last = path[-1]
    if recursively and isinstance(v, dict) and isinstance(cur.get(last, MISSING), dict):
        ref_merge(cur[last], v)
    else:
        cur[last] = copy.deepcopy(v)
    return ctx


def ref_del(ctx, path):
    if not path:
        ctx.clear()
        return ctx
    parent = ref_get(ctx, path[:-1])
    if isinstance(parent, dict):
        parent.pop(path[-1], None)
    return ctx


def wf_path(p):
    return all(isinstance(k, str) and k != "" and "." not in k for k in p)


def template_of(pieces, spaces=False):
    out = []
    for kind, x in pieces:
        if kind == "lit":
            out.append(x)
        else:
            out.append(("{{ %s }}" if spaces else "{{%s}}") % ".".join(x))
    return "".join(out)


def ref_render(pieces, ctx, undefined="error"):
    """literals interleaved with str(item); undefined: 'error' -> MISSING when a field is absent, 'empty' -> ''"""
    out = []
    for kind, x in pieces:
        if kind == "lit":
            out.append(x)
        else:
            v = ref_get(ctx, x)
            if v is MISSING:
                if undefined == "error":
                    return MISSING
                v = ""
            try:
                out.append(str(v))
            except Exception:
                return RAISES         # a user object whose __str__ raises: that exception leaves, nothing is demanded
    return "".join(out)


def one_key_dict(path, form):
    """the one-key-per-level dictionary notation of a key path.  form 'v': the last key is the innermost value
    ({'a': {'b': 'c'}}, what str_to_dict('a.b.c') gives; needs >= 2 keys); form 'e': the innermost value is {}"""
    if form == "v":
        cur = path[-1]
        for k in reversed(path[:-1]):
            cur = {k: cur}
        return cur
    cur = {}
    for k in reversed(path):
        cur = {k: cur}
    return cur


# ---------------------------------------------------------------------------------------------
# generation helpers


def all_dicts(keys, leaves, depth):
    """all dictionaries over `keys` whose values are leaves or dictionaries of smaller depth (depth >= 1)"""
    vals = list(leaves)
    if depth > 1:
        vals = vals + all_dicts(keys, leaves, depth - 1)
    out = []
    for combo in itertools.product([MISSING] + vals, repeat=len(keys)):
        out.append({k: copy.deepcopy(v) for k, v in zip(keys, combo) if v is not MISSING})
    return out


def all_paths(alpha, maxlen):
    out = []
    for n in range(maxlen + 1):
        out.extend(list(p) for p in itertools.product(alpha, repeat=n))
    return out


RICH_LEAVES = (1, "b", None, False, 0, "", True, "1", -3, "None", [1, 2], [], 2.5, [{"k": 1}, "x"], Obj("b"), Obj(None), 0.0,
               float("inf"), ["b"])


def rand_ctx(rng, keys, depth, leaves=(1, "b", None, False, 0, "", True, "1", -3, "None")):
    d = {}
    ks = list(keys)
    rng.shuffle(ks)
    for k in ks:
        r = rng.random()
        if r < 0.35:
            continue
        if r < 0.7 or depth <= 1:
            d[k] = copy.deepcopy(rng.choice(leaves))
        else:
            d[k] = rand_ctx(rng, keys, depth - 1, leaves)
    return d


def mutants(v):
    """dictionaries that differ from v in exactly one place"""
    out = []
    if not isinstance(v, dict):
        return out
    for k in list(v):
        w = copy.deepcopy(v)
        del w[k]
        out.append(w)
        x = v[k]
        for repl in (1, "1", True, None, {}, "b", 0, False, ""):
            if not strict_eq(x, repl):
                w = copy.deepcopy(v)
                w[k] = repl
                out.append(w)
        if isinstance(x, dict):
            for m in mutants(x):
                w = copy.deepcopy(v)
                w[k] = m
                out.append(w)
    for k in ("a", "b", "zz"):
        if k not in v:
            w = copy.deepcopy(v)
            w[k] = 1
            out.append(w)
    return out


def dress(v, pick):
    """the same context with every dictionary an instance of the dict subclass pick() names (None: a plain dict): OrderedDict,
    defaultdict(dict), lena.context.Context, MissingDict - to lena a context of such a class is a dictionary"""
    if isinstance(v, dict):
        tag = pick()
        items = [(k, dress(x, pick)) for k, x in v.items()]
        return _dict_classes()[tag](items) if tag else dict(items)
    if isinstance(v, list):
        return [dress(x, pick) for x in v]
    if isinstance(v, tuple):
        return tuple(dress(x, pick) for x in v)
    return copy.deepcopy(v)


DICT_TAGS = ("od", "dd", "cx", "md")


def scramble(v, mode):
    """an equal value with another insertion order in every dictionary, at every level (also inside lists and tuples)"""
    if isinstance(v, (list, tuple)):
        return type(v)(scramble(x, mode) for x in v)
    if not isinstance(v, dict):
        return copy.deepcopy(v)
    items = list(v.items())
    if mode == "rev":
        items = items[::-1]
    elif mode == "rot" and items:
        items = items[1:] + items[:1]
    return {k: scramble(x, mode) for k, x in items}


def _float_neighbours(x):
    import math
    out = []
    if math.isnan(x) or math.isinf(x):
        return [0.0, 1.0, None, "Infinity", "NaN"]
    out += [math.nextafter(x, math.inf), math.nextafter(x, -math.inf), x * (1 + 2.0 ** -40), x * (1 - 2.0 ** -44), -x]
    for fmt in ("%.17g", "%.16g", "%.15g", "%.12g", "%.8g", "%.6g", "%.3g", "%f", "%e"):
        out.append(float(fmt % x))
    out.append(round(x, 10))
    out.append(round(x, 2))
    if x == int(x) and abs(x) < 1e300:
        out.append(int(x))
        out.append(int(x) + 1)
    out.append(repr(x))
    return out


def near_values(x):
    """values that differ from the leaf x 'as little as possible' (what a lossy encoder would confuse it with)"""
    if isinstance(x, bool):
        return [int(x), str(x), str(x).lower(), not x, None]
    if isinstance(x, float):
        return _float_neighbours(x)
    if isinstance(x, int):
        return [x + 1, x - 1, float(x), str(x), -x, x + 2 ** 53, bool(x) if x in (0, 1) else x * 10, [x], None]
    if isinstance(x, str):
        return [x + " ", " " + x, x.upper(), x.lower(), x[:-1], x + x[-1:], x + "\x00", x.strip(), x.replace(" ", ""),
                x.replace("e", "\u00e9"), x[:40], x[-40:], [x], x.replace("a", "\u0430"), None, "\ufeff" + x, x + "\u200b"]
    if x is None:
        return ["null", "None", 0, False, "", {}, []]
    return []


def near_misses(v, limit=None):
    """values that differ from v in exactly one place, by a 'near' value: a neighbouring float, a renamed or moved key, a list
    or tuple with one member changed, dropped, added or swapped, a list for a tuple"""
    out = []
    if isinstance(v, dict):
        for k in list(v):
            for m in near_misses(v[k]):
                w = dict(v)
                w[k] = m
                out.append(w)
            w = {kk: x for kk, x in v.items() if kk != k}
            out.append(w)
            for k2 in (k + " ", " " + k, k.upper(), k + "\x00", k[:-1], k + "."):
                if k2 not in v:
                    out.append({(k2 if kk == k else kk): x for kk, x in v.items()})
            if isinstance(v[k], dict):
                for kk2, x2 in v[k].items():
                    if kk2 not in v:                # an item moved one level up
                        w = {kk: (x if kk != k else {a: b for a, b in x.items() if a != kk2}) for kk, x in v.items()}
                        w[kk2] = x2
                        out.append(w)
                out.append({kk: (x if kk != k else list(x.items())) for kk, x in v.items()})
                out.append({kk: (x if kk != k else [x]) for kk, x in v.items()})
        for k in ("a", "zz", ""):
            if k not in v:
                w = dict(v)
                w[k] = None
                out.append(w)
    elif isinstance(v, (list, tuple)):
        t = type(v)
        for i in range(len(v)):
            for m in near_misses(v[i]):
                out.append(t(list(v[:i]) + [m] + list(v[i + 1:])))
            out.append(t(list(v[:i]) + list(v[i + 1:])))
        out.append(t(list(v) + [None]))
        out.append(t([list(v)]))
        if len(v) > 1:
            out.append(t(list(v[1:]) + list(v[:1])))
        out.append({"0": list(v)})
    else:
        out = near_values(v)
    if limit is not None and len(out) > limit:
        step = len(out) / float(limit)
        out = [out[int(i * step)] for i in range(limit)]
    return out


def rand_value(rng, depth, tuples=True):
    """a JSON-serialisable value with floats, long strings, nested lists and tuples"""
    r = rng.random()
    if depth <= 0 or r < 0.45:
        k = rng.random()
        if k < 0.35:
            return rng.choice([0.1 + 0.2, 1.0000000000001, 1e-13, 2.5000000000000004, 1e16, 1e22, 123456.789, 5e-324, -0.0, 0.3,
                               1 / 3.0, 1e300, 0.1, 100.0, 1.5e-7, 2.0 ** 53, 9007199254740993.0, rng.random(), rng.random() * 1e6,
                               rng.uniform(-1, 1) * 10 ** rng.randint(-20, 20), float("inf"), 3.141592653589793])
        if k < 0.55:
            return rng.choice([0, 1, -1, 2 ** 53, 2 ** 53 + 1, 10 ** 20, 10 ** 20 + 1, 255, -(2 ** 63), rng.randint(-10 ** 6, 10 ** 6)])
        if k < 0.85:
            return rng.choice(["", "x", "x y", "Name", "name", "a" * 60 + "b", "a" * 60 + "c", "é", "é", "1", "1.0", "true",
                               "null", "\\newcommand{\\x}{1}", "{{a}}", "tab\there", "line\nbreak", "q\"uote", "[1,2]", "{}"])
        return rng.choice([None, True, False])
    if r < 0.7:
        return {k: rand_value(rng, depth - 1, tuples) for k in rng.sample(["a", "b", "c", "B", "a b", "unit", "name"], rng.randint(0, 3))}
    xs = [rand_value(rng, depth - 1, tuples) for _ in range(rng.randint(0, 3))]
    return tuple(xs) if (tuples and rng.random() < 0.5) else xs


ALIAS_VALUES = [
    ([0, 1, 2], [0, 5]),                    # a tuple of lists (histogram edges)
    {"pt>5"},                               # a set
    ({"colour": "red"}, 2),                 # a tuple holding a dictionary
    [({"k": [1]},)],
    {"k": ([1, {"z": 2}], "s")},
    Box([1, 2]),                            # a foreign object with state
    [Box({"q": 1})],
    (Box(1), [Box(2)]),
    frozenset({("a", 1)}),
    bytearray(b"ab"),
    (1, (2, [3])),
    {"s": {1, 2}, "t": (1, {2})},
    [[{"deep": [{"er": (1, [2])}]}]],
    Idx("ix"),
]


ITEM_CTXS = [
    None,
    {},
    {"a": 1},
    {"a": {"b": 2}},
    {"a": {"b": {"c": "deep", "a": 0}}, "b": "s"},
    {"b": {"a": None}, "a": "b"},
    {"a": {"a": 1, "b": {"a": True}}, "b": {"b": ""}},
    {"c": {"a": 1}, "a": {"c": {"b": "x"}}},
    {"a": "", "b": 0},
    {"b": {"a": {"b": 5}, "b": False}},
    {"a": {"b": 2}, "b": {"a": {"b": 5}}, "c": 7},
    {"a": False},
    {"a": {"b": {}}},
    {"b": 3, "a": {"b": "two", "a": {"b": 1}}},
    {"a": [1, "x"], "b": {"a": [{"k": 1}], "b": 2.5}},
    {"a": Obj("x.y"), "b": Obj(None)},
    {"a": {"b": [1, 2]}, "c": float("inf")},
]

LITS = ["", "x_", ": !"]


def field_templates(paths, nmax):
    """all piece lists with 0..nmax fields over `paths`, literals from LITS placed before/between/after"""
    out = []
    for n in range(nmax + 1):
        for fs in itertools.product(paths, repeat=n):
            for lits in ([LITS[(i + j) % 3] for i in range(n + 1)] for j in range(3)):
                pieces = []
                for i in range(n):
                    if lits[i]:
                        pieces.append(["lit", lits[i]])
                    pieces.append(["field", list(fs[i])])
                if lits[n]:
                    pieces.append(["lit", lits[n]])
                out.append(pieces)
    return out


VALUE_TEMPLATES = ["{{\xa0a\xa0}}", "{{\x1c}}", "{{\u2003a.b\u3000}}", "{{a}}\x85", "{{a}}\n", "{{a}} ", " {{a}}", "{{ }}", "{{\ta.b\n}}", "{{a }}x", "{{  b.a.b  }}", "{{a}}}", "{{{a}}", "{{a b}}",
                   "{{a}}\n\n", "{{}}"]
UC_UPDATES = [
    {"v": 7}, {"v": None}, {"v": {"d": [["n", 1]]}}, {"v": {"d": [["b", {"d": [["z", "q"]]}]]}}, {"v": {"d": []}},
    {"s": "plain"}, {"s": ""},
    {"pieces": [["field", ["a"]]]},
    {"pieces": [["field", ["a", "b"]]]},
    {"pieces": [["field", ["b", "a", "b"]]]},
    {"pieces": [["lit", "x_"], ["field", ["a"]]]},
    {"pieces": [["field", ["a", "b"]], ["lit", "_"], ["field", ["c"]]]},
    {"s": "{{a"}, {"s": "{{}}"}, {"s": "{a}"}, {"s": "{{a}}{{b}}"}, {"s": "{{a}}x"}, {"s": "{{ a.b }}"},
]
UC_DEFAULTS = [MISSING, 0, None, {"scale": "lin", "n": {"m": 1}}]
UC_SUBCONTEXTS = ["o", "a.b", "b.a.c", "a"]


def uc_update_str(u):
    if "pieces" in u:
        return template_of(u["pieces"])
    return u.get("s")


_CTX = None
_STATS = {"outcomes": 0, "unmodelled": 0, "by_op": {}}


def _count(op, unmodelled):
    """how many compared outcomes the model declined to predict ('unmodelled'); written into the evidence notes"""
    _STATS["outcomes"] += 1
    if unmodelled:
        _STATS["unmodelled"] += 1
        _STATS["by_op"][op] = _STATS["by_op"].get(op, 0) + 1
    if _CTX is not None:
        _CTX.notes = [f"model declined (unmodelled) on {_STATS['unmodelled']} of {_STATS['outcomes']} compared outcomes "
                      f"(by kind of case: {dict(sorted(_STATS['by_op'].items()))}); those are judged by the oracle only"]


def gen_cases(ctx):
    global _CTX
    _CTX = ctx
    rng = ctx.rng
    thorough = ctx.tier == "thorough"
    ctx.exhaustive = False
    # ---- addressing -------------------------------------------------------------------------
    alpha = ["a", "b", "1"]
    for d in all_dicts(["a", "b"], [1, "b", None], 2):
        yield ({"op": "addr", "d": enc(d), "alpha": alpha, "maxlen": 4})
    deep = all_dicts(["a", "b"], [1, "b"], 3)
    if thorough:
        for i, d in enumerate(deep):
            yield ({"op": "addr", "d": enc(d), "alpha": alpha, "maxlen": 4 if i % 4 == 0 else 3})
    else:
        for d in rng.sample(deep, 400):
            yield ({"op": "addr", "d": enc(d), "alpha": alpha, "maxlen": 4})
    for _ in range(3000 if thorough else 150):
        keys = rng.choice([["a", "b", "c"], ["a", "1", "None"], ["a", "b", "True", "x.y"]])
        yield ({"op": "addr", "d": enc(rand_ctx(rng, keys, rng.randint(1, 3), RICH_LEAVES if rng.random() < 0.5 else RICH_LEAVES[:10])),
                "alpha": rng.sample(["a", "b", "c", "1", "None", "True", "False", "0", "[1, 2]", "2.5", "['b']", "[]"], 3),
                "maxlen": 3})
    # keys and strings with blanks at their ends, characters that JSON escapes, non-ASCII text (review F2)
    odd = [" a", "a ", "a"]
    for d in all_dicts([" a", "a "], [1, " a"], 2):
        yield ({"op": "addr", "d": enc(d), "alpha": odd, "maxlen": 3})
    for keys, alpha in (([" a ", "é", 'q"'], [" a ", "é", 'q"']), (["\\", "a b", "\n"], ["\\", "a b", "\n"]),
                        (["\xa0a", "a", "x y"], ["\xa0a", "a", "x y"])):
        for _ in range(40 if thorough else 10):
            yield ({"op": "addr", "d": enc(rand_ctx(rng, keys, 3, leaves=(1, " a", "a ", "x y", 'q"', "é", None, [" a"], "\\"))),
                    "alpha": alpha, "maxlen": 3})
    # malformed / special key arguments
    base = enc({"a": {"b": 1, "c": {"a": 2}}, "b": 5})
    bad_keys = [{"o": 0}, {"l": ["a", 1]}, {"l": [None]}, {"l": []}, {"l": ["a", "b"]}, {"l": ["a", ""]}, {"l": [""]},
                {"k": enc({})}, {"k": enc({"a": 1, "b": 2})}, {"k": enc({"a": {"b": 1, "c": 2}})},
                {"k": enc({"a": {"b": {"x": 1, "y": 2}}})}, {"k": enc({"a": None})}, {"k": enc({"a": 0})},
                {"k": enc({"a": ""})}, {"k": enc({"a": False})}, {"k": enc({"a": True})}, {"k": enc({"a": 5})},
                {"k": enc({"a": {"b": 1}})}, {"k": enc({"a": {"c": "a"}})}, {"k": enc({"a": {"c": {}}})},
                {"s": ""}, {"s": "."}, {"s": "a..b"}, {"s": ".a."}, {"s": "a.b."}, {"s": "a.c.a"},
                {"k": enc({"a": ["x"]})}, {"k": enc({"a": {"b": [1]}})}, {"k": enc({"a": {"c": Obj("c")}})}, {"k": enc({"a": []})},
                {"k": enc({"zz": ["x"]})}, {"s": " a.b"}, {"s": "a .b"}, {"s": " a. b "}]
    for k in bad_keys:
        for d in (base, 5, None, "a", enc({})):
            for dflt in (MISSING, None, enc({"x": 1})):
                c = {"op": "getx", "d": d, "keys": k}
                if dflt is not MISSING:
                    c["default"] = dflt
                yield (c)
    # ---- str_to_dict / str_to_list -------------------------------------------------------------
    comp = ["a", "b", ""]
    for n in range(0, 5):
        for parts in itertools.product(comp, repeat=n):
            s = ".".join(parts)
            if n == 0 or (n == 1 and parts[0] == ""):
                s = "" if n == 0 else "."
            for v in (MISSING, 5, None, enc({"k": 1}), "a.b", enc({})):
                c = {"op": "s2d", "s": s}
                if v is not MISSING:
                    c["value"] = v
                yield (c)
    for s in ("a.b.c d", "output.changed", "x", "a b", "None.1"):
        yield ({"op": "s2d", "s": s})
        yield ({"op": "s2d", "s": s, "value": True})
    for n in range(1, 4):
        for parts in itertools.product([" a", "a ", "b", "é", " "], repeat=n):
            for v in (MISSING, 7):
                c = {"op": "s2d", "s": ".".join(parts)}
                if v is not MISSING:
                    c["value"] = v
                yield (c)
    for s in (5, None, {"L": ["a", "b"]}, {"d": [["a", 1]]}, True, {"f": "1.5"}):
        yield ({"op": "s2d", "s": s})
        yield ({"op": "s2d", "s": s, "value": 1})
    # ---- format_context ---------------------------------------------------------------------
    fctxs = [enc(c) for c in ITEM_CTXS[1:]]
    fpaths = [["a"], ["b"], ["a", "b"], ["b", "a"], ["a", "b", "c"]]
    for pieces in field_templates(fpaths, 2 if not thorough else 3):
        yield ({"op": "format", "pieces": pieces, "ctxs": fctxs})
    if not thorough:
        for _ in range(120):
            fs = [rng.choice(fpaths) for _ in range(3)]
            pieces = []
            for f in fs:
                pieces.append(["lit", rng.choice(LITS + ["a.b", "}"[:0]])])
                pieces.append(["field", f])
            pieces = [p for p in pieces if p[1] != ""]
            yield ({"op": "format", "pieces": pieces, "ctxs": fctxs})
    raw_ctxs = [enc({}), enc({"a": 1}), enc({"a": {"a": 2, "b": "s"}}), enc({"a": {"a": {"a": None}}})]
    for n in range(0, 8 if thorough else 7):
        for t in itertools.product("{}a.", repeat=n):
            yield ({"op": "format", "raw": "".join(t), "ctxs": raw_ctxs})
    for n in range(0, 7 if thorough else 5):
        for t in itertools.product("{}a!:", repeat=n):
            s = "".join(t)
            if "!" in s or ":" in s:
                yield ({"op": "format", "raw": s, "ctxs": raw_ctxs})
    for t in ("{{a}}}}{{{{", "{{{{a}}}}", "{{{{{{a}}}}}}", "{{a.b}}_{{a.a}}", "{{a}} {{a}} {{a}}", "a{{", "}}a", "{{}}", "{{.}}"):
        yield ({"op": "format", "raw": t, "ctxs": raw_ctxs})
    for ns in ({"py": "int"}, None, {"L": []}):
        yield ({"op": "format", "nonstr": ns, "ctxs": []})
    # ---- to_string ------------------------------------------------------------------------------
    fam = all_dicts(["b", "a"], [1, True, "1"], 2)
    rng.shuffle(fam)
    step = 40
    for i in range(0, len(fam), step):
        chunk = fam[i:i + step]
        vs = []
        for v in chunk[: (step if thorough else 12)]:
            vs.extend([v, scramble(v, "rev")])
        yield ({"op": "tostr", "vs": [enc(v) for v in vs]})
    for _ in range(400 if thorough else 60):
        v = rand_ctx(rng, ["a", "b", "c", "ab", "B", "1", "a.b"], 3, leaves=(1, True, "1", None, 0, False, "", "a", -1, {}, "null"))
        vs = [v, scramble(v, "rev"), scramble(v, "rot")] + mutants(v)[:40]
        yield ({"op": "tostr", "vs": [enc(x) for x in vs]})
    yield ({"op": "tostr", "vs": [enc({}), enc({"a": {}}), enc({"a": None}), enc({"a": "null"}), enc({"a": "{}"}),
                                        enc({"a": 0}), enc({"a": False}), enc({"a": ""}), enc({"a": "0"}), enc({"": 0}),
                                        enc({"a": {"b": 1}, "b": 1}), enc({"a": {"b": 1, "b2": 1}}), enc({"a": {"b": {"b": 1}}}),
                                        enc({"a": "b", "c": "d"}), enc({"a": {"b": "c"}}), enc({"a,b": 1}), enc({"a": 1, "b": 1})]})
    yield ({"op": "tostr", "vs": [enc({"a": 1}), {"d": [["a", {"py": "set"}]]}, {"d": [["a", {"L": [1, 2]}]]},
                                        {"d": [["a", {"L": [1, {"d": [["b", 2], ["a", 1]]}]}]]},
                                        {"d": [["a", {"L": [1, {"d": [["a", 1], ["b", 2]]}]}]]},
                                        {"d": [["a", {"L": [2, 1]}]]}, {"d": [["a", {"L": []}]]}, {"d": [["a", {"d": []}]]},
                                        {"d": [["a", {"L": [{"L": [1]}, 2]}]]}, {"d": [["a", {"L": [{"L": [1, 2]}]}]]},
                                        {"d": [["a", {"f": "1.0"}]]}, {"d": [["a", {"f": "inf"}]]}, {"d": [["a", {"f": "-inf"}]]},
                                        {"d": [["a", {"f": "2.5"}]]}, {"d": [["a", "2.5"]]}, {"d": [["a", {"o": "x"}]]},
                                        {"d": [["a", {"L": [1, {"o": None}]}]]}, {"L": [1, 2]}, {"L": []}, 1, "1", None]})
    # strings that could forge structure or lose information in a sloppy encoder (review F2/F3)
    yield ({"op": "tostr", "vs": [enc(x) for x in (
        {"a": "x y"}, {"a": "xy"}, {"a b": 1}, {"ab": 1}, {"a": 'x","b":"y'}, {"a": "x", "b": "y"}, {"a": 'x\\","b":"y'},
        {"a": "x\\", "b": "y"}, {"a": '"'}, {"a": "\\"}, {"a": '\\"'}, {"a": "\\\\"}, {'a"': 1}, {"a\\": 1}, {"a": "é"},
        {"a": "\\u00e9"}, {"a": "e"}, {"é": 1}, {"a": "\n"}, {"a": "\\n"}, {"a": "n"}, {"a": " "}, {"a": ""}, {" a": 1}, {"a ": 1},
        {"a": 1}, {"a": " 1"}, {"a": "1 "}, {"a": "\t"}, {"a": "\x7f"}, {"a": "\u2028"}, {"a": "😀"}, {"a": ","}, {"a": ":"},
        {"a": "}"}, {"a": "{"}, {"a": ["x y"]}, {"a": ["x", "y"]}, {"a": ["x,y"]}, {"a": '","'}, {"a,": 1}, {"a": {"b c": 1}},
        {"a": {"bc": 1}}, {"a": "true"}, {"a": True}, {"a": "null"}, {"a": None}, {"a": "1"})]})
    for _ in range(300 if thorough else 40):
        v = rand_ctx(rng, ["a", " a", "a b", 'q"', "\\", "é"], 3, leaves=(1, " ", "x y", "xy", 'q"', "\\", "é", "\n", None, ["x y"], {}, "a"))
        vs = [v, scramble(v, "rev"), scramble(v, "rot")] + mutants(v)[:25]
        yield ({"op": "tostr", "vs": [enc(x) for x in vs]})
    for _ in range(300 if thorough else 40):
        v = rand_ctx(rng, ["a", "b", "c", "B"], 3, leaves=(1, True, "1", None, [1, 2], [], [{"b": 1, "a": 2}, 1], 2.5, 1.0, {}, "a"))
        vs = [v, scramble(v, "rev"), scramble(v, "rot")] + mutants(v)[:25]
        yield ({"op": "tostr", "vs": [enc(x) for x in vs]})
    # ---- to_string with keys that are not strings ----------------------------------------------------
    K = [1, 2, 10, -1, True, False, None, "1", "a", "b", {"f": "1.5"}, {"o": "x"}]
    for a, b in itertools.product(K, repeat=2):
        if dec(a) == dec(b) and not (isinstance(a, dict) or isinstance(b, dict)):
            continue                  # 1 and True are the same key
        if jdump(a) == jdump(b):
            continue
        yield ({"op": "tostrj", "vs": [{"D": [[a, 0], [b, {"D": [[b, None]]}]]}, {"D": [[b, {"D": [[b, None]]}], [a, 0]]},
                                        {"D": [[a, 0]]}, {"D": [[b, {"L": [1, {"D": [[a, 1]]}]}]]}]})
    for _ in range(300 if thorough else 40):
        ks = rng.sample([0, 1, 2, 3, 10, 11, -5, 100], rng.randint(2, 5))
        v1 = {"D": [[k, rng.choice([None, 1, "x", {"D": [[7, 1], [3, 2]]}])] for k in ks]}
        v2 = {"D": list(reversed(v1["D"]))}
        yield ({"op": "tostrj", "vs": [v1, v2, {"D": [[str(k), x] for k, x in v1["D"]]}]})
    # the well-formedness test of the theorems (no key twice), on wire values that no Python dict can hold
    yield ({"op": "wfdup", "vs": [{"d": [["a", 1], ["a", 2]]}, {"d": [["a", 1], ["b", {"d": [["c", 1], ["c", 1]]}]]},
                                  {"d": [["a", {"L": [1, {"d": [["x", 1], ["y", 2], ["x", 3]]}]}]]}, {"d": [["a", 1], ["b", 2]]},
                                  {"L": [{"d": [["k", 1]]}, {"d": [["k", 2]]}]}, {"d": []}, 5]})
    # ---- update_recursively -------------------------------------------------------------------
    small = all_dicts(["a", "b"], [1, None], 2)
    for _ in range(2500 if thorough else 250):
        d, o = rng.choice(small), rng.choice(small)
        yield ({"op": "upd", "d": enc(d), "other": {"v": enc(o)}})
    for d in (enc({"a": 1}), enc({}), 5):
        for o in ({"s": "a.b"}, {"s": "a"}, {"s": ""}, {"s": "a.b.c"}, {"v": 5}, {"v": enc({"a": {"b": 2}})}, {"v": None}):
            for v in (MISSING, True, enc({"z": 1})):
                c = {"op": "upd", "d": d, "other": o}
                if v is not MISSING:
                    c["value"] = v
                yield (c)
    # ---- format_update_with / SetContext ---------------------------------------------------------
    fuw_values = [5, None, "plain", enc({"n": 1}), enc({"b": {"z": 1}}), enc({}), {"pieces": [["field", ["a"]]]},
                  {"pieces": [["lit", "x_"], ["field", ["a", "b"]]]}, {"pieces": [["field", ["b"]], ["lit", "."], ["field", ["a", "b"]]]},
                  {"raw": "}}{{"}, {"raw": "{a}"}, {"raw": "{{a"}, {"raw": "}}{{{{a}}"}, {"raw": "{{a!r}}"}]
    for key in (5, None, {"L": ["a"]}, True):
        for v in fuw_values[:8]:
            yield ({"op": "fuw", "key": key, "value": v, "d": enc(ITEM_CTXS[4])})
            yield ({"op": "setctx", "key": key, "value": v, "ctxs": [enc(ITEM_CTXS[4])]})
    for key in ("o", "a.b", "b.a.c", "a", "", "a..b", "a."):
        for v in fuw_values:
            for d in ITEM_CTXS[1:9]:
                yield ({"op": "fuw", "key": key, "value": v, "d": enc(d)})
            yield ({"op": "fuw", "key": key, "value": v, "d": 5})
    for key in ("o", "a.b", "", "a"):
        for v in fuw_values:
            yield ({"op": "setctx", "key": key, "value": v, "ctxs": [enc(c) for c in ITEM_CTXS[1:8]]})
    # ---- UpdateContext: the option matrix --------------------------------------------------------
    items = [None if c is None else enc(c) for c in ITEM_CTXS]
    for sub in UC_SUBCONTEXTS:
        for upd in UC_UPDATES:
            for value in (False, True):
                for dflt in UC_DEFAULTS:
                    for skip in (False, True):
                        for rais in (False, True):
                            for rec in (True, False):
                                a = {"subcontext": sub, "update": upd, "value": value, "skip": skip, "raise": rais,
                                     "recursively": rec}
                                if dflt is not MISSING:
                                    a["default"] = enc(dflt)
                                c = {"op": "uc", "args": a, "items": items}
                                if "v" in upd or (value and "pieces" in upd and len(upd["pieces"]) == 1):
                                    c["alias"] = 1          # also run through the heap model (object identities)
                                yield (c)
    # templates at the edge of "{{key}}" (blanks, text after the braces): /verif/notes/C08_defect_2
    for t in VALUE_TEMPLATES + ["{{ a.b }}", "{{a.b}}"]:
        for value in (False, True):
            for dflt, skip, rais in ((MISSING, False, False), (0, False, False), (MISSING, True, False), (MISSING, False, True)):
                a = {"subcontext": "o", "update": {"s": t}, "value": value, "skip": skip, "raise": rais, "recursively": True}
                if dflt is not MISSING:
                    a["default"] = dflt
                yield ({"op": "uc", "args": a, "items": items})
    for sub in (None, 5, "", {"L": ["a"]}, "a..b", ".", "a."):
        for upd in ({"v": 1}, {"pieces": [["field", ["a"]]]}, {"s": "{{a"}):
            for value, dflt, skip in ((False, MISSING, False), (True, 0, False), (True, 0, True)):
                a = {"subcontext": sub, "update": upd, "value": value, "skip": skip, "raise": False, "recursively": True}
                if dflt is not MISSING:
                    a["default"] = dflt
                yield ({"op": "uc", "args": a, "items": items[:6]})
    # mutable defaults / updates that are lists (not sent to the model)
    for dflt in ({"L": [1, {"d": [["k", 1]]}]}, enc({"scale": "lin"})):
        for upd in ({"pieces": [["field", ["plot", "style"]]]}, {"pieces": [["field", ["a"]]]}):
            yield ({"op": "uc", "args": {"subcontext": "output.style", "update": upd, "value": True, "default": dflt,
                                               "skip": False, "raise": False, "recursively": True},
                          "items": [None, enc({"variable": "x"}), enc({"plot": {"style": {"scale": "log"}}}),
                                    {"d": [["a", {"L": [1, 2]}]]}, enc({"a": {"deep": {"er": 1}}})]})
    yield ({"op": "uc", "args": {"subcontext": "x", "update": {"v": {"L": [1, {"d": [["k", 1]]}]}}, "value": False,
                                       "skip": False, "raise": False, "recursively": True}, "items": items[:4]})
    for _ in range(3000 if thorough else 200):
        sub = ".".join(rng.choice(["a", "b", "c"]) for _ in range(rng.randint(1, 3)))
        kind = rng.random()
        if kind < 0.3:
            upd = {"v": enc(rng.choice([1, None, True, rand_ctx(rng, ["a", "b"], 2)]))}
        elif kind < 0.4:
            upd = {"s": rng.choice(["lit", "", "a.b", "{a}", "{{", "}}", "{{a}", "a}}"])}
        else:
            n = 1 if rng.random() < 0.5 else rng.randint(1, 3)
            pieces = []
            for _i in range(n):
                if rng.random() < 0.4:
                    pieces.append(["lit", rng.choice(["x", "_", " ", "a.b"])])
                pieces.append(["field", [rng.choice(["a", "b", "c"]) for _j in range(rng.randint(1, 3))]])
            if rng.random() < 0.3:
                pieces.append(["lit", rng.choice(["x", "_"])])
            upd = {"pieces": pieces}
        a = {"subcontext": sub, "update": upd, "value": rng.random() < 0.5, "skip": rng.random() < 0.3,
             "raise": rng.random() < 0.3, "recursively": rng.random() < 0.6}
        if rng.random() < 0.3:
            a["default"] = enc(rng.choice([0, None, {"dd": 1}, rand_ctx(rng, ["a", "b"], 2)]))
        its = [None] + [enc(rand_ctx(rng, ["a", "b", "c"], 3)) for _ in range(6)]
        yield ({"op": "uc", "args": a, "items": its})
    # ---- DeleteContext ---------------------------------------------------------------------------
    for p in all_paths(["a", "b"], 3):
        forms = [{"s": ".".join(p)}, {"l": list(p)}, {"t": list(p)}]
        for f in forms:
            yield ({"op": "dc", "key": f, "items": items})
    for s in ("a..b", ".", "a.", ".a", "c", "a.b.c.a"):
        yield ({"op": "dc", "key": {"s": s}, "items": items})
    for o in (5, None, {"d": [["a", {"d": [["b", 1]]}]]}, True, {"f": "1.5"}):
        yield ({"op": "dc", "key": {"o": o}, "items": items[:5]})
    # a list/tuple key with a member that is not a string, at every position (/verif/notes/C08_defect_3)
    bad = [5, None, {"L": ["b"]}, {"d": [["b", 1]]}, True, {"f": "1.5"}, {"L": []}]
    for b in bad:
        for members in ([b], ["a", b], [b, "a"], ["a", b, "b"], ["a", "b", b]):
            for form in ("l", "t"):
                yield ({"op": "dc", "key": {form: members}, "items": items[:5] + [enc({"a": {}}), enc({"a": {"b": {}}})]})
    # keys with blanks at the ends, longer paths
    blank_items = [None, enc({" a": {"a ": 1, "b": {" a": 2}}, "a": 5}), enc({"a ": {" a": {"a": {" a": {"a ": 7, "b": 8}}}}})]
    for p in all_paths([" a", "a ", "a"], 2) + [["a ", " a", "a", " a", "a "], ["a ", " a", "a", " a"], [" a", "b", " a"]]:
        for f in ({"s": ".".join(p)}, {"l": list(p)}, {"t": list(p)}):
            yield ({"op": "dc", "key": f, "items": blank_items})
    deep_items = [None, enc({"a": {"b": {"c": {"a": {"b": 1, "c": 2}, "b": 3}}}, "b": 0}), enc({"a": {"b": 5}}), enc({})]
    for p in (["a", "b", "c", "a"], ["a", "b", "c", "a", "b"], ["a", "b", "c", "b"], ["a", "b", "c", "a", "c"]):
        for f in ({"s": ".".join(p)}, {"l": list(p)}):
            yield ({"op": "dc", "key": f, "items": deep_items})
        for upd in ({"v": 7}, {"v": {"d": [["n", 1]]}}, {"pieces": [["field", ["b"]]]}):
            for value, rec in ((False, True), (False, False), (True, True)):
                if value and "v" in upd:
                    continue
                yield ({"op": "uc", "args": {"subcontext": ".".join(p), "update": upd, "value": value, "skip": False, "raise": False,
                                             "recursively": rec}, "items": deep_items})
    for sub in (" a", "a ", " a.a ", "a . b", "é.q\"", "a b.c"):
        for upd in ({"v": 7}, {"pieces": [["field", ["a"]]]}, {"s": "{{ a }}"}):
            for value in (False, True):
                if value and "v" in upd:
                    continue
                yield ({"op": "uc", "args": {"subcontext": sub, "update": upd, "value": value, "skip": False, "raise": False,
                                             "recursively": True}, "items": blank_items + [enc({"a": 1, " a": 2})]})
        yield ({"op": "fuw", "key": sub, "value": 5, "d": blank_items[1]})
        yield ({"op": "setctx", "key": sub, "value": "x y", "ctxs": blank_items[1:]})
    # ---- Context -----------------------------------------------------------------------------------
    for i in range(0, len(items), 4):
        yield ({"op": "context", "items": items[i:i + 4], "names": ["a", "b", "zz", "_a", "_private", "__x__", ""]})
    for _ in range(400 if thorough else 40):
        its = [None] + [enc(rand_ctx(rng, ["a", "b", "_c", "B"], 3, leaves=(1, True, "s", None, [1, 2], [], 2.5, {}, [{"b": 1, "a": 2}])))
                        for _ in range(4)]
        yield ({"op": "context", "items": its, "names": ["a", "b", "_c", "q"]})
    for _ in range(1500 if thorough else 100):
        p = [rng.choice(["a", "b", "c"]) for _ in range(rng.randint(0, 4))]
        its = [None] + [enc(rand_ctx(rng, ["a", "b", "c"], 3)) for _ in range(6)]
        yield ({"op": "dc", "key": rng.choice([{"s": ".".join(p)}, {"l": p}, {"t": p}]), "items": its})

    # ==== adversary round 1: kinds of values, containers and templates the families above never produced ==================
    yield from _gen_round1(ctx, rng, thorough, items)


def _gen_round1(ctx, rng, thorough, items):
    # ---- contexts that are instances of dict subclasses; foreign objects that can be indexed with a string ------------
    def picker(tag):
        return lambda: tag

    def rnd_picker():
        return lambda: rng.choice(DICT_TAGS + (None,))

    small = all_dicts(["a", "b"], [1, "b"], 2)
    for tag in DICT_TAGS:
        for d in (small if thorough else rng.sample(small, 40)):
            yield {"op": "addr", "d": enc(dress(d, picker(tag))), "alpha": ["a", "b", "1"], "maxlen": 3}
    ix_leaves = RICH_LEAVES[:10] + (Idx("b"), Idx("ix"), Idx(None), [1, 2], 2.5, Obj("b"))
    for _ in range(1500 if thorough else 120):
        keys = rng.choice([["a", "b", "c"], ["a", "1", "b"], ["a", "b", "ix"]])
        d = dress(rand_ctx(rng, keys, rng.randint(1, 3), ix_leaves), rnd_picker())
        yield {"op": "addr", "d": enc(d), "alpha": rng.sample(["a", "b", "c", "1", "ix", "7", "b"], 3), "maxlen": 3}
    base = {"a": {"b": 1, "c": {"a": 2}, "i": Idx("i")}, "b": 5}
    for tag in DICT_TAGS:
        d = enc(dress(base, picker(tag)))
        for k in ({"s": "a.c.a"}, {"s": "a.c.b"}, {"s": "c"}, {"s": "c.a"}, {"s": "a.b.c"}, {"s": "a.i.a"}, {"s": "a.i"}, {"l": ["a", "z"]},
                  {"l": ["z", "a"]}, {"l": ["a", "i", "b"]}, {"k": enc({"a": {"z": {}}})}, {"k": enc({"z": "a"})}, {"k": enc({"a": {"i": "a"}})},
                  {"l": []}, {"s": ""}):
            for dflt in (MISSING, None, enc({"x": 1})):
                c = {"op": "getx", "d": d, "keys": k}
                if dflt is not MISSING:
                    c["default"] = dflt
                yield c
    # ---- format_context: keys with blanks at their ends in a field, contexts of the kinds above ---------------------------
    bctxs = [enc({" a": "addressed", "a": "other", "a ": {"b ": 1, "b": 2, " a": "x"}, "b": {" a": 3}}),
             enc({"a": 1}), enc({" a": {"b ": "only blank keys"}}), enc({}),
             enc(dress({"a": {"b": 2}, "b": "s"}, picker("dd"))), enc(dress({"b": {"a": 1}, "a": {"a": {}}}, picker("md"))),
             enc({"a": Idx("ix"), "b": {"a": Idx("q"), "b": 1}}), enc(dress({"a": {"b": {"c": 0}}}, picker("cx")))]
    bpaths = [[" a"], ["a "], ["a"], [" a "], ["a ", "b "], ["a ", " a"], ["b", " a"], ["a", "b"], ["b", "a"], ["a", "b", "c"], ["a", "a"]]
    for pieces in field_templates(bpaths, 2 if thorough else 1):
        yield {"op": "format", "pieces": pieces, "ctxs": bctxs}
    for _ in range(600 if thorough else 80):
        pieces = []
        for _i in range(rng.randint(1, 3)):
            if rng.random() < 0.5:
                pieces.append(["lit", rng.choice(["x_", " ", ": !", "a.b", " a "])])
            pieces.append(["field", rng.choice(bpaths)])
        if rng.random() < 0.4:
            pieces.append(["lit", rng.choice([" ", "_y"])])
        yield {"op": "format", "pieces": pieces, "ctxs": bctxs}
    raw_b = [enc({}), enc({"a": 1, " a": 2, "a ": 3, " ": 4}), enc({" a": {" a": 5, "a": 6}, "a": {"a ": 7}}), enc({"a": {"a": 2}})]
    for n in range(5, 8 if thorough else 7):
        for t in itertools.product("{} a.", repeat=n):
            r = "".join(t)
            if " " in r and r.count("{") == r.count("}") >= 2 and "{{" in r:
                yield {"op": "format", "raw": r, "ctxs": raw_b}
    for r in ("{{ a}}", "{{a }}", "{{ a }}", "x_{{ a}}", "{{ a.a }}", "{{a. a}}", "{{ a}}{{a }}", "{{\ta}}", "{{a\n}}", "{{\xa0a}}", "{{ }}", "{{  }}",
              "{{ a}} {{a}}", "{{a}} ", " {{a}}"):
        yield {"op": "format", "raw": r, "ctxs": raw_b + [enc({"\ta": 1, "a\n": 2, "\xa0a": 3, "  ": 4})]}
    # ---- to_string: tuples, nested lists, near misses (neighbouring floats, long strings, renamed keys) -----------------------
    fixed = [{"variables": ({"name": "x", "unit": "cm"}, {"name": "y", "unit": "cm"})}, {"a": ((1, 2), [3, (4, {"z": 1, "y": 2})])},
             {"x": 0.1 + 0.2}, {"scale": 1.0000000000001}, {"edges": [0.0, 1e-13]}, {"a": {"b": 2.5000000000000004}}, {"t": ()},
             {"a": [{"b": [{"d": 1, "c": ({"f": 1, "e": 2},)}]}]}, {"n": 2 ** 53 + 1, "m": 10 ** 20}, {"s": "a" * 80}]
    for v in fixed:
        vs = [v, scramble(v, "rev"), scramble(v, "rot")] + near_misses(v, 60)
        yield {"op": "tostr", "vs": [enc(x) for x in vs]}
    for _ in range(1500 if thorough else 150):
        v = {k: rand_value(rng, 3) for k in rng.sample(["a", "b", "c", "unit", "B"], rng.randint(1, 3))}
        vs = [v, scramble(v, "rev"), scramble(v, "rot")] + near_misses(v, 40)
        yield {"op": "tostr", "vs": [enc(x) for x in vs]}
    for _ in range(200 if thorough else 20):
        v = {k: rand_value(rng, 2, tuples=False) for k in rng.sample(["a", "b", "c"], 2)}
        tag = rng.choice(DICT_TAGS)
        vs = [v, dress(scramble(v, "rev"), picker(tag)), dress(v, rnd_picker())] + near_misses(v, 10)
        yield {"op": "tostr", "vs": [enc(x) for x in vs]}
    # ---- format_update_with / SetContext: a value is "the given value" unless it is itself a formatting string -------------
    nested = [enc({"title": "{{a}}", "n": 1}), enc({"preamble": "\\newcommand{\\x}{1}"}), enc({"b": {"t": "{{a.b}}_{{zz}}"}}),
              enc(["{{a}}", {"k": "{{a}}"}]), enc({"u": "{a}"}), enc({"u": "{{a"}), enc({"a": {"b": "{{a.b}}"}}), enc([]), enc(["}}{{"]),
              {"T": ["{{a}}", 1]}, {"o": "{{a}}"}, {"pieces": [["field", [" a"]]]}, {"pieces": [["lit", "x_"], ["field", ["a ", "b "]]]},
              {"raw": "{{ a}}_{{a }}"}, {"raw": "{{ a }}"}]
    nd = [enc({"a": 1}), enc({"a": {"b": 2}, " a": "blank", "a ": {"b ": 3}}), enc({}), enc({"a": {"b": {"t": 0}}, "b": {"t": 1}}),
          enc(dress({"a": {"b": 2}, "b": {"a": 1}}, picker("dd"))), enc(dress({"a": {"b": 2}}, picker("od"))),
          enc({"a": Idx("ix"), "b": Idx("q")})]
    for key in ("o", "a.b", "b", "a", "b.t", "a.b.t.u"):
        for v in nested:
            for d in nd:
                yield {"op": "fuw", "key": key, "value": v, "d": d}
            yield {"op": "setctx", "key": key, "value": v, "ctxs": nd}
    # ---- format_update_with / SetContext / UpdateContext: string VALUES with braces anywhere (seed round K) --------------
    # "the given value": a string without an opening brace is a plain value whatever closing braces it holds ("[0, 1}",
    # "x}", "}}"); one with an opening brace is a template (rendered, or LenaValueError when malformed).  All strings over
    # { '{', '}', 'a' } up to length 4 (5 in the thorough tier: every order of single / doubled / unbalanced braces), and
    # braces inside otherwise plain text.
    brace_strs = ["".join(t) for n in range(1, 6 if thorough else 5) for t in itertools.product("{}a", repeat=n)]
    brace_strs = [s for s in brace_strs if "{" in s or "}" in s]
    brace_strs += ["[0, 1}", "x}", "a}}b}", "} }", "interval [a, b} of x", "\\frac{a}{b}", "}}.}}", "a.b}", "}{ }{", "{{a}} }", "} {{a}}",
                   "}} {{a.b}} }}", "{{a}}}}", "}}{{a}}", "{ }", "x {y", "set {1, 2}", "{{a}} {", "}\n}", "é}", "\"}\"", "}}}}}}"]
    bd = [enc({"a": 1}), enc({"a": {"b": 2}, "o": "old"}), enc({})]
    for s in brace_strs:
        v = {"raw": s}
        for key, d in (("a.b", bd[1]), ("o", bd[0]), ("a", bd[1]), ("b.a", bd[2])):
            yield {"op": "fuw", "key": key, "value": v, "d": d}
        yield {"op": "setctx", "key": "a.b", "value": v, "ctxs": bd}
        yield {"op": "setctx", "key": "o", "value": v, "ctxs": bd[:1]}
    uc_brace = [s for s in brace_strs if "{" not in s][:40] + ["}{", "x{", "{ }", "a}{b"]
    for s in uc_brace:
        for skip, rais in ((False, False), (True, False), (False, True)):
            yield {"op": "uc", "args": {"subcontext": "a.b", "update": {"s": s}, "value": False, "skip": skip, "raise": rais,
                                        "recursively": True}, "items": [None] + bd}
    for tag in DICT_TAGS:
        for d0 in (rng.sample(small, 8)):
            for o in (rng.sample(small, 3)):
                yield {"op": "upd", "d": enc(dress(d0, picker(tag))), "other": {"v": enc(dress(o, rnd_picker()))}}
    # ---- UpdateContext: what is inserted is a deep copy, whatever kind of container it is --------------------------------
    for val in ALIAS_VALUES:
        w = enc(val)
        src_items = [enc({"hist": {"edges": val}}), enc({"hist": {"edges": val}, "plot": {"edges": 0}}),
                     enc({"hist": {"edges": [val, {"k": val}]}, "plot": {"edges": {"old": 1}}}), None, enc({"hist": 5})]
        for sub in ("plot.edges", "style"):
            for rec in (True, False):
                yield {"op": "uc", "alias": 1, "args": {"subcontext": sub, "update": {"v": w}, "value": False, "skip": False, "raise": False,
                                            "recursively": rec},
                       "items": [None, enc({}), enc({"style": {"k": 1}, "plot": {"edges": {"k": [1]}}}), enc({"plot": 1})]}
                for dflt, skip in ((MISSING, False), (w, False), (enc({"dflt": val}), False), (MISSING, True)):
                    a = {"subcontext": sub, "update": {"pieces": [["field", ["hist", "edges"]]]}, "value": True, "skip": skip,
                         "raise": False, "recursively": rec}
                    if dflt is not MISSING:
                        a["default"] = dflt
                    yield {"op": "uc", "alias": 1, "args": a, "items": src_items}
    for _ in range(400 if thorough else 40):
        val = rand_value(rng, 3)
        if rng.random() < 0.5:
            val = rng.choice([(val, [val]), {"k": (val, {1, 2})}, [Box(val)], {"s": {("t", 1)}, "v": val}])
        a = {"subcontext": rng.choice(["o", "a.b", "hist.edges.x"]), "update": {"pieces": [["field", ["hist", "edges"]]]},
             "value": True, "skip": False, "raise": False, "recursively": rng.random() < 0.5}
        if rng.random() < 0.5:
            a["default"] = enc(val)
        yield {"op": "uc", "alias": 1, "args": a, "items": [enc({"hist": {"edges": val}}), enc({"hist": {"edges": [val]}, "a": {"b": {"c": 1}}}), None,
                                                  enc({"a": 1})]}
    # ---- UpdateContext / DeleteContext on contexts of dict subclasses and through indexable objects -----------------------
    sub_items = [None]
    for tag in DICT_TAGS:
        for i in (3, 4, 6, 9, 12):
            sub_items.append(enc(dress(ITEM_CTXS[i], picker(tag))))
    sub_items += [enc({"a": Idx("ix"), "b": {"a": Idx("q"), "b": 1}}), enc({"a": {"b": Idx("ix")}, "c": Idx(None)}),
                  enc(dress({"a": {"b": {"c": {"a": 1}}}, "b": {"a": {"b": 2}}}, rnd_picker()))]
    for sub in ("o", "a.b", "b.a.c", "a", "c.d"):
        for upd in ({"v": 7}, {"v": {"d": [["n", 1]]}}, {"s": "plain"}):
            for rec in (True, False):
                yield {"op": "uc", "alias": 1, "args": {"subcontext": sub, "update": upd, "value": False, "skip": False,
                                                        "raise": False, "recursively": rec}, "items": sub_items}
        for f in (["a"], ["a", "b"], ["b", "a", "b"], ["a", "c"], ["c"], ["c", "d"], ["a", "b", "c", "a"]):
            for dflt, skip, rais in ((MISSING, False, False), (0, False, False), (MISSING, True, False), (MISSING, False, True)):
                a = {"subcontext": sub, "update": {"pieces": [["field", f]]}, "value": True, "skip": skip, "raise": rais,
                     "recursively": True}
                if dflt is not MISSING:
                    a["default"] = dflt
                yield {"op": "uc", "alias": 1, "args": a, "items": sub_items}
    for pth in all_paths(["a", "b"], 3) + [["c"], ["a", "c"], ["c", "d"], ["b", "a", "c", "d"], ["a", "b", "c", "a"]]:
        for f in ({"s": ".".join(pth)}, {"l": list(pth)}, {"t": list(pth)}):
            yield {"op": "dc", "key": f, "items": sub_items}
    # a simple update whose value holds formatting strings: it is the given value
    for sub in ("o", "a.b"):
        for upd in ({"v": enc({"t": "{{a}}", "n": {"u": "{a}"}})}, {"v": enc(["{{a}}"])}):
            for rec in (True, False):
                yield {"op": "uc", "args": {"subcontext": sub, "update": upd, "value": False, "skip": False, "raise": False,
                                            "recursively": rec}, "items": items}


# ---------------------------------------------------------------------------------------------
# the real code


def _paths_of(case):
    ps = all_paths(case["alpha"], case["maxlen"])
    if "alpha4" in case:
        ps += [list(p) for p in itertools.product(case["alpha4"], repeat=4)]
    return ps


DFLT = {"__default__": 1}


def _get_variants(p):
    """the notations of a WF key path: (tag, python keys object)"""
    out = [("s", ".".join(p)), ("l", list(p)), ("e", one_key_dict(p, "e"))]
    if len(p) >= 2:
        out.append(("v", one_key_dict(p, "v")))
    return out


def _outcome(thunk, ident=MISSING):
    try:
        r = thunk()
    except Exception as e:
        return {"e": exc_name(e)}
    o = {"r": enc(r)}
    if ident is not MISSING:
        o["same"] = r is ident
    return o


def _wjson(v):
    return json.dumps(for_model(enc(v)), separators=(",", ":"))


def _code(thunk, ref):
    """compact outcome of a lookup: '=' the item itself, 'D' the default object, an exception name, else the value"""
    try:
        r = thunk()
    except Exception as e:
        return exc_name(e)
    if ref is not MISSING and r is ref:
        return "="
    if r is DFLT:
        return "D"
    return "r:" + _wjson(r)


def _poke(v, _seen=None):
    """change everything reachable from v that can be changed in place - dictionaries, lists, sets, bytearrays, the state of
    foreign objects -, also inside tuples and frozensets (each object once, also through cycles)"""
    _seen = set() if _seen is None else _seen
    if id(v) in _seen:
        return
    _seen.add(id(v))
    if isinstance(v, dict):
        for x in list(v.values()):
            _poke(x, _seen)
        v["☠"] = 1
    elif isinstance(v, list):
        for x in list(v):
            _poke(x, _seen)
        v.append("☠")
    elif isinstance(v, (tuple, frozenset)):
        for x in v:
            _poke(x, _seen)
    elif isinstance(v, set):
        for x in list(v):
            _poke(x, _seen)
        v.add("☠")
    elif isinstance(v, bytearray):
        v.append(1)
    elif isinstance(v, Box):
        _poke(v.x, _seen)
        v.x = ["☠", v.x]
    elif isinstance(v, Idx):
        v.m["☠"] = 1


def _template_arg(v):
    """a `value` of format_update_with / SetContext: wire value, pieces or raw template"""
    if isinstance(v, dict) and "pieces" in v:
        return template_of(v["pieces"])
    if isinstance(v, dict) and "raw" in v:
        return v["raw"]
    return dec(v)


def run_impl(case):
    import lena.context as lc
    op = case["op"]
    if op == "addr":
        d = dec(case["d"])
        snap = copy.deepcopy(d)
        out = []
        for p in _paths_of(case):
            ref = ref_get(d, p)
            codes = []
            for tag, keys in _get_variants(p):
                codes.append(_code(lambda: lc.get_recursively(d, keys), ref))
                codes.append(_code(lambda: lc.get_recursively(d, keys, DFLT), ref))
            s = ".".join(p)
            try:
                c = lc.contains(d, s)
                codes.append("T" if c is True else "F" if c is False else "r:" + repr(c))
            except Exception as e:
                codes.append(exc_name(e))
            codes.append("-" if ref is MISSING else _wjson(ref))
            out.append("|".join(codes))
        return {"paths": out, "unchanged": strict_eq(d, snap)}
    if op == "getx":
        d = dec(case["d"])
        k = case["keys"]
        keys = k["s"] if "s" in k else dec({"L": k["l"]}) if "l" in k else dec(k["k"]) if "k" in k else 17
        if "default" in case:
            return _outcome(lambda: lc.get_recursively(d, keys, dec(case["default"])))
        return _outcome(lambda: lc.get_recursively(d, keys))
    if op == "s2d":
        s = case["s"] if isinstance(case["s"], str) else dec(case["s"])
        res = {"list": _outcome(lambda: lc.str_to_list(s))}
        if "value" in case:
            v = dec(case["value"])
            try:
                d = lc.str_to_dict(s, v)
            except Exception as e:
                res["dict"] = {"e": exc_name(e)}
                return res
            res["dict"] = {"r": enc(d)}
            res["back"] = _outcome(lambda: lc.get_recursively(d, s), v)
            res["contains"] = _outcome(lambda: lc.contains(d, s))
        else:
            res["dict"] = _outcome(lambda: lc.str_to_dict(s))
        return res
    if op == "format":
        t = template_of(case["pieces"]) if "pieces" in case else case["raw"] if "raw" in case else dec(case["nonstr"])
        try:
            f = lc.format_context(t)
        except Exception as e:
            return {"init": exc_name(e)}
        calls = []
        for w in case["ctxs"]:
            c = dec(w)
            snap = copy.deepcopy(c)
            o = _outcome(lambda: f(c))
            o["unchanged"] = strict_eq(c, snap)
            calls.append(o)
        return {"init": "ok", "calls": calls}
    if op == "tostr":
        return {"r": [_outcome(lambda: lc.to_string(dec(w))) for w in case["vs"]]}
    if op == "upd":
        d = dec(case["d"])
        o = case["other"]
        other = o["s"] if "s" in o else dec(o["v"])
        osnap = copy.deepcopy(other)
        try:
            if "value" in case:
                r = lc.update_recursively(d, other, dec(case["value"]))
            else:
                r = lc.update_recursively(d, other)
        except Exception as e:
            return {"e": exc_name(e), "d": enc(d)}
        return {"r": enc(d), "ret_none": r is None, "other_unchanged": strict_eq(other, osnap)}
    if op == "fuw":
        d = dec(case["d"])
        v = _template_arg(case["value"])
        vsnap = copy.deepcopy(v)
        try:
            lc.format_update_with(_key_arg(case["key"]), v, d)
        except Exception as e:
            return {"e": exc_name(e), "d": enc(d)}
        return {"r": enc(d), "value_unchanged": strict_eq(v, vsnap)}
    if op == "setctx":
        import lena.meta
        v = _template_arg(case["value"])
        try:
            el = lena.meta.SetContext(_key_arg(case["key"]), v)
        except Exception as e:
            return {"init": exc_name(e)}
        res = {"init": "ok", "get0": _outcome(el._get_context), "steps": [],
               "repr": _outcome(lambda: repr(el)), "eq": _outcome(lambda: (el == lena.meta.SetContext(_key_arg(case["key"]), v), el == 5))}
        for w in case["ctxs"]:
            c = dec(w)
            snap = copy.deepcopy(c)
            try:
                el._set_context(c)
                st = "ok"
            except Exception as e:
                st = exc_name(e)
            g = _outcome(el._get_context)
            g2 = None
            try:
                got = el._get_context()
                _poke(got)
                g2 = _outcome(el._get_context)
            except Exception:
                pass
            res["steps"].append({"set": st, "get": g, "input_unchanged": strict_eq(c, snap),
                                 "get_is_copy": g2 is None or g2 == g})
        return res
    if op == "uc":
        return _run_uc(case)
    if op == "dc":
        return _run_dc(case)
    if op == "context":
        return _run_context(case)
    if op == "tostrj":
        return {"r": [_outcome(lambda: lc.to_string(decj(w))) for w in case["vs"]]}
    if op == "wfdup":
        return {}
    raise ValueError(op)


def _key_arg(k):
    return k if isinstance(k, str) else dec(k)


def _run_context(case):
    import lena.context as lc
    el = lc.Context()
    calls, attrs, reprs = [], [], []
    for w in case["items"]:
        data = ["payload"]
        c = dec(w) if w is not None else None
        value = (data, c) if c is not None else data
        try:
            r = el(value)
            ok = isinstance(r, tuple) and len(r) == 2 and isinstance(r[1], lc.Context)
            calls.append({"r": enc(dict(r[1])) if ok else None, "data_ok": ok and r[0] is data, "is_context": ok})
        except Exception as e:
            calls.append({"e": exc_name(e)})
        cc = lc.Context(c if c is not None else {})
        row = []
        for n in case["names"]:
            ref = (c or {}).get(n, MISSING)
            try:
                got = getattr(cc, n)
                row.append({"r": enc(got), "same": ref is not MISSING and got is ref})
            except Exception as e:
                row.append({"e": exc_name(e)})
        attrs.append(row)
        reprs.append(_outcome(lambda: repr(cc)))
    return {"calls": calls, "attrs": attrs, "reprs": reprs}


def _uc_build(case):
    import lena.context as lc
    a = case["args"]
    sub = a["subcontext"]
    if isinstance(sub, dict):
        sub = dec(sub)
    u = a["update"]
    update = dec(u["v"]) if "v" in u else uc_update_str(u)
    kw = {"value": a.get("value", False), "skip_on_missing": a.get("skip", False),
          "raise_on_missing": a.get("raise", False), "recursively": a.get("recursively", True)}
    default = MISSING
    if "default" in a:
        default = dec(a["default"])
        kw["default"] = default
    return (lambda: lc.UpdateContext(sub, update, **kw)), update, default


def _src_path(case):
    """for value=True: the key path of the item that is copied (None when not applicable)"""
    a = case["args"]
    u = a["update"]
    if a.get("value") and "pieces" in u and len(u["pieces"]) == 1 and u["pieces"][0][0] == "field":
        return u["pieces"][0][1]
    return None


def _run_uc(case):
    build, update, default = _uc_build(case)
    usnap, dsnap = copy.deepcopy(update), copy.deepcopy(default) if default is not MISSING else MISSING
    try:
        el = build()
    except Exception as e:
        return {"init": exc_name(e)}
    import lena.context as _lc
    extra = {"repr": _outcome(lambda: repr(el)),
             "eq": _outcome(lambda: (el == build(), el == 5, el != build(), el == _lc.UpdateContext("zz", 1),
                                     el == _lc.UpdateContext("zz", "{{a}}", value=True, default=[0]),
                                     el == _lc.UpdateContext("zz", "{{a}}", value=True, default=0)))}
    sub = case["args"]["subcontext"]
    subpath = sub.split(".") if isinstance(sub, str) else []
    src = _src_path(case)
    calls = []
    for w in case["items"]:
        data = ["payload"]
        c = dec(w) if w is not None else None
        value = (data, c) if c is not None else data
        try:
            r = el(value)
        except Exception as e:
            calls.append({"e": exc_name(e), "input_after": None if c is None else enc(c)})
            continue
        rec = {"same": r is value}
        if isinstance(r, tuple) and len(r) == 2 and isinstance(r[1], dict):
            rec["data_ok"] = r[0] is data
            rec["ctx"] = enc(r[1])
            rec["inplace"] = r[1] is c
        else:
            rec["data_ok"] = r is data
            rec["ctx"] = None
        rec["payload_ok"] = data == ["payload"]
        # deep-copy semantics, observed: change the inserted item in place, then re-read everything it could be shared with
        leaks = []
        if rec["ctx"] is not None and not rec["same"]:
            rctx = r[1]
            src_before = MISSING
            if src is not None and not (src[:len(subpath)] == subpath or subpath[:len(src)] == src):
                sb = ref_get(rctx, src)
                if sb is not MISSING:
                    src_before = copy.deepcopy(sb)
            item = ref_get(rctx, subpath)
            if item is not MISSING:
                _poke(item)
            if not strict_eq(update, usnap):
                leaks.append("update-argument")
            if default is not MISSING and not strict_eq(default, dsnap):
                leaks.append("default")
            if src_before is not MISSING and not strict_eq(ref_get(rctx, src), src_before):
                leaks.append("source-item")
            # the element itself must behave as before
            try:
                rr = el((["payload"], dec(w)) if w is not None else ["payload"])
                rr_ctx = enc(rr[1]) if isinstance(rr, tuple) and len(rr) == 2 and isinstance(rr[1], dict) else None
            except Exception as e:
                rr_ctx = {"e": exc_name(e)}
            if rr_ctx != rec["ctx"]:
                leaks.append("second-call")
        rec["leaks"] = leaks
        calls.append(rec)
    return {"init": "ok", "calls": calls, "extra": extra}


def _dc_key(case):
    k = case["key"]
    if "o" in k:
        return _key_arg(k["o"]), None
    if "s" in k:
        return k["s"], (k["s"].split(".") if k["s"] != "" else [])
    members = [dec(x) for x in (k["l"] if "l" in k else k["t"])]
    path = members if all(isinstance(x, str) for x in members) else None      # None: a malformed key
    return (members if "l" in k else tuple(members)), path


def _run_dc(case):
    import lena.context as lc
    key, _ = _dc_key(case)
    try:
        el = lc.DeleteContext(key)
    except Exception as e:
        return {"init": exc_name(e)}
    calls = []
    for w in case["items"]:
        data = ["payload"]
        c = dec(w) if w is not None else None
        value = (data, c) if c is not None else data
        try:
            r = el(value)
        except Exception as e:
            calls.append({"e": exc_name(e)})
            continue
        rec = {"same": r is value, "payload_ok": data == ["payload"]}
        if isinstance(r, tuple) and len(r) == 2 and isinstance(r[1], dict):
            rec["data_ok"] = r[0] is data
            rec["ctx"] = enc(r[1])
        else:
            rec["data_ok"] = r is data
            rec["ctx"] = None
        calls.append(rec)
    return {"init": "ok", "calls": calls}


# ---------------------------------------------------------------------------------------------
# the model


_UNMODELLED_WIRE = re.compile(r'"(py|T|S|FS|BA|box)": ')


def _case_modelable(case):
    """no value of a kind the model does not have (a set, a tuple, a bytearray, a foreign object with state ...)"""
    return not _UNMODELLED_WIRE.search(json.dumps(case))


def _simple_str(x):
    return all(32 <= ord(c) < 127 and c not in "'\"\\" for c in x)


def ref_str_modelled(v, top=True):
    """does the model transcribe str(v): a scalar with a working str(); a container whose strings repr() leaves alone"""
    if isinstance(v, dict):
        return all(_simple_str(k) and ref_str_modelled(x, False) for k, x in v.items())
    if isinstance(v, list):
        return all(ref_str_modelled(x, False) for x in v)
    if isinstance(v, Obj):
        return top and v.s is not None
    if isinstance(v, str):
        return top or _simple_str(v)
    return True


def piece_wf(pieces):
    for kind, x in pieces:
        if kind == "lit":
            if "{" in x or "}" in x:
                return False
        elif not wf_path(x) or any(c in k for k in x for c in "{}!:"):
            return False
    return True


def wire_wf(w):
    """no key twice in any dictionary of a wire value"""
    if isinstance(w, dict) and "d" in w:
        keys = [k for k, _ in w["d"]]
        return len(set(keys)) == len(keys) and all(wire_wf(x) for _, x in w["d"])
    if isinstance(w, dict) and "L" in w:
        return all(wire_wf(x) for x in w["L"])
    return True


def _spec_ctx_requests(case):
    """requests that execute the specification-side definitions of Model/C08Spec.lean on this case"""
    op = case["op"]
    if op == "format" and "pieces" in case:
        return [{"op": "spec", "what": "template", "pieces": case["pieces"], "ctxs": case["ctxs"]}]
    if op == "uc":
        r = [{"op": "spec", "what": "illformed", "args": _uc_model_args(case)}]
        u = case["args"]["update"]
        if "pieces" in u:
            r.append({"op": "spec", "what": "template", "pieces": u["pieces"],
                      "ctxs": [w if w is not None else {"d": []} for w in case["items"]]})
            r.append({"op": "jinja", "t": template_of(u["pieces"])})
        return r
    if op == "fuw" and isinstance(case["key"], str) and isinstance(case["d"], dict) and "d" in case["d"]:
        v = case["value"]
        r = [{"op": "spec", "what": "nottemplate", "vs": [_tmpl_wire(v)]}]
        if not (isinstance(v, dict) and ("pieces" in v or "raw" in v)) and case["key"]:
            r.append({"op": "spec", "what": "ucset", "d": case["d"], "path": case["key"].split("."), "u": v})
        return r
    if op == "tostr":
        vs = [w for w in case["vs"] if modelable(w)]
        return [{"op": "spec", "what": "wf", "vs": vs}, {"op": "spec", "what": "str", "vs": vs}]
    if op == "wfdup":
        return [{"op": "spec", "what": "wf", "vs": case["vs"]}]
    if op == "addr":
        return [{"op": "spec", "what": "wfpath", "paths": _paths_of(case)}]
    if op == "dc":
        _, path = _dc_key(case)
        if path is not None:
            return [{"op": "spec", "what": "wfpath", "paths": [path]}]
    return []


def _uc_model_args(case):
    a = _uc_wire_args(case)
    if not (isinstance(a["subcontext"], str) or a["subcontext"] is None):
        a["subcontext"] = None
    return a


def _uc_wire_args(case):
    a = dict(case["args"])
    u = a["update"]
    if "pieces" in u or "s" in u:
        a["update"] = {"s": uc_update_str(u)}
    return a


def _tmpl_wire(v):
    if isinstance(v, dict) and ("pieces" in v or "raw" in v):
        return _template_arg(v)
    return v


def _value_model_requests(case):
    if not _case_modelable(case) and case["op"] != "tostr":
        return [], []
    return _main_requests(case), _spec_ctx_requests(case)


def _heap_ok(w):
    """can the heap model (Model/C08Heap.lean) hold the wire value"""
    if isinstance(w, dict):
        for tag in ("L", "T", "S", "FS"):
            if tag in w:
                return all(_heap_ok(x) for x in w[tag])
        if "d" in w:
            return all(isinstance(k, str) and _heap_ok(x) for k, x in w["d"])
        if "box" in w:
            return _heap_ok(w["box"])
        if "BA" in w:
            return True
        return "f" in w or "o" in w
    return w is None or isinstance(w, (bool, int, str))


def _alias_request(case):
    """UpdateContext with object identities (ucCallH): cases marked by the generator whose update is a plain value or the
    item named by {{key}} with value=True"""
    if case["op"] != "uc" or not case.get("alias") or _uc_expect_init(case) != "ok":
        return None
    a = case["args"]
    sub = a["subcontext"]
    path = sub.split(".")
    if not wf_path(path):
        return None
    u = a["update"]
    src_path = None
    if "v" in u:
        if not _heap_ok(u["v"]):
            return None
        src = {"simple": u["v"]}
    else:
        f = _src_path(case)
        if f is None or not wf_path(f):
            return None
        src = {"key": f}
        if "default" in a:
            if not _heap_ok(a["default"]):
                return None
            src["default"] = a["default"]
        if not (f[:len(path)] == path or path[:len(f)] == f):
            src_path = f
    if not all(w is None or _heap_ok(w) for w in case["items"]):
        return None
    return {"op": "alias", "sub": path, "rec": bool(a.get("recursively", True)), "src": src, "srcpath": src_path,
            "items": case["items"]}


def _heap_requests(case):
    if case["op"] == "tostr":
        vt = [w for w in case["vs"] if modelable(tuples_as_lists(w))]
        if any(has_tuple(w) for w in vt):
            return [{"op": "to_string_h", "vs": vt}]
        return []
    r = _alias_request(case)
    return [r] if r else []


def model_requests(case):
    main, spec = _value_model_requests(case)
    return [for_model(r) for r in main + spec + _heap_requests(case)]


def _main_requests(case):
    op = case["op"]
    if op == "addr":
        r = {"op": "addr", "d": case["d"], "alpha": case["alpha"], "maxlen": case["maxlen"], "default": enc(DFLT)}
        if "alpha4" in case:
            r["alpha4"] = case["alpha4"]
        return [r]
    if op == "getx":
        r = {"op": "get", "d": case["d"], "keys": [case["keys"]]}
        if "default" in case:
            r["default"] = case["default"]
        return [r]
    if op == "s2d":
        r = {"op": "str_to_dict", "s": case["s"]}
        if "value" in case:
            r["value"] = case["value"]
        return [r, {"op": "str_to_list", "s": case["s"]}]
    if op == "format":
        if "nonstr" in case:
            return [{"op": "format", "t": None, "ctxs": []}]
        t = template_of(case["pieces"]) if "pieces" in case else case["raw"]
        return [{"op": "format", "t": t, "ctxs": case["ctxs"]}]
    if op == "tostr":
        vs = [w for w in case["vs"] if modelable(w)]
        return [{"op": "to_string", "vs": vs}, {"op": "pyeq", "vs": vs}]
    if op == "context":
        return [{"op": "context", "items": case["items"], "names": case["names"]}]
    if op == "tostrj":
        return [{"op": "to_string_j", "vs": case["vs"]}]
    if op == "wfdup":
        return []
    if op == "upd":
        r = {"op": "update_recursively", "d": case["d"], "other": case["other"]}
        if "value" in case:
            r["value"] = case["value"]
        return [r]
    if op == "fuw":
        return [{"op": "fuw", "key": case["key"], "value": _tmpl_wire(case["value"]), "d": case["d"]}]
    if op == "setctx":
        return [{"op": "setctx", "key": case["key"], "value": _tmpl_wire(case["value"]), "ctxs": case["ctxs"]}]
    if op == "uc":
        return [{"op": "uc", "args": _uc_model_args(case), "items": case["items"]}]
    if op == "dc":
        k = case["key"]
        return [{"op": "dc", "key": {"o": 0} if "o" in k else k if "t" not in k else {"l": k["t"]}, "items": case["items"]}]
    raise ValueError(op)


def _field_eq(x, y):
    """two fields of a compact addr line: equal texts, or equal JSON values (the two sides escape strings differently)"""
    if x == y:
        return True
    for pre in ("r:", ""):
        if x.startswith(pre) and y.startswith(pre):
            try:
                return json.loads(x[len(pre):]) == json.loads(y[len(pre):])
            except ValueError:
                pass
    return False


def _cmp_out(what, impl, model):
    """impl outcome {"r":W}|{"e":..} against the model's; None when they agree or the model declines"""
    _count(what.split(" ")[0].split(".")[0], model.get("e") == "unmodelled")
    if model.get("e") == "unmodelled":
        return None
    if "e" in impl or "e" in model:
        if impl.get("e") != model.get("e"):
            return f"{what}: impl {impl} vs model {model}"
        return None
    if not weq(impl["r"], model["r"]):
        return f"{what}: impl {jdump(impl['r'])} vs model {jdump(model['r'])}"
    return None


def compare(case, res, replies):
    for m in replies:
        if isinstance(m, dict) and "err" in m:
            return f"model driver error: {m['err']}"
    main, spec = _value_model_requests(case)
    n, m = len(main), len(main) + len(spec)
    return _compare_main(case, res, replies[:n]) or _compare_spec(case, res, replies[n:m]) or _compare_heap(case, res, replies[m:])


def _compare_heap(case, res, replies):
    """the heap model (object identities, values with tuples) against the real code"""
    if not replies:
        return None
    m = replies[0]
    if case["op"] == "tostr":
        idx = [i for i, w in enumerate(case["vs"]) if modelable(tuples_as_lists(w))]
        vs = [dec(case["vs"][i]) for i in idx]
        for k, i in enumerate(idx):
            if res["r"][i] != m["r"][k]:
                return f"to_string (values with tuples) #{i}: impl {res['r'][i]} vs heap model {m['r'][k]}"
        for a in range(len(vs)):
            for b in range(len(vs)):
                if m["eq"][a][b] != strict_eq(vs[a], vs[b]):
                    return f"Lean pyEqH({vs[a]!r}, {vs[b]!r}) = {m['eq'][a][b]} differs from the (type-strict) Python equality"
                if m["jeq"][a][b] != strict_eq(vs[a], vs[b], arrays=True):
                    return f"Lean pyEq on toVal ({vs[a]!r}, {vs[b]!r}) = {m['jeq'][a][b]} differs from equality up to tuple/list"
        return None
    if case["op"] == "uc":
        if res["init"] != "ok":
            return f"UpdateContext (heap model): construction raised {res['init']}"
        for i, (c, mc) in enumerate(zip(res["calls"], m["calls"])):
            if "err" in mc:
                return f"heap model: {mc['err']}"
            if mc.get("skip"):
                # nothing is copied: the value is returned as it is, or LenaKeyError is raised
                if not (c.get("e") == "LenaKeyError" or (c.get("same") and "e" not in c)):
                    return f"uc call on item {i} (heap model): the key is missing, impl {c}"
                continue
            if "e" in c or c.get("ctx") is None:
                return f"uc call on item {i} (heap model): impl {c} vs model {mc}"
            if not weq(c["ctx"], mc["ctx"]):
                return f"uc call on item {i} (heap model): impl {jdump(c['ctx'])} vs model {jdump(mc['ctx'])}"
            leaks = sorted(x for x in c.get("leaks", []) if x != "second-call")
            if leaks != sorted(mc["leaks"]):
                return (f"uc call on item {i}: changing the inserted item in place changed {leaks} in the real code, "
                        f"{mc['leaks']} in the heap model")
        return None
    return None


def _compare_spec(case, res, replies):
    """the specification-side definitions (Model/C08Spec.lean) against independent Python references"""
    if not replies:
        return None
    op = case["op"]

    def template(m, pieces, ctxs):
        if m["template"] != template_of(pieces):
            return f"Lean templateString {m['template']!r} differs from {template_of(pieces)!r}"
        if m["wf"] != piece_wf(pieces):
            return f"Lean pieceWFB = {m['wf']} on {pieces}, Python reference {piece_wf(pieces)}"
        for w, mc in zip(ctxs, m["ctxs"]):
            c = dec(w)
            if not isinstance(c, dict) or wire_has_subclass(w):
                continue
            fields = [x for k, x in pieces if k == "field"]
            present = all(ref_get(c, f) is not MISSING for f in fields)
            strm = all(ref_get(c, f) is MISSING or ref_str_modelled(ref_get(c, f)) for f in fields)
            if mc["present"] != present or mc["str"] != strm:
                return f"Lean fieldsPresent/strFieldsB = {mc['present']}/{mc['str']} on {pieces}, {c!r}; Python {present}/{strm}"
            if strm and mc["text"] != ref_render(pieces, c, "empty"):
                return f"Lean renderSpec = {mc['text']!r} on {pieces}, {c!r}; Python reference {ref_render(pieces, c, 'empty')!r}"
        return None

    if op == "format":
        return template(replies[0], case["pieces"], case["ctxs"])
    if op == "uc":
        exp = _uc_expect_init(case)
        if exp == "ok" or "ok" not in exp:
            if replies[0]["r"] != (exp != "ok"):
                return f"Lean illFormedB = {replies[0]['r']} on {case['args']}, Python reference: {exp}"
        a = case["args"]
        n_active = int("default" in a) + int(bool(a.get("skip"))) + int(bool(a.get("raise")))
        if replies[0]["n"] != n_active:
            return f"Lean nActive = {replies[0]['n']}, Python {n_active}"
        if len(replies) > 1:
            msg = template(replies[1], a["update"]["pieces"], [w if w is not None else {"d": []} for w in case["items"]])
            if msg:
                return msg
            # the model's jinja2 parser against the pieces the template was built from (adjacent literals merged)
            want = []
            for k, x in a["update"]["pieces"]:
                if k == "lit" and x == "":
                    continue
                if k == "lit" and want and want[-1][0] == "lit":
                    want[-1] = ["lit", want[-1][1] + x]
                else:
                    want.append([k, x])
            if replies[2].get("r") != want and replies[2].get("e") != "foreign":
                return f"Lean jinjaParse({template_of(a['update']['pieces'])!r}) = {replies[2]}, pieces were {want}"
        return None
    if op == "fuw":
        v = _template_arg(case["value"])
        want = not (isinstance(v, str) and "{" in v)
        if replies[0]["r"] != [want]:
            return f"Lean notTemplateB = {replies[0]['r']} on {v!r}, Python {want}"
        if len(replies) > 1:
            m = replies[1]
            d, path, u = dec(case["d"]), case["key"].split("."), dec(case["value"])
            refs = {"rec": ref_set(copy.deepcopy(d), path, u, True), "plain": ref_set(copy.deepcopy(d), path, u, False),
                    "del": ref_del(copy.deepcopy(d), path)}
            nest = u
            for k in reversed(path):
                nest = {k: nest}
            refs["nest"] = nest
            sub = d.get(path[0], MISSING)
            refs["sub"] = sub if isinstance(sub, dict) else {}
            for k, ref in refs.items():
                if not weq(m[k], enc(ref)):
                    return f"Lean spec '{k}' (ucSet/delPath/nestPath/subDict) = {dec(m[k])!r} on {d!r}, {path}, {u!r}; Python {ref!r}"
        return None
    if op in ("tostr", "wfdup"):
        vs = [w for w in case["vs"] if modelable(w)]
        want = [wire_wf(w) for w in vs]
        if replies[0]["r"] != want:
            return f"Lean valWFB = {replies[0]['r']}, Python reference {want} on {vs}"
        if op == "tostr":
            for w, m in zip(vs, replies[1]["r"]):
                v = dec(w)
                if wire_has_subclass(w):
                    continue            # str() of an instance of a dict subclass is not the repr of the dictionary
                if (m is not None) != ref_str_modelled(v):
                    return f"Lean pyStrVal defined = {m is not None} on {v!r}, Python reference {ref_str_modelled(v)}"
                if m is not None and m != str(v):
                    return f"Lean pyStrVal = {m!r} on {v!r}, Python str() = {str(v)!r}"
        return None
    if op == "addr":
        want = [wf_path(p) for p in _paths_of(case)]
        if replies[0]["r"] != want:
            return f"Lean wfPathB differs from the Python reference on {case['alpha']}"
        return None
    if op == "dc":
        _, path = _dc_key(case)
        if replies[0]["r"] != [wf_path(path)]:
            return f"Lean wfPathB {replies[0]['r']} on {path}"
        return None
    return None


def _compare_main(case, res, replies):
    if not replies:
        return None
    op = case["op"]
    if op == "addr":
        lines = replies[0]["r"]
        if len(lines) != len(res["paths"]):
            return f"addr: {len(lines)} model lines for {len(res['paths'])} paths"
        for p, a, b in zip(_paths_of(case), res["paths"], lines):
            if a != b:
                fa, fb = a.split("|"), b.split("|")
                declined = [i for i, x in enumerate(fb) if x == "?"]       # contains through a list whose repr is not modelled
                _count("addr", bool(declined))
                if len(fa) != len(fb) or any(not _field_eq(x, y) for i, (x, y) in enumerate(zip(fa, fb)) if i not in declined):
                    return (f"path {p}: impl {a} vs model {b} (fields: per notation s,l,e[,v] the outcome without/with "
                            f"default, contains, reference item)")
            else:
                _count("addr", False)
        return None
    if op == "getx":
        return _cmp_out("get_recursively", res, replies[0]["r"][0])
    if op == "s2d":
        msg = _cmp_out("str_to_dict", res["dict"], replies[0])
        if msg:
            return msg
        ml = {"r": {"L": replies[1]["r"]}} if "r" in replies[1] else replies[1]
        if res["list"] != ml:
            return f"str_to_list: impl {res['list']} vs model {replies[1]}"
        return None
    if op == "format":
        m = replies[0]
        if res["init"] != m["init"]:
            return f"format_context construction: impl {res['init']} vs model {m['init']}"
        if res["init"] != "ok":
            return None
        for i, (a, b) in enumerate(zip(res["calls"], m["calls"])):
            if "r" in a and "r" in b and a["r"] != b["r"] and wire_has_subclass(case["ctxs"][i]):
                continue        # str() of an instance of a dict subclass was rendered: not the repr of a dict (oracle only)
            msg = _cmp_out(f"format call {i}", {k: v for k, v in a.items() if k in ("r", "e")}, b)
            if msg:
                return msg
        return None
    if op == "tostr":
        impl = [r for w, r in zip(case["vs"], res["r"]) if modelable(w)]
        for i, (a, b) in enumerate(zip(impl, replies[0]["r"])):
            if a != b:
                return f"to_string #{i}: impl {a} vs model {b!r}"
        if replies[0].get("j") != replies[0]["r"]:
            return "Lean jTokens (Val.toJ v) differs from toStringE v"
        # the model's notion of equal dictionaries (pyEq, proved equivalent to DictEq) against Python's
        vs = [dec(w) for w in case["vs"] if modelable(w)]
        for i, row in enumerate(replies[1]["r"]):
            for j, m in enumerate(row):
                if m != strict_eq(vs[i], vs[j]):
                    return f"Lean pyEq({vs[i]!r}, {vs[j]!r}) = {m} differs from the (type-strict) Python equality"
        return None
    if op in ("upd", "fuw"):
        return _cmp_out(op, {k: v for k, v in res.items() if k in ("r", "e")}, replies[0])
    if op == "tostrj":
        for i, (a, b) in enumerate(zip(res["r"], replies[0]["r"])):
            msg = _cmp_out(f"to_string #{i} (keys that are not strings)", a, b)
            if msg:
                return msg
        return None
    if op == "context":
        m = replies[0]
        for i, (w, a, b) in enumerate(zip(case["items"], res["calls"], m["calls"])):
            if w is None:
                continue            # a value without context: not modelled
            msg = _cmp_out(f"Context.__call__ on item {i}", {"e": a["e"]} if "e" in a else {"r": a["r"]}, b)
            if msg:
                return msg
        for i, (ra, rb) in enumerate(zip(res["attrs"], m["attrs"])):
            for n, a, b in zip(case["names"], ra, rb):
                msg = _cmp_out(f"Context.{n} on item {i}", {k: v for k, v in a.items() if k in ("r", "e")}, b)
                if msg:
                    return msg
        for i, (a, b) in enumerate(zip(res["reprs"], m["reprs"])):
            msg = _cmp_out(f"repr(Context) of item {i}", a, b)
            if msg:
                return msg
        return None
    if op == "setctx":
        m = replies[0]
        if res["init"] != m["init"]:
            return f"SetContext construction: impl {res['init']} vs model {m['init']}"
        if res["init"] != "ok":
            return None
        msg = _cmp_out("get0", res["get0"], m["get0"])
        if msg:
            return msg
        for i, (a, b) in enumerate(zip(res["steps"], m["steps"])):
            if b["set"] == "unmodelled":
                return None       # the model's state is unknown from here on
            if a["set"] != b["set"]:
                return f"_set_context #{i}: impl {a['set']} vs model {b['set']}"
            msg = _cmp_out(f"_get_context #{i}", a["get"], b["get"])
            if msg:
                return msg
        return None
    if op in ("uc", "dc"):
        m = replies[0]
        _count(op, m.get("init") == "unmodelled")
        if m.get("init") == "unmodelled":
            return None
        if res["init"] != m.get("init", "ok"):
            return f"{op} construction: impl {res['init']} vs model {m.get('init')}"
        if res["init"] != "ok":
            return None
        for i, (a, b) in enumerate(zip(res["calls"], m["calls"])):
            ia = {"e": a["e"]} if "e" in a else {"r": a["ctx"]}
            msg = _cmp_out(f"{op} call on item {i}", ia, b)
            if msg:
                return msg
        return None
    raise ValueError(op)


# ---------------------------------------------------------------------------------------------
# the oracle: the property's own statement on the real code's result


def _ref_dict_keys(k):
    """documented reading of the dictionary notation: one key per level; the innermost value, if it is true, is the last key"""
    out = []
    while isinstance(k, dict):
        if len(k) > 1:
            return "LenaValueError"
        if not k:
            return out
        key = next(iter(k))
        out.append(key)
        k = k[key]
    if k:
        out.append(k)
    return out


def _expect_get(d, path, default, res, what):
    hashable = all(isinstance(k, (str, int, bool, type(None))) for k in path)
    ref = ref_get(d, [k for k in path]) if hashable and all(isinstance(k, str) for k in path) else MISSING
    if ref is MISSING:
        if default is MISSING:
            if res.get("e") != "LenaKeyError":
                return f"{what}: the item is absent, expected LenaKeyError, got {res}"
        elif "e" in res or not strict_eq(dec(res["r"]), default):
            return f"{what}: the item is absent, expected the default, got {res}"
        return None
    if "e" in res or not strict_eq(dec(res["r"]), ref):
        return f"{what}: expected the item {ref!r}, got {res}"
    return None


def _safe_str(x):
    """str(x), or None when it raises (contains then answers False)"""
    try:
        return str(x)
    except Exception:
        return None


def _oracle_addr(case, res):
    d = dec(case["d"])
    if not res["unchanged"]:
        return "get_recursively/contains changed the dictionary"
    for p, rec in zip(_paths_of(case), res["paths"]):
        if not wf_path(p):
            continue
        ref = ref_get(d, p)
        variants = _get_variants(p)
        parts = rec.split("|", 2 * len(variants) + 1)
        refjson = "-" if ref is MISSING else _wjson(ref)
        for n, (tag, _) in enumerate(variants):
            for k, with_default in ((2 * n, False), (2 * n + 1, True)):
                code = parts[k]
                what = f"get_recursively({d!r}, <path {p} in notation '{tag}'>{', default' if with_default else ''})"
                if ref is MISSING:
                    want = "D" if with_default else "LenaKeyError"
                    if code != want:
                        return f"{what}: the item is absent, expected {'the default' if with_default else 'LenaKeyError'}, got {code}"
                elif code != "=" and code != "r:" + refjson:
                    return f"{what}: expected the item {ref!r}, got {code}"
        # contains agrees with get_recursively
        if not p:
            want = True
        else:
            parent = ref_get(d, p[:-1])
            want = ref is not MISSING or (parent is not MISSING and not isinstance(parent, dict) and _safe_str(parent) == p[-1])
        c = parts[2 * len(variants)]
        if c != ("T" if want else "F"):
            return (f"contains({d!r}, {'.'.join(p)!r}) = {c}, expected {want} "
                    f"(item {'present' if ref is not MISSING else 'absent'})")
    return None


def _oracle_getx(case, res):
    d = dec(case["d"])
    k = case["keys"]
    dflt = dec(case["default"]) if "default" in case else MISSING
    what = f"get_recursively({d!r}, {k})"
    if not isinstance(d, dict):
        return None if res.get("e") == "LenaTypeError" else f"{what}: d is not a dictionary, expected LenaTypeError, got {res}"
    if "o" in k:
        return None if res.get("e") == "LenaTypeError" else f"{what}: keys of a wrong type, expected LenaTypeError, got {res}"
    if "l" in k:
        if not all(isinstance(x, str) for x in k["l"]):
            return None if res.get("e") == "LenaTypeError" else f"{what}: a key is not a string, expected LenaTypeError, got {res}"
        path = list(k["l"])
        if not wf_path(path):
            return None if res.get("e") in (None, "LenaKeyError") else f"{what}: unexpected exception {res}"
        return _expect_get(d, path, dflt, res, what)
    if "k" in k:
        path = _ref_dict_keys(dec(k["k"]))
        if path == "LenaValueError":
            return None if res.get("e") == "LenaValueError" else f"{what}: more than one key at a level, expected LenaValueError, got {res}"
        if any(isinstance(x, (list, dict, Obj)) for x in path):
            # the innermost value becomes a key; a list is not hashable: builtin TypeError when it is reached.  Judged outside
            # the malformed-argument sentence (get_recursively is not named there), see /verif/notes/C08_defect_3.md
            return None if res.get("e") in (None, "LenaKeyError", "Other:TypeError") else f"{what}: unexpected exception {res}"
        return _expect_get(d, path, dflt, res, what)
    s = k["s"]
    path = s.split(".") if s else []
    if not wf_path(path):
        # undefined by the documentation; only the exception contract is demanded
        return None if res.get("e") in (None, "LenaKeyError") else f"{what}: unexpected exception {res}"
    return _expect_get(d, path, dflt, res, what)


def _oracle_s2d(case, res):
    s = case["s"]
    if not isinstance(s, str):
        # "a malformed argument by LenaTypeError" (/verif/notes/C08_defect_1)
        if res["list"].get("e") != "LenaTypeError":
            return f"str_to_list({dec(s)!r}): not a string, expected LenaTypeError, got {res['list']}"
        if res["dict"].get("e") != "LenaTypeError":
            return f"str_to_dict({dec(s)!r}, ..): not a string, expected LenaTypeError, got {res['dict']}"
        return None
    want_list = [] if s == "" else s.split(".")
    if res["list"] != {"r": {"L": want_list}}:
        return f"str_to_list({s!r}) = {res['list']}, expected {want_list}"
    path = s.split(".") if s else []
    if "value" in case:
        v = dec(case["value"])
        if s == "":
            return None if res["dict"].get("e") == "LenaValueError" else \
                f"str_to_dict('', value): expected LenaValueError, got {res['dict']}"
        if not wf_path(path):
            return None if res["dict"].get("e") in (None, "LenaValueError") else f"str_to_dict({s!r}, v): {res['dict']}"
        want = v
        for k in reversed(path):
            want = {k: want}
        if "e" in res["dict"] or not strict_eq(dec(res["dict"]["r"]), want):
            return f"str_to_dict({s!r}, {v!r}) = {res['dict']}, expected {want!r}"
        b = res["back"]
        if "e" in b or not b.get("same"):
            return f"get_recursively(str_to_dict({s!r}, v), {s!r}) is not v: {b}"
        if res["contains"] != {"r": True}:
            return f"contains(str_to_dict({s!r}, v), {s!r}) = {res['contains']}"
        return None
    if s == "":
        return None if res["dict"] == {"r": {"d": []}} else f"str_to_dict('') = {res['dict']}, expected {{}}"
    if not wf_path(path):
        return None if res["dict"].get("e") in (None, "LenaValueError") else f"str_to_dict({s!r}): {res['dict']}"
    if len(path) < 2:
        return None if res["dict"].get("e") == "LenaValueError" else f"str_to_dict({s!r}): expected LenaValueError, got {res['dict']}"
    want = path[-1]
    for k in reversed(path[:-1]):
        want = {k: want}
    if "e" in res["dict"] or not strict_eq(dec(res["dict"]["r"]), want):
        return f"str_to_dict({s!r}) = {res['dict']}, expected {want!r}"
    return None


def _oracle_format(case, res):
    if "nonstr" in case:
        return None if res["init"] == "LenaTypeError" else f"format_context(non-string): expected LenaTypeError, got {res['init']}"
    if "raw" in case:
        t = case["raw"]
        if res["init"] not in ("ok", "LenaValueError"):
            return f"format_context({t!r}) raised {res['init']} (only LenaValueError is documented for a malformed string)"
        if t.count("{") != t.count("}") and res["init"] != "LenaValueError":
            return f"format_context({t!r}) with unbalanced braces: expected LenaValueError, got {res['init']}"
        # "all other errors are raised only during formatting" (docstring): with a conversion or a format
        # specification str.format may raise ValueError or TypeError; without them only ValueError (single brace)
        allowed = (None, "LenaKeyError", "Other:ValueError") + (("Other:TypeError",) if ("!" in t or ":" in t) else ())
        for w, c in zip(case["ctxs"], res.get("calls", [])):
            if c.get("e") not in allowed:
                return f"format_context({t!r})({dec(w)!r}) raised {c['e']}"
            if not c["unchanged"]:
                return f"format_context({t!r})({dec(w)!r}) changed the context"
        return None
    pieces = case["pieces"]
    t = template_of(pieces)
    has_field = any(k == "field" for k, _ in pieces)
    if res["init"] != "ok":
        return f"format_context({t!r}) raised {res['init']} for a well-formed template"
    for w, c in zip(case["ctxs"], res["calls"]):
        ctx = dec(w)
        want = ref_render(pieces, ctx)
        if not c["unchanged"]:
            return f"format_context({t!r})({ctx!r}) changed the context"
        if want is RAISES:
            continue
        if want is MISSING:
            if c.get("e") != "LenaKeyError":
                return f"format_context({t!r})({ctx!r}): a field is absent, expected LenaKeyError, got {c}"
        elif c.get("r") != want:
            return f"format_context({t!r})({ctx!r}) = {c}, expected {want!r}"
    return None


def _oracle_tostr(case, res):
    vs = [dec(w) for w in case["vs"]]
    rs = res["r"]
    for v, r in zip(vs, rs):
        serial = _serializable(v)
        if not serial:
            if r.get("e") != "LenaValueError":
                return f"to_string({v!r}): unserializable, expected LenaValueError, got {r}"
        elif "e" in r or not isinstance(r["r"], str):
            return f"to_string({v!r}) = {r}"
    for i in range(len(vs)):
        if "e" in rs[i]:
            continue
        for j in range(i + 1, len(vs)):
            if "e" in rs[j]:
                continue
            same = strict_eq(vs[i], vs[j])
            if same and rs[i]["r"] != rs[j]["r"]:
                return (f"equal dictionaries give different strings: to_string({vs[i]!r}) = {rs[i]['r']!r}, "
                        f"to_string({vs[j]!r}) = {rs[j]['r']!r}")
            # JSON has one array type: a tuple and a list with the same members are written alike (recorded in ASSUMPTIONS)
            if not strict_eq(vs[i], vs[j], arrays=True) and rs[i]["r"] == rs[j]["r"]:
                return f"different dictionaries {vs[i]!r} and {vs[j]!r} give the same string {rs[i]['r']!r}"
    return None


def _serializable(v):
    if isinstance(v, dict):
        return all(_serializable(x) for x in v.values())
    if isinstance(v, (list, tuple)):
        return all(_serializable(x) for x in v)
    return v is None or isinstance(v, (bool, int, str, float))


def _oracle_upd(case, res):
    d = dec(case["d"])
    o = case["other"]
    has_value = "value" in case
    if "s" in o:
        s = o["s"]
        path = s.split(".") if s else []
        if not wf_path(path) or not isinstance(d, dict):
            return None if res.get("e") in (None, "LenaValueError", "LenaTypeError") else f"update_recursively: {res}"
        if has_value:
            if not path:
                want = "LenaValueError"
            else:
                want = ref_set(copy.deepcopy(d), path, dec(case["value"]))
        else:
            if len(path) == 0:
                want = copy.deepcopy(d)
            elif len(path) < 2:
                want = "LenaValueError"
            else:
                want = ref_set(copy.deepcopy(d), path[:-1], path[-1])
    else:
        other = dec(o["v"])
        if has_value:
            want = "LenaValueError"
        elif not isinstance(d, dict) or not isinstance(other, dict):
            want = "LenaTypeError"
        else:
            want = copy.deepcopy(d)
            ref_merge(want, other)
    if isinstance(want, str):
        if res.get("e") != want:
            return f"update_recursively({d!r}, {o}, value={case.get('value', '-')}): expected {want}, got {res}"
        if not strict_eq(dec(res["d"]), d):
            return f"update_recursively raised {want} but changed d to {dec(res['d'])!r}"
        return None
    if "e" in res or not strict_eq(dec(res["r"]), want):
        return f"update_recursively({d!r}, {o}) gives {res}, expected {want!r}"
    if not res.get("other_unchanged", True):
        return "update_recursively changed its second argument"
    return None


def _render_value(v, d):
    """value of format_update_with after formatting: (kind, x); kind in ok / LenaKeyError / any (not judged) / LenaValueError"""
    if isinstance(v, dict) and "pieces" in v:
        if not any(k == "field" for k, _ in v["pieces"]):
            return "ok", template_of(v["pieces"])
        if not isinstance(d, dict):
            return "LenaTypeError", None
        r = ref_render(v["pieces"], d)
        return ("LenaKeyError", None) if r is MISSING else ("any", None) if r is RAISES else ("ok", r)
    if isinstance(v, dict) and "raw" in v:
        t = v["raw"]
        if "{" not in t:
            return "ok", t
        if t.count("{") != t.count("}") or "{{" not in t:
            return "LenaValueError", None
        return "any", None
    return "ok", dec(v)


def _oracle_fuw(case, res):
    d = dec(case["d"])
    key = case["key"]
    what = f"format_update_with({key!r}, {_template_arg(case['value'])!r}, {d!r})"
    v = case["value"]
    spec = isinstance(v, dict) and "raw" in v and ("!" in v["raw"] or ":" in v["raw"])
    if res.get("e") not in (None, "LenaKeyError", "LenaValueError", "LenaTypeError", "Other:ValueError") and \
            not (spec and res.get("e") == "Other:TypeError"):
        return f"{what} raised {res['e']}"
    if "e" in res and not strict_eq(dec(res["d"]), d):
        return f"{what} raised {res['e']} but changed d to {dec(res['d'])!r}"
    kind, val = _render_value(case["value"], d)
    if kind == "any":
        return None
    if kind != "ok":
        return None if res.get("e") == kind else f"{what}: expected {kind}, got {res}"
    if not isinstance(key, str):
        return None if res.get("e") == "LenaTypeError" else f"{what}: the key is not a string, expected LenaTypeError, got {res}"
    path = key.split(".") if key else []
    if not path:
        return None if res.get("e") == "LenaValueError" else f"{what}: empty key, expected LenaValueError, got {res}"
    if not isinstance(d, dict):
        return None if res.get("e") == "LenaTypeError" else f"{what}: d is not a dictionary, expected LenaTypeError, got {res}"
    if not wf_path(path):
        return None
    want = ref_set(copy.deepcopy(d), path, val)
    if "e" in res or not strict_eq(dec(res["r"]), want):
        return f"{what} gives {res}, expected {want!r}"
    if not res.get("value_unchanged", True):
        return f"{what} changed its value argument"
    return None


def _oracle_setctx(case, res):
    key = case["key"]
    v = case["value"]
    what = f"SetContext({key!r}, {_template_arg(v)!r})"
    if not isinstance(key, str):
        allowed = ("ok", "LenaTypeError", "LenaValueError", "LenaKeyError", "Other:ValueError")
        if res["init"] not in allowed:
            return f"{what}: the key is not a string, expected LenaTypeError, got {res['init']} at construction"
        kind0, _ = _render_value(v, {})
        if kind0 == "ok" and res["init"] != "LenaTypeError":
            return f"{what}: the key is not a string, expected LenaTypeError at construction, got {res['init']}"
        for st in res.get("steps", []):
            if st["set"] not in allowed:
                return f"{what}._set_context raised {st['set']}"
        return None
    path = key.split(".") if key else []
    kind0, _ = _render_value(v, {})
    if res["init"] != "ok":
        if res["init"] not in ("LenaValueError", "LenaTypeError", "Other:ValueError"):
            return f"{what} raised {res['init']} at construction"
        if kind0 in ("ok", "LenaKeyError") and path and wf_path(path):
            return f"{what} raised {res['init']} at construction for well-formed arguments"
        return None
    if not path and kind0 in ("ok",):
        return f"{what}: empty key accepted"
    for w, st in zip(case["ctxs"], res["steps"]):
        c = dec(w)
        if not st["input_unchanged"]:
            return f"{what}._set_context({c!r}) changed the context it was given"
        if not st["get_is_copy"]:
            return f"{what}._get_context() returns its own context, not a copy"
        kind, val = _render_value(v, c)
        if kind == "any" or not wf_path(path) or not path:
            continue
        if kind == "ok":
            want = ref_set(copy.deepcopy(c), path, val)
            if st["set"] != "ok" or "e" in st["get"] or not strict_eq(dec(st["get"]["r"]), want):
                return f"{what}._set_context({c!r}): {st}, expected static context {want!r}"
        elif st["set"] != kind:
            return f"{what}._set_context({c!r}): expected {kind}, got {st['set']}"
    return None


def _jinja_bad(s):
    """True: jinja2 must reject the template (an unclosed or empty print statement); False: literal text and
    {{name}} prints only; None: not judged"""
    i, verdict = 0, False
    while True:
        i = s.find("{{", i)
        if i < 0:
            return verdict
        j = s.find("}}", i + 2)
        if j < 0:
            return True
        expr = s[i + 2:j].strip()
        if expr == "":
            return True
        if not all(part.isidentifier() for part in expr.split(".")):
            verdict = None
        i = j + 2


def _uc_expect_init(case):
    """documented construction outcome: 'ok', or the set of acceptable exception classes"""
    a = case["args"]
    sub = a["subcontext"]
    u = a["update"]
    n_active = int("default" in a) + int(bool(a.get("skip"))) + int(bool(a.get("raise")))
    problems = set()
    if not isinstance(sub, str):
        problems.add("LenaTypeError")
    elif sub == "":
        problems.add("LenaValueError")
    if n_active > 1:
        problems.add("LenaValueError")
    if "v" in u:
        if n_active:
            problems.add("LenaValueError")
    else:
        s = uc_update_str(u)
        # "braces can be only the first two and the last two symbols of update", "a non-empty single expression"
        body = s[2:-2]
        single = len(s) >= 5 and s.startswith("{{") and s.endswith("}}") and "{" not in body and "}" not in body \
            and body.strip() != ""
        if a.get("value"):
            if not single:
                problems.add("LenaValueError")
        else:
            if "default" in a:
                problems.add("LenaValueError")
            if n_active or "{" in s:
                bad = _jinja_bad(s)
                if bad:
                    problems.add("LenaValueError")
                elif bad is None:
                    problems.add("LenaValueError")
                    problems.add("ok")
    return problems or "ok"


def _uc_expect_update(case, ctx):
    """('set', value) | ('skip',) | ('raise', 'LenaKeyError') | ('any',)"""
    a = case["args"]
    u = a["update"]
    if "v" in u:
        return ("set", dec(u["v"]))
    if a.get("value"):
        s = uc_update_str(u)
        path = s[2:-2].strip().split(".")       # blanks around the key are not a part of it (/verif/notes/C08_defect_2)
        if not wf_path(path):
            return ("any",)
        v = ref_get(ctx, path)
        if v is not MISSING:
            return ("set", copy.deepcopy(v))
        if "default" in a:
            return ("set", dec(a["default"]))
        if a.get("skip"):
            return ("skip",)
        return ("raise", "LenaKeyError")
    if "pieces" in u:
        pieces = u["pieces"]
    elif "{{" not in u["s"]:
        pieces = [["lit", u["s"]]] if u["s"] else []
    elif u["s"] == "{{a}}{{b}}":
        pieces = [["field", ["a"]], ["field", ["b"]]]
    elif u["s"] == "{{a}}x":
        pieces = [["field", ["a"]], ["lit", "x"]]
    elif u["s"] in ("{{ a.b }}", "{{a.b}}", "{{\ta.b\n}}"):
        pieces = [["field", ["a", "b"]]]
    elif u["s"] == "{{  b.a.b  }}":
        pieces = [["field", ["b", "a", "b"]]]
    else:
        return ("any",)
    strict = a.get("skip") or a.get("raise")
    r = ref_render(pieces, ctx, "error" if strict else "empty")
    if r is RAISES:
        return ("any",)
    if r is MISSING:
        return ("skip",) if a.get("skip") else ("raise", "LenaKeyError")
    return ("set", r)


def _oracle_uc(case, res):
    a = case["args"]
    what = f"UpdateContext({a})"
    exp = _uc_expect_init(case)
    if exp != "ok" and "ok" not in exp:
        if res["init"] not in exp and not (len(exp) > 1 and res["init"] in ("LenaTypeError", "LenaValueError")):
            return f"{what}: malformed arguments, expected {sorted(exp)}, got {res['init']}"
        return None
    if exp != "ok" and res["init"] != "ok":
        return None if res["init"] in exp else f"{what}: expected one of {sorted(exp)}, got {res['init']}"
    if res["init"] != "ok":
        return f"{what}: well-formed arguments rejected with {res['init']}"
    subpath = a["subcontext"].split(".")
    for w, c in zip(case["items"], res["calls"]):
        ctx = dec(w) if w is not None else None
        base = ctx if ctx is not None else {}
        item = f"value with context {ctx!r}" if ctx is not None else "value without context"
        e = _uc_expect_update(case, base)
        if e[0] == "any":
            if c.get("e") not in (None, "LenaKeyError", "Other:RuntimeError"):
                return f"{what} on {item} raised {c['e']}"
            continue
        if e[0] == "raise":
            if c.get("e") != e[1]:
                return f"{what} on {item}: missing key, expected {e[1]}, got {c}"
            if ctx is not None and not strict_eq(dec(c["input_after"]), ctx):
                return f"{what} on {item} raised {e[1]} but changed the context to {dec(c['input_after'])!r}"
            continue
        if "e" in c:
            return f"{what} on {item} raised {c['e']}"
        if not c["data_ok"] or not c["payload_ok"]:
            return f"{what} on {item} changed or replaced the data"
        if e[0] == "skip":
            if not c["same"] and (ctx is None or c["ctx"] is None):
                return f"{what} on {item}: missing key with skip_on_missing, the value must be returned as it is"
            if ctx is not None and not strict_eq(dec(c["ctx"]), ctx):
                return f"{what} on {item}: skipped but the context became {dec(c['ctx'])!r}"
            continue
        if not wf_path(subpath):
            continue
        want = ref_set(copy.deepcopy(base), subpath, e[1], a.get("recursively", True))
        if c["ctx"] is None or not strict_eq(dec(c["ctx"]), want):
            return f"{what} on {item} gives context {None if c['ctx'] is None else dec(c['ctx'])!r}, expected {want!r}"
        if c["leaks"]:
            return (f"{what} on {item}: the inserted item is not a copy - changing it in place changed {c['leaks']} "
                    f"(second-call = the element gives another result for the same value afterwards)")
    return None


def _oracle_dc(case, res):
    key, path = _dc_key(case)
    what = f"DeleteContext({key!r})"
    if path is None:
        # "a malformed argument by LenaTypeError/LenaValueError, never by another exception" (/verif/notes/C08_defect_1, _3)
        if res["init"] in ("LenaTypeError", "LenaValueError"):
            return None
        if res["init"] != "ok":
            return f"{what}: a malformed key, expected LenaTypeError, got {res['init']} at construction"
        for w, c in zip(case["items"], res["calls"]):
            if c.get("e") not in ("LenaTypeError", "LenaValueError"):
                return (f"{what}: a key that is neither a string nor a list/tuple of strings was accepted at construction and "
                        f"the call on {('a value with context %r' % (dec(w),)) if w is not None else 'a value without context'} "
                        f"gave {c.get('e', 'no exception')} (expected LenaTypeError/LenaValueError)")
        return None
    if res["init"] != "ok":
        return f"{what} raised {res['init']} at construction"
    for w, c in zip(case["items"], res["calls"]):
        ctx = dec(w) if w is not None else None
        item = f"value with context {ctx!r}" if ctx is not None else "value without context"
        if "e" in c:
            return f"{what} on {item} raised {c['e']}"
        if not c["data_ok"] or not c["payload_ok"]:
            return f"{what} on {item} changed or replaced the data"
        if not wf_path(path):
            continue
        if ctx is None:
            if c["ctx"] not in (None, {"d": []}):
                return f"{what} on {item} returned context {c['ctx']}"
            continue
        want = ref_del(copy.deepcopy(ctx), path)
        if c["ctx"] is None or not strict_eq(dec(c["ctx"]), want):
            return f"{what} on {item} gives context {None if c['ctx'] is None else dec(c['ctx'])!r}, expected {want!r}"
    return None


def _oracle_context(case, res):
    import json as _json
    for w, c, row, rp in zip(case["items"], res["calls"], res["attrs"], res["reprs"]):
        ctx = dec(w) if w is not None else None
        if ctx is not None:
            # "If the value is a (data, context) pair, convert its context part to Context"
            if "e" in c:
                return f"Context()((data, {ctx!r})) raised {c['e']}"
            if not c["is_context"] or not c["data_ok"] or not strict_eq(dec(c["r"]), ctx):
                return f"Context()((data, {ctx!r})) gives {c}"
        base = ctx or {}
        for n, a in zip(case["names"], row):
            if n.startswith("_"):
                if a.get("e") != "Other:AttributeError":
                    return f"Context({base!r}).{n}: a private name, expected AttributeError, got {a}"
            elif n in base:
                if "e" in a or not a.get("same"):
                    return f"Context({base!r}).{n} = {a}, expected the item itself"
            elif a.get("e") != "LenaAttributeError":
                return f"Context({base!r}).{n}: missing, expected LenaAttributeError, got {a}"
        if _serializable(base):
            want = _json.dumps(base, sort_keys=True, indent=4)
            if rp != {"r": want}:
                return f"repr(Context({base!r})) = {rp}, expected json.dumps(sort_keys=True, indent=4)"
    return None


def _j_error(v):
    """must json.dumps(sort_keys=True) fail: keys that cannot be compared or cannot be written, an unserialisable item"""
    if isinstance(v, dict):
        keys = list(v)
        if any(isinstance(k, Obj) for k in keys):
            return True
        if len(keys) > 1:
            kinds = {"s" if isinstance(k, str) else "n" if isinstance(k, (int, float)) else "x" for k in keys}
            if kinds != {"s"} and kinds != {"n"}:
                return True
        return any(_j_error(x) for x in v.values())
    if isinstance(v, list):
        return any(_j_error(x) for x in v)
    return isinstance(v, Obj)


def _oracle_tostrj(case, res):
    vs = [decj(w) for w in case["vs"]]
    for v, r in zip(vs, res["r"]):
        if _j_error(v):
            if r.get("e") != "LenaValueError":
                return f"to_string({v!r}): not serialisable with sorted keys, expected LenaValueError, got {r}"
        elif "e" in r or not isinstance(r.get("r"), str):
            return f"to_string({v!r}) = {r}"
    for i in range(len(vs)):
        for j in range(i + 1, len(vs)):
            if "r" in res["r"][i] and "r" in res["r"][j] and vs[i] == vs[j] and _same_key_types(vs[i], vs[j]) \
                    and res["r"][i]["r"] != res["r"][j]["r"]:
                return f"equal dictionaries {vs[i]!r} (in different key order) give different strings"
    return None


def _same_key_types(a, b):
    if isinstance(a, dict) and isinstance(b, dict):
        return {(type(k), k) for k in a} == {(type(k), k) for k in b} and all(_same_key_types(a[k], b[k]) for k in a)
    if isinstance(a, list) and isinstance(b, list):
        return all(_same_key_types(x, y) for x, y in zip(a, b))
    return type(a) is type(b)


_ORACLES = {"tostrj": _oracle_tostrj, "context": _oracle_context, "wfdup": lambda case, res: None, "addr": _oracle_addr, "getx": _oracle_getx, "s2d": _oracle_s2d, "format": _oracle_format, "tostr": _oracle_tostr,
            "upd": _oracle_upd, "fuw": _oracle_fuw, "setctx": _oracle_setctx, "uc": _oracle_uc, "dc": _oracle_dc}


def oracle(case, res):
    return _ORACLES[case["op"]](case, res)


# ---------------------------------------------------------------------------------------------


def nontrivial(case, res):
    op = case["op"]
    if op == "addr":
        return any(rec.startswith("=") for rec in res["paths"][1:]) and any(rec.startswith("Lena") for rec in res["paths"])
    if op in ("getx", "upd", "fuw", "context", "tostrj"):
        return True
    if op == "s2d":
        return True
    if op == "format":
        if res["init"] != "ok":
            return "raw" not in case or "{{" in case["raw"]      # a rejected string without '{{' says little
        return any("r" in c and c["r"] for c in res["calls"])
    if op == "tostr":
        return len(case["vs"]) > 1
    if op == "setctx":
        return res["init"] != "ok" or any(s["set"] == "ok" for s in res["steps"])
    if op in ("uc", "dc"):
        return res["init"] != "ok" or any("e" in c or (c.get("ctx") is not None and not weq(c["ctx"], w if w is not None else {"d": []}))
                                          for w, c in zip(case["items"], res["calls"]))
    return False


def classify(case, res):
    op = case["op"]
    labels = [op]
    if op == "addr":
        hit = {"present": 0, "absent": 0, "contains-via-str": 0}
        for rec in res["paths"]:
            if rec.startswith("="):
                hit["present"] += 1
            else:
                hit["absent"] += 1
                if "|T|-" in rec:
                    hit["contains-via-str"] += 1
        labels += [f"addr:{k}" for k, v in hit.items() if v]
    elif op == "getx":
        labels.append("getx:" + (res.get("e") or "value"))
    elif op == "format":
        if res["init"] != "ok":
            labels.append("format:init-" + res["init"])
        else:
            labels += sorted({"format:call-" + (c.get("e") or "ok") for c in res["calls"]})
        labels.append("format:" + ("fields" if "pieces" in case else "raw" if "raw" in case else "nonstr"))
    elif op in ("uc", "dc", "setctx"):
        if res["init"] != "ok":
            labels.append(f"{op}:init-" + res["init"])
        elif op != "setctx":
            kinds = set()
            for w, c in zip(case["items"], res["calls"]):
                if "e" in c:
                    kinds.add("raise-" + c["e"])
                elif op == "dc":
                    kinds.add("no-context" if w is None else "unchanged" if weq(c["ctx"], w) else "deleted")
                else:
                    kinds.add("skip" if c.get("same") else "update")
            labels += [f"{op}:{k}" for k in sorted(kinds)]
        if op == "uc":
            a = case["args"]
            labels.append("uc:" + ("simple" if "v" in a["update"] else "value" if a.get("value") else "format"))
    elif op in ("upd", "fuw"):
        labels.append(f"{op}:" + (res.get("e") or "ok"))
    return labels


def signature(case, failure):
    c = {k: v for k, v in case.items() if k not in ("items", "ctxs", "vs")}
    return jdump(c)[:300]


def shrink(case):
    for k in ("items", "ctxs", "vs"):
        xs = case.get(k)
        if isinstance(xs, list) and len(xs) > 1:
            for i in range(len(xs)):
                yield dict(case, **{k: xs[:i] + xs[i + 1:]})
    if case["op"] == "addr" and case.get("maxlen", 0) > 0:
        yield dict({k: v for k, v in case.items() if k != "alpha4"}, maxlen=case["maxlen"] - 1)
        if len(case["alpha"]) > 1:
            for i in range(len(case["alpha"])):
                yield dict(case, alpha=case["alpha"][:i] + case["alpha"][i + 1:])
    for k in ("d",):
        w = case.get(k)
        if isinstance(w, dict) and "d" in w:
            for i in range(len(w["d"])):
                yield dict(case, **{k: {"d": w["d"][:i] + w["d"][i + 1:]}})
            for i, (kk, x) in enumerate(w["d"]):
                if isinstance(x, dict) and "d" in x:
                    for j in range(len(x["d"])):
                        yield dict(case, **{k: {"d": w["d"][:i] + [[kk, {"d": x["d"][:j] + x["d"][j + 1:]}]] + w["d"][i + 1:]}})
    for k in ("items", "ctxs", "vs"):
        xs = case.get(k)
        if isinstance(xs, list) and len(xs) == 1 and isinstance(xs[0], dict) and "d" in xs[0]:
            w = xs[0]
            for i in range(len(w["d"])):
                yield dict(case, **{k: [{"d": w["d"][:i] + w["d"][i + 1:]}]})


# ---- MANIFEST texts ------------------------------------------------------------------------
LEVEL_TEXT = ("Lean 4 theorems about a transcribed model of get_recursively/str_to_dict/contains/format_context/to_string/"
              "update_recursively/format_update_with/UpdateContext/DeleteContext/SetContext/Context over insertion-ordered "
              "string-keyed dictionaries with lists, floats and foreign objects as values (to_string also over non-string keys), for "
              "all contexts, key paths, templates and option combinations (no bound), including end-to-end statements from the "
              "constructor arguments of UpdateContext to the outcome of a call and the exception sets of every callable; 'different "
              "dictionaries give different strings' is proved for tokens (all values) and for the characters of the string (values "
              "without numbers; JSON string escaping proved a prefix code). The model is tied to /repo by a correspondence check "
              "that enumerates small scopes exhaustively (contexts over 2 keys up to depth 2 - in the thorough tier depth 3 -, "
              "paths of length 0..4, the notations, the whole UpdateContext option matrix, all short templates) and samples "
              "larger ones (quick: 400 of the 21609 depth-3 contexts), executes the specification-side definitions against Python "
              "references, and a reference oracle (naive path lookup / set / delete / render) on the real code including "
              "observed deep-copy behaviour. A second, heap-level model (object identities) carries the theorems about "
              "'a deep copy': every mutable object of the inserted item is new, an in-place change of it is not seen through the "
              "default, the update argument, the old context or any older value, and forgetting identities gives the value model; "
              "it is compared with in-place changes observed on the real code.")
LEVEL_NOTE = ("Trusted: Lean kernel (+ propext, Classical.choice, Quot.sound), the hand transcription validated by the "
              "correspondence run, str.format / json.dumps (number spelling) / re / str.isspace / jinja2 fragments as transcribed, "
              "copy.deepcopy as identity on values (aliasing checked on the real code only), the JSON protocol. Model replies "
              "'unmodelled' (counted in the evidence notes) are judged by the oracle only.")
TECHNIQUE = "Lean 4 proof over hand-written model + correspondence check (exhaustive small scopes, sampled deeper) + reference oracle"
DESIGN_REF = "DESIGN.md section 3, C08"
